"""Contracts for kopf._core.reactor.queueing: worker (Q1-Q4), watcher (Q5, Q6, Q8), _wait_for_depletion (Q9),
get_uid/get_version (Q10), and aiotasks.Scheduler (S1, S2)."""
import asyncio

import z3

from pyvc import *
from pyvc.stubs import Opaque, NullLogger, Clock, StubLoop, StubEvent
from pyvc.loader import _STOP
from kopf._core.reactor import queueing


# ------------------------------------------------------------------------------------------------
# Trusted contracts used here (asyncio):
#   asyncio.Queue          FIFO; put on an unbounded queue never suspends; empty() <=> no items;
#                          a cancelled get() removes nothing.
#   asyncio.wait_for(aw,t) returns aw's result, or raises TimeoutError not earlier than t after the call,
#                          having cancelled aw; other tasks run while it is pending.
#   asyncio.Condition      `async with c:` may suspend at entry; notify_all() does not suspend.
# ------------------------------------------------------------------------------------------------
IntSeq = z3.SeqSort(z3.IntSort())


class Ghost:
    """Per-object ghost sequences of event ids: everything the watcher ever put (`delivered`), everything
    handed to the processor (`processed`); `content` is what is in the backlog queue right now."""
    def __init__(self, vc):
        self.vc = vc
        self.delivered = SSeq(E().draw('delivered', IntSeq), 'int') if not vc.concrete else list(E().draw('delivered', IntSeq))
        self.processed = None
        self.content = None

    def cat(self, a, b):
        return a + b


class Streams(dict):
    """The real `streams` dict, with its mutations recorded (frame condition Q3)."""
    def __init__(self, vc, *a):
        super().__init__(*a)
        self.vc = vc
        self.log = []

    def __setitem__(self, k, v):
        self.log.append(('set', k)); self.vc.emit('streams.set', k)
        super().__setitem__(k, v)

    def __delitem__(self, k):
        self.log.append(('del', k)); self.vc.emit('streams.del', k)
        super().__delitem__(k)


class StubCondition:
    def __init__(self, on_enter=None):
        self.on_enter = on_enter
        self.entered = 0

    async def __aenter__(self):
        await suspend('condition.acquire')
        self.entered += 1
        return self

    async def __aexit__(self, *exc):
        return False

    def notify_all(self):
        E().emit('notify_all')


def _version_of(vc, name):
    return vc.opt(name, vc.str)


@harness('Q1', targets='kopf._core.reactor.queueing.worker', props=['C01', 'C07', 'C03', 'C14', 'C02', 'C20', 'C05', 'C06', 'C08', 'C09', 'C10', 'C11', 'C12', 'C13', 'C15', 'C17', 'C19'],
         prop_clauses={'C20': ['processor_failure_escalates', 'cancellation_propagates', 'frame_streams'], 'C05': ['got_item_processed_next', 'order_invariant', 'consistency_bookkeeping', 'no_retire_before_consistency_deadline', 'processor_gets_current_expectation'], 'C06': ['idle_exit_leaves_no_event', 'got_item_processed_next', 'order_invariant', 'frame_streams'], 'C08': ['idle_exit_leaves_no_event', 'got_item_processed_next', 'order_invariant'], 'C09': ['idle_exit_leaves_no_event', 'got_item_processed_next', 'order_invariant'], 'C10': ['idle_exit_leaves_no_event', 'got_item_processed_next', 'order_invariant', 'frame_streams'], 'C11': ['idle_exit_leaves_no_event', 'got_item_processed_next', 'order_invariant', 'frame_streams', 'consistency_bookkeeping', 'no_retire_before_consistency_deadline', 'processor_gets_current_expectation'], 'C12': ['got_item_processed_next'], 'C13': ['idle_exit_leaves_no_event', 'got_item_processed_next', 'order_invariant', 'frame_streams'], 'C15': ['got_item_processed_next'], 'C17': ['idle_exit_leaves_no_event', 'got_item_processed_next', 'order_invariant'], 'C19': ['idle_exit_leaves_no_event', 'got_item_processed_next', 'order_invariant', 'frame_streams']},
         clauses=['idle_exit_leaves_no_event', 'got_item_processed_next', 'order_invariant', 'frame_streams',
                  'consistency_bookkeeping', 'no_retire_before_consistency_deadline', 'processor_gets_current_expectation',
                  'processor_failure_escalates', 'cancellation_propagates'],
         canaries=['canary.never_idle_exit', 'canary.queue_empty_when_timeout_fires'],
         native_replays={'idle_exit_leaves_no_event': 'drivers/q1_idle_race.py', 'order_invariant': 'drivers/q1_idle_race.py',
                         'got_item_processed_next': 'drivers/q1_idle_race.py'},
         trusted=['asyncio.Queue FIFO / cancelled get() removes nothing', 'asyncio.wait_for contract', 'asyncio.Condition'])
def Q1(vc):
    return _q1(vc, 'order')


@harness('Q1p', targets='kopf._core.reactor.queueing.worker', props=['C01', 'C03', 'C07', 'C13', 'C10', 'C05', 'C06', 'C08', 'C09', 'C11', 'C12', 'C14', 'C15', 'C17', 'C19', 'C02'],
         prop_clauses={'C05': ['got_item_processed_next'], 'C06': ['pressure_tells_pending_events', 'got_item_processed_next', 'frame_streams'], 'C08': ['got_item_processed_next'], 'C09': ['pressure_tells_pending_events', 'got_item_processed_next'], 'C12': ['pressure_tells_pending_events', 'got_item_processed_next'], 'C14': ['pressure_tells_pending_events', 'got_item_processed_next'], 'C15': ['got_item_processed_next'], 'C17': ['got_item_processed_next'], 'C19': ['got_item_processed_next', 'frame_streams', 'hopeless_wait_not_repeated'], 'C02': ['pressure_tells_pending_events']},
         clauses=['pressure_tells_pending_events', 'hopeless_wait_not_repeated', 'frame_streams', 'got_item_processed_next'],
         canaries=['canary.never_idle_exit', 'canary.queue_empty_when_timeout_fires'],
         trusted=['as Q1; asyncio.wait_for(<fresh coroutine>, timeout <= 0) cancels the getter before its first step'])
def Q1p(vc):
    """queueing.worker as in Q1 (same loop contract, same rely), for the PRESSURE bookkeeping and progress under a hopeless wait: the
    invariant here is `events pending => pressure set` instead of the order equation of Q1 (the two together cost the solver 50x):
      pressure_tells_pending_events   the pressure the processor sees says exactly whether more events are pending (C03/C07/C13/C10: sleeps of
                                      the processor are interrupted by a new event, and never skipped with nothing pending);
      hopeless_wait_not_repeated      a wait that cannot succeed (time-out <= 0) over a filled backlog is not simply repeated (F-C01-1)."""
    return _q1(vc, 'pressure')


def _q1(vc, mode):
    """
    queueing.worker, one arbitrary iteration of its loop from an arbitrary state satisfying the invariant
      delivered == processed ++ backlog-content   (ids of events, in order)   and   key in streams
      and (expected_version is None) == (consistency_time is None),
    with every `await` a suspension point at which the watcher may append events to the backlog (rely).
    Q1  leaving through the idle time-out happens only with an empty backlog, and no suspension point
        lies between that emptiness test and `del streams[key]` (an event arriving as the idle worker retires
        is either seen by the re-check or arrives after the stream is removed, when the watcher creates a new one);
    Q2  every item taken from the backlog that is not EOS is handed to `processor` (awaited, so one at a time)
        before the next item is taken: the order invariant is preserved;
    Q3  `streams` is modified only by one `del streams[key]`, after which the backlog is not read again;
    Q4  (C07) the consistency expectation is armed exactly after a processor call that returned a version
        (with a positive consistency_timeout), cleared only by an event carrying exactly that version, handed
        to every processor call, and the idle time-out is never shorter than the time left to the deadline.
    Q5e (C20/C12) the worker ends with the processor's exception iff the processor raised (an unrecoverable processing error is
        escalated, never swallowed: the watcher fails with it and the operator stops), and with CancelledError iff it was
        cancelled while waiting -- on both ways out the stream is removed and the signaller notified (Q3).
    """
    eng = E()
    clock = Clock()
    key = ('RES', 'uid-1')
    idle_timeout = vc.real('settings.idle_timeout')
    cons_timeout = vc.real('settings.consistency_timeout')
    vc.assume(And(idle_timeout >= 0, cons_timeout >= 0), 'timeouts are non-negative settings')
    settings = Opaque('settings', queueing=Opaque('queueing', idle_timeout=idle_timeout),
                      persistence=Opaque('persistence', consistency_timeout=cons_timeout))
    sym = not vc.concrete

    # ---- ghost state of this object's stream
    G = Opaque('ghost')
    if sym:
        G.delivered = SSeq(eng.draw('delivered0', IntSeq), 'int')
        G.processed = SSeq(eng.draw('processed0', IntSeq), 'int')
        G.content = SSeq(eng.draw('content0', IntSeq), 'int')
    else:
        G.delivered, G.processed, G.content = (list(eng.draw(n, IntSeq)) for n in ('delivered0', 'processed0', 'content0'))
    if sym and mode == 'order':
        vc.assume(SBool(G.delivered.term == z3.Concat(G.processed.term, G.content.term)),
                  'precondition (watcher contract Q6): at spawn everything delivered is processed or still queued')
    G.susp_since_empty_check = True
    G.inflight = None          # id of an item got but not yet handed to the processor
    G.exit_kind = None
    G.gets_after_del = 0
    G.deleted = False
    G.processor_running = False

    def order_ok():
        if mode != 'order':
            return True
        if sym:
            return SBool(G.delivered.term == z3.Concat(G.processed.term, G.content.term))
        return G.delivered == G.processed + G.content

    def watcher_may_append(site):
        """rely: between two atomic segments the watcher may append events (only append, only at the tail) --
        but only while this backlog is reachable through streams[key] (afterwards it creates a new stream)."""
        if G.deleted:
            clock.advance(0)
            return None
        if sym:
            new = SSeq(eng.draw('appended', IntSeq), 'int')
            G.content = G.content + new
            G.delivered = G.delivered + new
        else:
            new = list(eng.draw('appended', IntSeq))
            G.content = G.content + new
            G.delivered = G.delivered + new
        G.susp_since_empty_check = True
        clock.advance(0)
        # rely (watcher contract Q5.pressure_follows_put): every put is followed at once by pressure.set();
        # nobody but this worker ever clears the pressure
        pressure.state = Or(pressure.state, vc_len(new) > 0)
        return None

    class Queue:
        def empty(self):
            G.susp_since_empty_check = False
            if G.deleted:
                G.gets_after_del += 1
            return vc_len(G.content) == 0

        def get(self):
            if G.deleted:
                G.gets_after_del += 1
            return Opaque('get-coroutine', close=lambda: None)

        def get_nowait(self):
            if G.deleted:
                G.gets_after_del += 1
            if vc_len(G.content) == 0:
                raise asyncio.QueueEmpty()
            vc.assume(vc_len(G.content) >= 1, 'implied by the test above (stated for the sequence solver)')
            G.took_after_timeout = True
            G.exit_kind = None
            return take_head()

    def take_head():
        head = G.content[0]
        if sym:
            G.content = SSeq(z3.SubSeq(G.content.term, 1, z3.Length(G.content.term) - 1), 'int')
        else:
            G.content = G.content[1:]
        G.inflight = head
        if vc.nondet(2, 'item is EOS?') == 1:
            G.inflight = None
            G.got_eos = True
            return queueing.EOS.token
        # every kind of watch event, also the type-less ones of a (re-)listing: a listing queued behind a running handler carries
        # the object as it was BEFORE the operator's patch (seeded C05-10: the worker dropped its expectation on any listing event)
        ev = {'type': vc.fin('event.type', [None, 'ADDED', 'MODIFIED', 'DELETED']),
              'object': {'metadata': {'resourceVersion': _version_of(vc, 'event.version')}}}
        G.event, G.event_id = ev, head
        return ev

    backlog = Queue()
    pressure = StubEvent('pressure')
    if mode == 'pressure':
        vc.assume(Implies(vc_len(G.content) > 0, pressure.is_set()),
                  'precondition (watcher contract Q5.pressure_follows_put): whatever is queued at spawn was followed by pressure.set()')
    streams = Streams(vc, {key: queueing.Stream(backlog=backlog, pressure=pressure)})
    streams.log.clear()

    def on_del():
        G.deleted = True
    signaller = StubCondition()
    current = Opaque('expectation')     # what the harness knows about the loop-head expectation
    current.ev = current.ct = None

    async def wait_for(aw, timeout):
        vc.ensure('frame_streams', not G.deleted)           # no queue read after the stream was removed
        t0 = clock.now
        G.last_wait = Opaque('wait', t0=t0, timeout=timeout)
        await suspend('wait_for(backlog.get())')
        k = vc.nondet(3, 'wait_for outcome: item / timeout / cancelled')
        if k == 0:
            vc.assume(vc_len(G.content) >= 1, 'an item was available')
            vc.assume(timeout > 0, 'asyncio.wait_for(<fresh coroutine>, timeout <= 0) cancels the getter before its first step: '
                                   'it never returns an item, however full the queue is')
            return take_head()
        if k == 1:
            vc.assume(clock.now >= t0 + timeout, 'wait_for: TimeoutError not before the timeout')
            vc.canary('canary.queue_empty_when_timeout_fires', vc_len(G.content) == 0)
            G.exit_kind = 'idle-timeout'
            G.timeout_fired_at = clock.now
            G.timed_out = Opaque('timeout', hopeless=(timeout <= 0), pending=(vc_len(G.content) > 0))
            G.took_after_timeout = False
            raise asyncio.TimeoutError()
        G.exit_kind = 'cancelled'
        raise asyncio.CancelledError()

    async def processor(*, raw_event, stream_pressure, resource_indexed, operator_indexed, consistency_time):
        vc.emit('processor', raw_event)
        # Q2: the event handed over is the one just taken, and nothing is being processed meanwhile
        vc.ensure('got_item_processed_next', raw_event is G.event and G.inflight is not None and not G.processor_running)
        vc.ensure('got_item_processed_next', stream_pressure is pressure)
        # the pressure the processor sees says exactly whether more events are pending: set -> its sleeps are
        # skipped in favour of the newer event (never with nothing pending: the handling would be skipped for good,
        # C03); clear -> it may sleep, and only a NEW event interrupts that
        if mode == 'pressure':
            vc.ensure('pressure_tells_pending_events', Iff(pressure.is_set(), vc_len(G.content) > 0))
        # Q4: the processor sees the current expectation
        ver = raw_event['object']['metadata']['resourceVersion']
        matches = And(current.ev is not None, Eq(ver, current.ev) if ver is not None and current.ev is not None else False)
        want_ct_none = Or(current.ct is None, matches)
        vc.ensure('processor_gets_current_expectation', Iff(consistency_time is None, want_ct_none))
        if consistency_time is not None and current.ct is not None:
            vc.ensure('processor_gets_current_expectation', Eq(consistency_time, current.ct))
        G.matches = matches
        G.processor_running = True
        if sym:
            G.processed = G.processed + [G.inflight]
        else:
            G.processed = G.processed + [G.inflight]
        G.inflight = None
        await suspend('processor')
        G.processor_running = False
        if vc.nondet(2, 'processor raises?') == 1:
            G.exit_kind = 'exception'
            raise RuntimeError('processing failed')
        G.returned_version = _version_of(vc, 'patched.version')
        G.returned_at = clock.now
        return G.returned_version

    # ---- loop contract
    state = Opaque('loop')
    state.first = True

    def havoc(loc):
        # an arbitrary loop-head state: arbitrary ghost sequences (constrained by the invariant below),
        # arbitrary expectation, arbitrary clock
        if sym:
            G.delivered = SSeq(eng.draw('delivered', IntSeq), 'int')
            G.processed = SSeq(eng.draw('processed', IntSeq), 'int')
            G.content = SSeq(eng.draw('content', IntSeq), 'int')
        else:
            G.delivered, G.processed, G.content = (list(eng.draw(n, IntSeq)) for n in ('delivered', 'processed', 'content'))
        clock.advance(0)
        pressure.havoc()
        armed = vc.nondet(2, 'expectation armed?') == 1
        ev = vc.str('expected_version') if armed else None
        ct = vc.real('consistency_time') if armed else None
        current.ev, current.ct = ev, ct
        G.susp_since_empty_check = True
        G.timed_out = None
        return {'consistency_time': ct, 'expected_version': ev, 'shouldstop': False}

    def invariant(loc):
        ev, ct = loc.get('expected_version'), loc.get('consistency_time')
        inv = And(order_ok(), key in streams and streams[key].backlog is backlog, (ev is None) == (ct is None),
                  G.inflight is None, not G.deleted, loc.get('shouldstop') is False,
                  Implies(vc_len(G.content) > 0, pressure.is_set()) if mode == 'pressure' else True)   # pending events keep the pressure up
        if mode == 'pressure' and not state.first and getattr(G, 'timed_out', None) is not None:
            # a wait that could not succeed (time-out <= 0: settings.queueing.idle_timeout = 0 with no consistency deadline
            # ahead) on a filled backlog must not simply be repeated -- the next one cannot succeed either, and the object's
            # events would never be processed (C01 "none is dropped", C03): the pending event is taken some other way
            vc.ensure('hopeless_wait_not_repeated', Implies(And(G.timed_out.hopeless, G.timed_out.pending), G.took_after_timeout))
        if not state.first:
            # ---- back edge: the bookkeeping of this iteration (Q4)
            if G.exit_kind is None and getattr(G, 'event', None) is not None and hasattr(G, 'returned_version'):
                v = G.returned_version
                arm = And(v is not None, cons_timeout != 0)
                if v is not None:
                    vc.ensure('consistency_bookkeeping',
                              Implies(cons_timeout != 0, And(ev is not None and ct is not None,
                                                             Eq(ev, v) if ev is not None else False,
                                                             Eq(ct, G.returned_at + cons_timeout) if ct is not None else False)))
                # not re-armed: the expectation is the loop-head one, cleared iff the event carried that version
                keep = Not(arm)
                cleared = G.matches
                vc.ensure('consistency_bookkeeping',
                          Implies(keep, Iff(ev is None, Or(current.ev is None, cleared))))
                if ev is not None and current.ev is not None:
                    vc.ensure('consistency_bookkeeping', Implies(And(keep, Not(cleared)), And(Eq(ev, current.ev), Eq(ct, current.ct))))
        state.first = False
        return inv
    ld = vc.load('kopf._core.reactor.queueing', 'worker', stubs={
        'asyncio.get_running_loop': lambda: StubLoop(clock),
        'asyncio.wait_for': wait_for,
        'logger': NullLogger(),
    }, loops={1: LoopSpec('while not shouldstop', invariant=invariant, havoc=havoc)})

    # the deletion hook: the heart of C01
    orig_del = Streams.__delitem__

    def checked_del(self, k):
        if k == key and not G.deleted:
            idle = G.exit_kind == 'idle-timeout'
            vc.ensure('idle_exit_leaves_no_event', Implies(idle, vc_len(G.content) == 0))
            vc.ensure('idle_exit_leaves_no_event', Implies(idle, not G.susp_since_empty_check))
            if idle:
                # Q4: the worker (and with it the memory of the expectation) does not retire before the deadline
                vc.ensure('no_retire_before_consistency_deadline',
                          True if current.ct is None else clock.now >= current.ct)
            vc.canary('canary.never_idle_exit', not idle)
            G.deleted = True
        orig_del(self, k)
    streams.__class__ = type('CheckedStreams', (Streams,), {'__delitem__': checked_del})

    outcome = 'return'
    try:
        vc.drive(ld.fn(signaller=signaller, settings=settings, processor=processor, streams=streams, key=key,
                       resource_indexed=Opaque('resource_indexed'), operator_indexed=Opaque('operator_indexed')),
                 on_suspend=watcher_may_append)
    except (RuntimeError, asyncio.CancelledError) as e:
        outcome = 'raise ' + type(e).__name__
    if mode == 'order':
        # a failed processor is an unrecoverable error: the worker ends WITH that error (the watcher escalates a failed worker
        # and the operator stops, C20/C12 "never swallowed"); a cancellation of the worker is not swallowed either
        vc.ensure('processor_failure_escalates', (outcome == 'raise RuntimeError') == (G.exit_kind == 'exception'))
        vc.ensure('cancellation_propagates', (outcome == 'raise CancelledError') == (G.exit_kind == 'cancelled'))
    # Q3: frame
    vc.ensure('frame_streams', streams.log == [('del', key)] and G.gets_after_del == 0)
    vc.ensure('frame_streams', signaller.entered == 1 and ('notify_all',) in vc.trace)
    # every exit path: whatever was got was processed (EOS aside)
    vc.ensure('got_item_processed_next', G.inflight is None or G.exit_kind == 'cancelled')
    vc.ensure('order_invariant', Implies(G.exit_kind == 'idle-timeout', Eq(vc_len(G.content), 0)))
    return (outcome, G.exit_kind)


REGISTRY['Q1'].doc = (_q1.__doc__ or '').strip()


# ================================================================================================ watcher
@harness('Q5', targets=['kopf._core.reactor.queueing.watcher', 'kopf._core.reactor.queueing.get_uid'],
         props=['C01', 'C20', 'C03', 'C13', 'C07', 'C10', 'C19', 'C02', 'C14', 'C11', 'C05', 'C06', 'C08', 'C09', 'C12', 'C17'],
         prop_clauses={'C13': ['pressure_follows_put', 'one_put_per_event', 'put_into_live_stream', 'create_path_insert_put_spawn', 'spawn_only_when_absent', 'keyed_by_uid'], 'C07': ['pressure_follows_put', 'keyed_by_uid', 'spawn_only_when_absent'], 'C10': ['pressure_follows_put', 'one_put_per_event', 'put_into_live_stream', 'create_path_insert_put_spawn'], 'C19': ['one_put_per_event', 'put_into_live_stream', 'no_put_for_bookmarks', 'keyed_by_uid', 'create_path_insert_put_spawn'], 'C02': ['pressure_follows_put', 'one_put_per_event', 'create_path_insert_put_spawn', 'spawn_only_when_absent', 'keyed_by_uid'], 'C14': ['pressure_follows_put', 'one_put_per_event', 'put_into_live_stream', 'create_path_insert_put_spawn', 'spawn_only_when_absent', 'keyed_by_uid'], 'C11': ['pressure_follows_put'], 'C05': ['keyed_by_uid', 'spawn_only_when_absent', 'create_path_insert_put_spawn'], 'C06': ['one_put_per_event', 'put_into_live_stream', 'create_path_insert_put_spawn'], 'C08': ['one_put_per_event', 'put_into_live_stream', 'spawn_only_when_absent', 'keyed_by_uid'], 'C09': ['one_put_per_event', 'put_into_live_stream', 'create_path_insert_put_spawn', 'spawn_only_when_absent', 'keyed_by_uid', 'pressure_follows_put'], 'C12': ['keyed_by_uid'], 'C17': ['one_put_per_event', 'put_into_live_stream', 'create_path_insert_put_spawn', 'spawn_only_when_absent', 'keyed_by_uid']},
         clauses=['one_put_per_event', 'no_put_for_bookmarks', 'put_into_live_stream', 'create_path_insert_put_spawn',
                  'spawn_only_when_absent', 'keyed_by_uid', 'worker_failure_escalates', 'drains_and_closes_on_exit',
                  'pressure_follows_put'],
         canaries=['canary.never_spawns', 'canary.always_puts'],
         trusted=['asyncio.Queue.put on an unbounded queue does not suspend', 'aiotasks.Scheduler.spawn by contract S2 (may suspend; starts the coroutine later)',
                  'watching.infinite_watch yields events/bookmarks (W2)', 'asyncio.create_task/shield'])
def Q5(vc):
    """
    queueing.watcher, one arbitrary iteration of its `async for` from an arbitrary multiplexer state, for the key
    of the event at hand.  `streams` (a local of the function) is replaced at the loop head by a dictionary
    look-alike whose content for that key is symbolic (present / absent); at every suspension point the worker
    of that key may retire (present -> absent: it deletes its own entry, Q3), never the reverse.
    Q5  every non-bookmark event is put exactly once, unchanged, into the backlog registered under
        (resource, uid-of-the-event); bookmarks of both kinds are never put;
    Q6  the queue an event is put into is still registered in `streams` at the moment of the put (no suspension
        between lookup and put: otherwise the idle worker could retire in between and the event would be lost);
        a worker is spawned iff the key was absent, after the new stream was inserted and the event was put, and it is
        given that same streams dict and key (so `alive[k] == (k in streams)`);
    Q8  (C20) a failed worker cancels the watcher, which re-raises as RuntimeError after draining and closing.
    """
    sym = not vc.concrete
    resource = 'RES'
    state = Opaque('mux')
    state.present = None       # symbolic: is the key of the current event registered?
    state.stream = None
    state.detached = []        # stream objects that were removed by their worker
    state.puts = []            # (stream, item)
    state.sets = []
    state.spawns = []
    state.events = []
    state.failed_worker = False
    state.unsignalled = []     # streams that got an item put and no pressure.set() check yet

    class Queue:
        def __init__(self, owner=None):
            self.owner = owner

        def empty(self):                    # whether the worker has taken everything so far: unknown to the watcher
            return bool(vc.bool('backlog.empty()'))

        def qsize(self):
            n = vc.int('backlog.qsize()')
            vc.assume(n >= 0, 'a size')
            return n

        async def put(self, item):          # unbounded queue: never suspends (trusted)
            live = state.stream is not None and state.stream.backlog is self and state.present is not False
            vc.ensure('put_into_live_stream', And(live, state.present if state.present is not None else False))
            state.puts.append((self, item))
            state.unsignalled.append(state.stream)
            vc.emit('put', item)

    class Event(StubEvent):
        pass

    class SymStreams:
        """streams: dict[ObjectRef, Stream] restricted to the key of the event at hand."""
        def __getitem__(self, k):
            vc.ensure('keyed_by_uid', k[0] == resource and k[1] is state.uid)
            if state.present:
                return state.stream
            raise KeyError(k)

        def __setitem__(self, k, v):
            vc.ensure('keyed_by_uid', k[0] == resource and k[1] is state.uid)
            vc.ensure('create_path_insert_put_spawn', Not(state.present))    # only inserts keys that are absent
            state.present = True
            state.stream = v
            state.sets.append(v)
            vc.emit('streams.set')

        def __bool__(self):
            return True

        def values(self):
            return []

        def keys(self):
            return []

    streams = SymStreams()

    def signalled():
        # every put is accompanied by pressure.set() on the same stream within the same atomic segment: the worker's
        # sleeps (batch window, consistency wait) are interrupted by a new event, and its `pressure set <=> events
        # pending` bookkeeping (Q1.pressure_tells_pending_events) relies on it
        for st_ in state.unsignalled:
            vc.ensure('pressure_follows_put', st_ is not None and st_.pressure.is_set())
        state.unsignalled.clear()

    def on_suspend(site):
        signalled()
        # the worker of this key may retire here (it deletes its own entry); nobody else inserts
        if state.present is not None and state.present is not False and state.stream is not None:
            still = vc.bool('worker still alive')
            if sym:
                state.present = And(state.present, still)
            else:
                state.present = bool(state.present) and bool(still)
        if state.in_loop and not state.failed_worker and vc.nondet(2, 'a worker fails here?') == 1:
            state.failed_worker = True
            err = ValueError('worker failed')
            state.worker_exc = err
            state.handler(err)                   # the scheduler calls the watcher's exception handler
            # Q8: the first failure of a worker cancels the watcher at once (that is the only way to wake it up)
            vc.ensure('worker_failure_escalates', state.task.cancelled_count >= 1)
            return asyncio.CancelledError() if state.task.cancelled_count else None
        # while draining / closing on the way out the watcher may be cancelled AGAIN (a second stop signal, another
        # worker failing meanwhile): "ensure the depletion is done even if the watcher is double-cancelled"
        if site in ('shield', 'await task') and state.recancelled < 2 and vc.nondet(2, 'the watcher is cancelled again while draining?') == 1:
            state.recancelled += 1
            return asyncio.CancelledError()
        return None

    def _start_later(job):
        # S2: the scheduler STARTS a job later (with a saturated worker limit: any number of the watcher's iterations
        # later).  A job handed over as a coroutine object is bound now.  A job handed over as a FACTORY (a callable the
        # scheduler calls when the job really starts) is called then: whatever it reads from the watcher's loop-carried
        # locals through its closure has moved on by then -- the cells of locals that the loop assigns hold a later
        # iteration's values when the factory runs (seeded C01-10: `coro=lambda: worker(..., key=key)`).
        if hasattr(job, 'kw') or not callable(job):
            return job
        names = _loop_assigned_locals()
        cells = [(c, c.cell_contents) for n, c in zip(job.__code__.co_freevars, job.__closure__ or ()) if n in names]
        for c, v in cells:
            c.cell_contents = (tuple(Opaque(f'a later iteration: {i}') for i, _ in enumerate(v)) if isinstance(v, tuple)
                               else Opaque('a later iteration'))
        try:
            return job()
        finally:
            for c, v in cells:
                c.cell_contents = v

    def _loop_assigned_locals():
        import ast, inspect, textwrap
        mod = vc.module('kopf._core.reactor.queueing') if hasattr(vc, 'module') else queueing
        tree = ast.parse(textwrap.dedent(inspect.getsource(mod.watcher)))
        names = set()
        for loop in ast.walk(tree):
            if isinstance(loop, (ast.AsyncFor, ast.For, ast.While)):
                for n in ast.walk(loop):
                    if isinstance(n, ast.Name) and isinstance(n.ctx, ast.Store):
                        names.add(n.id)
        return names

    class Scheduler:
        def __init__(self, limit=None, exception_handler=None):
            state.handler = exception_handler
            state.limit = limit
            state.closed = False

        async def spawn(self, coro, name=None):
            coro = _start_later(coro)
            vc.emit('spawn', coro)
            state.spawns.append(coro)
            await suspend('scheduler.spawn')

        def close(self):
            return Opaque('close-coro', kind='close')

        def empty(self):
            return True

    def finish(task):
        vc.emit('awaited', task.coro)
        if getattr(task.coro, 'kind', '') == 'close':
            state.closed = True
        task._done = True

    class Task:
        def __init__(self, coro=None):
            self.coro, self.cancelled_count, self._done = coro, 0, False

        def cancel(self):
            self.cancelled_count += 1

        def done(self):
            return self._done

        def __await__(self):
            # awaited directly, not through asyncio.shield: a cancellation of the awaiting task is passed on to this task
            try:
                yield from suspend('await task').__await__()
            except asyncio.CancelledError:
                self.cancelled_count += 1
                self._done = True               # it ends -- cancelled, not completed
                raise
            finish(self)
    state.task = Task()
    state.recancelled = 0
    created = []

    def create_task(coro, name=None):
        t = Task(coro)
        created.append(t)
        return t

    async def shield(task):
        await suspend('shield')         # a cancellation delivered here ends the WAITING only: the shielded task goes on
        finish(task)

    async def asleep(delay=0):
        await suspend('asyncio.sleep')

    def worker(**kw):
        return Opaque('worker-coro', kw=kw)

    def _wait_for_depletion(**kw):
        return Opaque('depletion-coro', kw=kw, kind='depletion')

    async def infinite_watch(**kw):
        if False:
            yield None
    stream_obj = Opaque('watch-stream')
    uid = vc.str('uid')
    state.uid = uid
    state.in_loop = False

    def element(loc, iterable):
        vc.ensure('keyed_by_uid', iterable is stream_obj)
        state.in_loop = True
        k = vc.nondet(4, 'stream item: end / LISTED / BOOKMARK / object event')
        if k == 0:
            state.in_loop = False
            return _STOP
        if k == 1:
            ev = queueing.watching.Bookmark.LISTED
        elif k == 2:
            ev = {'type': 'BOOKMARK', 'object': {'metadata': {'resourceVersion': '123'}}}
        else:
            ev = {'type': vc.fin('event.type', ['ADDED', 'MODIFIED', 'DELETED', None]),
                  'object': {'kind': 'K', 'apiVersion': 'v1', 'metadata': {'uid': uid, 'name': 'n'}}}
        state.events.append((k, ev))
        return ev

    def havoc(loc):
        # arbitrary multiplexer state for this key
        if vc.nondet(2, 'key registered?') == 1:
            state.present = True
            state.stream = queueing.Stream(backlog=Queue(), pressure=Event('pressure'))
        else:
            state.present = False
            state.stream = None
        state.puts.clear(); state.sets.clear(); state.spawns.clear(); state.events.clear(); state.unsignalled.clear()
        state.was_present = state.present
        # `operator_indexed` is loop-carried: once the operator's readiness has been seen the local is latched to None for the rest
        # of the stream ("NOT when the readiness is already achieved once") -- an arbitrary iteration sees the given set or None
        given = loc.get('operator_indexed')
        latched = given is not None and vc.nondet(2, 'operator_indexed: still the given set / latched to None by an earlier iteration') == 1
        return {'streams': streams, 'operator_indexed': None if latched else given}
    def invariant(loc):
        return loc.get('streams') is streams or not state.in_loop

    def at_backedge(loc):
        # ---- back edge: what this iteration did for its event
        (kind, ev), = state.events[-1:]
        signalled()
        vc.canary('canary.always_puts', len(state.puts) == 1)
        if kind in (1, 2):
            vc.ensure('no_put_for_bookmarks', not state.puts and not state.spawns and not state.sets)
        else:
            vc.ensure('one_put_per_event', len(state.puts) == 1 and state.puts[0][1] is ev)
            if state.was_present:
                vc.ensure('spawn_only_when_absent', not state.spawns and not state.sets)
            else:
                vc.ensure('create_path_insert_put_spawn', len(state.sets) == 1 and len(state.spawns) == 1)
                if len(state.sets) == 1 and len(state.spawns) == 1:
                    kw = state.spawns[0].kw
                    names = [e[0] for e in vc.trace]
                    i_set, i_put, i_spawn = (len(names) - 1 - names[::-1].index(n) for n in ('streams.set', 'put', 'spawn'))
                    vc.ensure('create_path_insert_put_spawn', i_set < i_put < i_spawn)
                    vc.ensure('create_path_insert_put_spawn', state.puts[0][0] is state.sets[0].backlog)
                    vc.ensure('create_path_insert_put_spawn', kw['streams'] is streams and kw['key'][1] is uid
                              and kw['key'][0] == resource and kw['processor'] is processor and kw['settings'] is settings)
            vc.canary('canary.never_spawns', not state.spawns)
    processor = Opaque('processor')
    settings = Opaque('settings', queueing=Opaque('queueing', worker_limit=vc.opt('worker_limit', vc.int)))
    ld = vc.load('kopf._core.reactor.queueing', 'watcher', stubs={
        'asyncio.current_task': lambda: state.task,
        'asyncio.Condition': lambda: Opaque('signaller'),
        'asyncio.Queue': Queue,
        'asyncio.Event': lambda: Event('pressure', state=False),
        'asyncio.create_task': create_task,
        'asyncio.shield': shield,
        'asyncio.sleep': asleep,
        'aiotasks.Scheduler': Scheduler,
        'watching.infinite_watch': lambda **kw: stream_obj,
        'worker': worker,
        '_wait_for_depletion': _wait_for_depletion,
    }, loops={1: LoopSpec('async for raw_event in stream', invariant=invariant, havoc=havoc, element=element,
                          at_backedge=at_backedge, rebinds=('streams',))})
    outcome = 'return'
    try:
        vc.drive(ld.fn(namespace=None, settings=settings, resource=resource, processor=processor), on_suspend=on_suspend)
    except RuntimeError as e:
        outcome = 'RuntimeError'
        cause = e.__cause__
    except asyncio.CancelledError:
        outcome = 'CancelledError'
    except Exception as e:          # the worker's own exception leaving the watcher un-wrapped (anything else: not ours)
        if e is not getattr(state, 'worker_exc', None):
            raise
        outcome = type(e).__name__
        cause = e.__cause__
    # ---- on every exit: drained, then closed (C01 shutdown / C20)
    awaited = [e[1] for e in vc.trace if e[0] == 'awaited']
    vc.ensure('drains_and_closes_on_exit', len(created) == 2 and all(t._done for t in created))
    # ... and neither the draining nor the closing is cut short by a repeated cancellation of the watcher itself
    vc.ensure('drains_and_closes_on_exit', all(t.cancelled_count == 0 for t in created))
    vc.ensure('drains_and_closes_on_exit', len(awaited) >= 2 and getattr(awaited[0], 'kind', '') == 'depletion'
              and state.closed)
    # ---- Q8
    # ... as a RuntimeError of its own with the worker's error as the cause: the callers (observation.resource_observer /
    # namespace_observer) treat certain API errors of the WATCH itself as tolerable ("not enough permissions to watch");
    # a failed worker must never be mistaken for that, so its error does not leave the watcher un-wrapped
    vc.ensure('worker_failure_escalates', Implies(state.failed_worker, outcome == 'RuntimeError'))
    if outcome == 'RuntimeError':
        vc.ensure('worker_failure_escalates', state.failed_worker and cause is state.worker_exc)
    return (outcome,)


# ================================================================================================ scheduler
@harness('S1', targets=['kopf._cogs.aiokits.aiotasks.Scheduler._task_spawner', 'kopf._cogs.aiokits.aiotasks.Scheduler._can_spawn'],
         props=['C01', 'C09', 'C12', 'C13', 'C17', 'C19', 'C20'],
         clauses=['limit_respected', 'spawns_while_capacity', 'job_becomes_owned_task', 'fifo', 'blocks_until_it_can_spawn'],
         canaries=['canary.never_spawns'],
         trusted=['asyncio.Condition.wait_for(pred) returns only when pred() holds, holding the lock',
                  'asyncio.Queue.get_nowait pops the head or raises QueueEmpty', 'asyncio.create_task'])
def S1(vc):
    """
    Scheduler._task_spawner, one arbitrary round from an arbitrary state with  limit is None or |running| <= limit:
    the pool never exceeds the limit, jobs are started in FIFO order, each started job becomes a task that is
    owned (in `_running_tasks`, done-callback attached, cancelled at once iff the scheduler is closed), and the
    spawner goes back to waiting only when the pending queue is empty or the pool is full (so nobody waits while
    capacity is free; the other half -- the cleaner notifies the condition whenever a task leaves the pool -- is S2).
    """
    from kopf._cogs.aiokits import aiotasks
    limit = vc.opt('limit', vc.int)
    if limit is not None:
        vc.assume(limit >= 0, 'worker_limit is a count')
    st = Opaque('scheduler-state')
    st.running = vc.int('running0'); st.pending = vc.int('pending0')
    vc.assume(And(st.running == 0, st.pending >= 0), 'Scheduler.__init__: the pool starts empty; only the spawner adds to it')
    st.closed = vc.bool('closed0')
    st.created, st.popped = [], []

    class Running:
        def vc_len(self): return st.running
        def __bool__(self): return bool(st.running > 0)
        def add(self, task):
            vc.ensure('job_becomes_owned_task', task is st.created[-1])
            st.running = st.running + 1
            vc.ensure('limit_respected', True if limit is None else st.running <= limit)
            st.added = getattr(st, 'added', 0) + 1

    class Pending:
        def empty(self): return st.pending == 0
        def get_nowait(self):
            if st.pending == 0:
                raise asyncio.QueueEmpty()
            st.pending = st.pending - 1
            job = aiotasks.SchedulerJob(coro=Opaque(f'coro#{len(st.popped)}'), name='n')
            st.popped.append(job)
            return job

    class Task:
        def __init__(self, coro): self.coro, self.cancelled, self.callbacks = coro, 0, []
        def add_done_callback(self, cb): self.callbacks.append(cb)
        def cancel(self): self.cancelled += 1

    def create_task(coro, name=None):
        vc.ensure('fifo', len(st.popped) == len(st.created) + 1 and coro is st.popped[-1].coro)
        t = Task(coro); st.created.append(t); return t

    def havoc_shared():
        # rely at a suspension: spawn() may enqueue jobs, finished tasks leave the pool, close() may close
        p, r = vc.int('pending'), vc.int('running')
        vc.assume(And(p >= st.pending, r >= 0, r <= st.running), 'others only add jobs / remove finished tasks')
        st.pending, st.running = p, r
        c = vc.bool('closed')
        vc.assume(Implies(st.closed, c), 'closed stays closed')
        st.closed = c

    class Condition:
        async def __aenter__(self):
            await suspend('condition.acquire'); return self
        async def __aexit__(self, *a): return False
        async def wait_for(self, pred):
            st.waited = True
            await suspend('condition.wait_for')
            vc.assume(pred(), 'Condition.wait_for returns when the predicate holds')
            return True

    ld_can = vc.load('kopf._cogs.aiokits.aiotasks', 'Scheduler._can_spawn')

    class Self:
        _limit = limit
        _condition = Condition()
        _pending_coros = Pending()
        _running_tasks = Running()
        @property
        def _closed(self): return st.closed
        def _can_spawn(self): return ld_can.fn(self)
        def _task_done_callback(self, task): pass
    me = Self()

    def inv(loc):
        return And(st.pending >= 0, st.running >= 0, True if limit is None else st.running <= limit)

    def havoc(loc):
        st.running = vc.int('running'); st.pending = vc.int('pending'); st.closed = vc.bool('closed')
        st.created.clear(); st.popped.clear()
        return {}

    def outer_havoc(loc):
        st.waited = False
        return havoc(loc)

    def at_outer_back(loc):
        # every round of the spawner blocks in Condition.wait_for(can-spawn): acquiring a free asyncio lock does not
        # yield to the event loop, so a round without that wait would be a busy loop freezing the whole operator
        vc.ensure('blocks_until_it_can_spawn', st.waited)

    def on_inner_exit(loc):
        # the spawner is about to wait again: only when nothing is pending or the pool is full
        vc.ensure('spawns_while_capacity', Or(st.pending == 0, False if limit is None else st.running >= limit))

    def at_inner_back(loc):
        vc.ensure('job_becomes_owned_task', len(st.created) == 1 and len(st.popped) == 1
                  and st.created[0].callbacks == [me._task_done_callback] and getattr(st, 'added', 0) == 1)
        vc.ensure('job_becomes_owned_task', Iff(st.created[0].cancelled == 1, st.closed) if st.created else False)
        vc.canary('canary.never_spawns', False)

    def inner_havoc(loc):
        havoc(loc); st.added = 0
        return {}
    ld = vc.load('kopf._cogs.aiokits.aiotasks', 'Scheduler._task_spawner', stubs={'asyncio.create_task': create_task},
                 loops={1: LoopSpec('while True', invariant=inv, havoc=outer_havoc, at_backedge=at_outer_back),
                        2: LoopSpec('while self._can_spawn()', invariant=inv, havoc=inner_havoc, at_backedge=at_inner_back,
                                    on_exit=on_inner_exit)})
    vc.drive(ld.fn(me), on_suspend=lambda site: havoc_shared())
    return ('unreachable: the spawner never returns',)


@harness('S2', targets=['kopf._cogs.aiokits.aiotasks.Scheduler._task_done_callback', 'kopf._cogs.aiokits.aiotasks.Scheduler._task_cleaner',
                        'kopf._cogs.aiokits.aiotasks.Scheduler.spawn'],
         props=['C01', 'C20', 'C03', 'C09', 'C12', 'C13', 'C17', 'C19'],
         clauses=['failure_reaches_handler', 'done_task_leaves_pool', 'cleaner_notifies_spawner', 'closed_rejects', 'spawn_enqueues_and_notifies'],
         canaries=['canary.handler_always_called'],
         trusted=['asyncio.Task.exception() raises CancelledError for cancelled tasks', 'asyncio.Condition', 'asyncio.Queue'])
def S2(vc):
    """
    The rest of the Scheduler protocol: a finished task leaves the pool at once and its non-cancellation error is
    passed to the owner's exception handler (that is how a failed worker stops the watcher, C20); the cleaner
    awaits the task and then notifies the condition while holding it (so the spawner re-evaluates capacity);
    spawn() on a closed scheduler closes the coroutine un-run and raises, otherwise enqueues one job and notifies.
    """
    from kopf._cogs.aiokits import aiotasks
    which = vc.nondet(3, 'function')
    log = []

    class Running:
        def discard(self, t): log.append(('discard', t))

    class CleanQ:
        def put_nowait(self, t): log.append(('clean.put', t))
        async def get(self):
            await suspend('cleaning_queue.get'); return the_task

    class Condition:
        held = False
        async def __aenter__(self):
            await suspend('acquire'); Condition.held = True; return self
        async def __aexit__(self, *a):
            Condition.held = False; return False
        def notify_all(self): log.append(('notify_all', Condition.held))

    class PendingQ:
        async def put(self, job): log.append(('pending.put', job))
    handler_calls = []
    has_handler = vc.nondet(2, 'handler set?') == 1

    class Self:
        _running_tasks = Running(); _cleaning_queue = CleanQ(); _condition = Condition(); _pending_coros = PendingQ()
        _exception_handler = (lambda self, exc: handler_calls.append(exc)) if has_handler else None
        _closed = False
    me = Self()
    if has_handler:
        me._exception_handler = lambda exc: handler_calls.append(exc)
    kind = vc.fin('task outcome', ['ok', 'cancelled', 'error', 'base-error'])
    err = {'error': ValueError('boom'), 'base-error': KeyboardInterrupt()}

    class Task:
        def exception(self):
            k = resolve(kind)
            if k == 'cancelled':
                raise asyncio.CancelledError()
            return err.get(k)
        def __await__(self):
            yield from suspend('await task').__await__()
            k = resolve(kind)
            if k == 'cancelled':
                raise asyncio.CancelledError()
            if k in err:
                raise err[k]
            return None
    the_task = Task()
    if which == 0:
        ld = vc.load('kopf._cogs.aiokits.aiotasks', 'Scheduler._task_done_callback')
        ld.fn(me, the_task)
        k = resolve(kind)
        vc.ensure('done_task_leaves_pool', ('discard', the_task) in log and ('clean.put', the_task) in log)
        vc.ensure('failure_reaches_handler', (len(handler_calls) == 1 and handler_calls[0] is err.get(k)) if (k in err and has_handler)
                  else not handler_calls)
        vc.canary('canary.handler_always_called', len(handler_calls) == 1)
        return ('callback', k, len(handler_calls))
    if which == 1:
        def at_back(loc):
            i_d = log.index(('discard', the_task)) if ('discard', the_task) in log else -1
            vc.ensure('cleaner_notifies_spawner', i_d >= 0 and ('notify_all', True) in log[i_d:])
            vc.canary('canary.handler_always_called', False)
        ld = vc.load('kopf._cogs.aiokits.aiotasks', 'Scheduler._task_cleaner',
                     loops={1: LoopSpec('while True', havoc=lambda loc: (log.clear(), {})[1], at_backedge=at_back)})
        vc.drive(ld.fn(me))
        return ('cleaner',)
    closed = vc.bool('closed')
    me._closed = closed
    coro = Opaque('coro')
    cancelled = []

    async def cancel_coro(coro, name=None):
        cancelled.append(coro)

    async def asleep(d=0):
        await suspend('sleep')
    ld = vc.load('kopf._cogs.aiokits.aiotasks', 'Scheduler.spawn', stubs={'cancel_coro': cancel_coro, 'asyncio.sleep': asleep})
    raised = None
    try:
        vc.drive(ld.fn(me, coro, name='n'))
    except RuntimeError as e:
        raised = e
    vc.ensure('closed_rejects', Iff(raised is not None, closed))
    vc.ensure('closed_rejects', Iff(cancelled == [coro], closed))
    puts = [e for e in log if e[0] == 'pending.put']
    vc.ensure('spawn_enqueues_and_notifies', Iff(len(puts) == 1 and puts[0][1].coro is coro if puts else False, Not(closed)))
    vc.ensure('spawn_enqueues_and_notifies', Implies(Not(closed), ('notify_all', True) in log))
    vc.canary('canary.handler_always_called', raised is None)
    return ('spawn', raised is not None)


@harness('Q9', targets='kopf._core.reactor.queueing._wait_for_depletion', props=['C01', 'C09', 'C19', 'C20'],
         clauses=['eos_to_every_stream', 'waits_for_depletion_up_to_exit_timeout'], canaries=['canary.no_eos'],
         trusted=['asyncio.wait_for', 'asyncio.Condition.wait_for', 'asyncio.Queue.put (unbounded: no suspension)'])
def Q9(vc):
    """Shutdown drains: every live stream receives EOS as one more (last) item, then the routine waits for
    `not streams or scheduler.empty()` for at most settings.queueing.exit_timeout, and swallows only the time-out."""
    puts = []
    the_stream = Opaque('stream')
    the_stream.backlog = Opaque('backlog')

    async def put(item):
        puts.append(item)
    the_stream.backlog.put = put
    streams = Opaque('streams', truth=vc.bool('streams non-empty at the end'))
    streams.values = lambda: streams
    streams.keys = lambda: []
    sched_empty = vc.bool('scheduler.empty')
    scheduler = Opaque('scheduler'); scheduler.empty = lambda: sched_empty
    exit_timeout = vc.real('exit_timeout')
    settings = Opaque('settings', queueing=Opaque('queueing', exit_timeout=exit_timeout))
    waits = []

    class Signaller:
        async def __aenter__(self):
            await suspend('acquire'); return self
        async def __aexit__(self, *a): return False
        def wait_for(self, pred):
            return Opaque('cond.wait_for', pred=pred)

    async def wait_for(aw, timeout):
        waits.append((aw, timeout))
        await suspend('wait_for')
        if vc.nondet(2, 'depleted in time?') == 1:
            raise asyncio.TimeoutError()
        return True

    def element(loc, iterable):
        vc.ensure('eos_to_every_stream', iterable is streams)
        return _STOP if vc.nondet(2, 'streams exhausted?') == 0 else the_stream

    def at_back(loc):
        vc.ensure('eos_to_every_stream', puts == [queueing.EOS.token])
        vc.canary('canary.no_eos', not puts)
    ld = vc.load('kopf._core.reactor.queueing', '_wait_for_depletion', stubs={'asyncio.wait_for': wait_for, 'logger': NullLogger()},
                 loops={1: LoopSpec('for stream in streams.values()', element=element, at_backedge=at_back,
                                    havoc=lambda loc: (puts.clear(), {})[1])})
    vc.drive(ld.fn(signaller=Signaller(), scheduler=scheduler, settings=settings, streams=streams))
    vc.ensure('waits_for_depletion_up_to_exit_timeout', len(waits) == 1 and waits[0][1] is exit_timeout)
    if waits:
        pred = waits[0][0].pred
        # the predicate is exactly "not streams or scheduler.empty()"
        r = pred()
        vc.ensure('waits_for_depletion_up_to_exit_timeout', Iff(r, Or(Not(streams._truth), sched_empty)))
    return ('done', len(waits))


# ================================================================================================ get_uid
def _uid_piece_ok(p):
    if isinstance(p, str):
        return not p.startswith('/') and not p.endswith('/') and '//' not in p and p != ''
    return And(Not(p.startswith('/')), Not(p.endswith('/')), Not(p.contains('//')), p != '')


def _uid_spec_key(pieces):
    """the specification function of the fallback key: kind//apiVersion//name//namespace//creationTimestamp"""
    out = pieces[0]
    for p in pieces[1:]:
        out = out + '//' + p
    return out


@harness('Q6u', targets='kopf._core.reactor.queueing.get_uid', props=['C01', 'C05', 'C06', 'C07', 'C08', 'C09', 'C12', 'C13', 'C14', 'C17', 'C19'],
         clauses=['uid_when_present', 'fallback_total', 'fallback_key_is_the_spec_key', 'lemma_split', 'lemma_spec_key_injective',
                  'lemma_pieces_identify_fields'],
         canaries=['canary.always_same_key', 'canary.lemma_keys_always_equal'],
         assumes=['identifying fields of uid-less objects (kind, apiVersion, name, namespace, creationTimestamp) neither start nor end '
                  "with '/', contain no '//' and are not the placeholder '-' (Kubernetes names, kinds, versions and timestamps never are)"],
         trusted=[])
def Q6u(vc):
    """
    queueing.get_uid -- the key of the per-object stream (C01 "per-object": events of one object go to one worker,
    events of different objects never share a stream).  Function against a spec function:
      uid_when_present              metadata.uid, when there is one, IS the key (whatever else the object carries);
      fallback_total                without a uid (v1/ComponentStatus and the like) a key is still formed, no exception,
                                    with any of the five identifying fields absent / None / '';
      fallback_key_is_the_spec_key  that key == spec(kind, apiVersion, name, namespace, creationTimestamp)
                                    := p1//p2//p3//p4//p5 with p_i = the field, or '-' when it is missing;
      lemma_split, lemma_spec_key_injective   (one generic path, over the contracts only) for pieces without '//' that neither
                                    start nor end with '/':  spec(p) == spec(q)  <=>  p_i == q_i for all i -- by four
                                    applications of  a//r == b//t => a == b and r == t  (each discharged separately: word
                                    equations, cvc5) -- so two uid-less objects share a key iff their five fields agree;
      lemma_pieces_identify_fields  p_i == q_i  <=>  the fields agree (missing = missing), since no field is '-'.
    """
    sc = vc.nondet(3, 'scenario: uid present / fallback key / lemmas')
    ABSENT = object()
    NAMES = (('kind', 'o'), ('apiVersion', 'o'), ('name', 'm'), ('namespace', 'm'), ('creationTimestamp', 'm'))

    def event(with_uid):
        obj, meta, pieces = {}, {}, []
        # how a missing field looks: absent / None / '' for all of them, or rotating through the three (the code treats every
        # field on its own -- `s or '-'` per element --, so 4 looks x 2^5 presence patterns instead of 4^5 combinations)
        look = 0 if with_uid else vc.nondet(4, 'missing fields look: absent / None / empty / mixed')
        for i, (name, where) in enumerate(NAMES):
            present = vc.nondet(2, f'{name}: missing / string') == 1
            k = 3 if present else (look if look < 3 else i % 3)
            tgt = obj if where == 'o' else meta
            if k == 0:
                pieces.append('-')
            elif k == 1:
                tgt[name] = None
                pieces.append('-')
            elif k == 2:
                tgt[name] = ''
                pieces.append('-')
            else:
                f = vc.str(name)
                vc.assume(And(_uid_piece_ok(f), f != '-'), 'identifying fields (see assumes)')
                tgt[name] = f
                pieces.append(f)
        uid = None
        if with_uid:
            uid = vc.str('uid')
            meta['uid'] = uid
        obj['metadata'] = meta
        return {'type': 'MODIFIED', 'object': obj}, pieces, uid

    if sc == 0:
        ld = vc.load('kopf._core.reactor.queueing', 'get_uid')
        ev, _, uid = event(True)
        got = ld.fn(ev)
        vc.ensure('uid_when_present', Eq(got, uid))
        vc.canary('canary.always_same_key', Eq(got, 'x'))
        vc.canary('canary.lemma_keys_always_equal', False)
        return ('uid',)
    if sc == 1:
        ld = vc.load('kopf._core.reactor.queueing', 'get_uid')
        ev, pieces, _ = event(False)
        try:
            k = ld.fn(ev)
        except Exception:
            vc.ensure('fallback_total', False)
            raise
        vc.ensure('fallback_total', isinstance(k, (str, SStr)))
        vc.ensure('fallback_key_is_the_spec_key', Eq(k, _uid_spec_key(pieces)))
        vc.canary('canary.always_same_key', Eq(k, '-//-//-//-//-'))
        vc.canary('canary.lemma_keys_always_equal', False)
        return ('fallback',)
    # ---- lemmas over the spec function (no code involved)
    a, b_, r, t = vc.str('a'), vc.str('b'), vc.str('r'), vc.str('t')
    vc.assume(And(_uid_piece_ok(a), _uid_piece_ok(b_)), 'pieces')
    # the split lemma, generic in all four strings (valid => every instance of it is valid)
    vc.ensure('lemma_split', Implies(Eq(a + '//' + r, b_ + '//' + t), And(Eq(a, b_), Eq(r, t))), z3_ms=300)
    P = [vc.str(f'p{i}') for i in range(5)]
    Q = [vc.str(f'q{i}') for i in range(5)]
    for x in P + Q:
        vc.assume(_uid_piece_ok(x), 'pieces: fields satisfying the stated assumption, or the placeholder')
    S = [_uid_spec_key(P[i:]) for i in range(5)]
    T = [_uid_spec_key(Q[i:]) for i in range(5)]
    # its four instances  a := p_i, b := q_i, r := p_{i+1}//..//p_5, t := q_{i+1}//..//q_5  (substitution into the proved lemma)
    steps = [Implies(Eq(S[i], T[i]), And(Eq(P[i], Q[i]), Eq(S[i + 1], T[i + 1]))) for i in range(4)]
    all_eq = And(*[Eq(x, y) for x, y in zip(P, Q)])
    vc.ensure('lemma_spec_key_injective', Implies(And(*steps), Iff(Eq(S[0], T[0]), all_eq)), z3_ms=300)
    # pieces against fields: p = '-' if the field is missing else the field (which is not '-')
    miss_a, miss_b = vc.bool('a.missing'), vc.bool('b.missing')
    fa, fb = vc.str('a.field'), vc.str('b.field')
    vc.assume(And(fa != '-', fb != '-'), 'no field is the placeholder')
    pa, pb = If(miss_a, '-', fa), If(miss_b, '-', fb)
    agree = Or(And(miss_a, miss_b), And(Not(miss_a), Not(miss_b), Eq(fa, fb)))
    vc.ensure('lemma_pieces_identify_fields', Iff(Eq(pa, pb), agree))
    vc.canary('canary.always_same_key', False)
    vc.canary('canary.lemma_keys_always_equal', Eq(S[0], T[0]))
    return ('lemmas',)
