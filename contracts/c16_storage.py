"""
Contracts for C16 "persistence storages round-trip, isolate and produce valid annotation names".

E4  (deductive, z3 strings): conventions.StorageKeyFormingConvention.make_v2_key / make_v1_key / make_safe_key:
     length, character set, Kubernetes qualified-name shape, verbatim short ids -- for ALL ids/prefixes.
E4b (bounded): the clauses that need the real blake2b/base64 (`make_suffix` shape), `make_keys`, determinism
     (AST purity scan), distinctness of long ids sharing a prefix, the same shape clauses end-to-end.
E5  (bounded): store / fetch / purge / touch round trip, purge completeness and isolation per storage class.
"""
import ast
import copy
import itertools
import json
import re
import string

from pyvc import *
from pyvc.bounded import bounded
from pyvc.stubs import Opaque

ALNUM = string.ascii_letters + string.digits
ID_CHARS = ALNUM + '_./<>-'          # the id alphabet of the property's quantifier
NAME_CHARS = ALNUM + '_.-'           # what Kubernetes allows inside a qualified name
SUFFIX_LEN = 7                       # "-" + 6 base64 characters of a 4-byte digest (shape checked in E4b)


# --------------------------------------------------------------------------- the Kubernetes grammar (oracle)
_NAME_RE = re.compile(r'[A-Za-z0-9]([A-Za-z0-9_.-]*[A-Za-z0-9])?\Z')
_DNS_LABEL = r'[a-z0-9]([a-z0-9-]*[a-z0-9])?'
_SUBDOMAIN_RE = re.compile(rf'{_DNS_LABEL}(\.{_DNS_LABEL})*\Z')


def is_qualified_name(key: str) -> bool:
    """apimachinery validation.IsQualifiedName: [prefix "/"] name; name: <= 63 chars, alphanumeric at both ends,
    [-_.A-Za-z0-9] inside; prefix: a DNS-1123 subdomain of <= 253 chars."""
    parts = key.split('/')
    if len(parts) == 1:
        prefix, name = None, parts[0]
    elif len(parts) == 2:
        prefix, name = parts
        if not prefix or len(prefix) > 253 or not _SUBDOMAIN_RE.match(prefix):
            return False
    else:
        return False
    return 0 < len(name) <= 63 and bool(_NAME_RE.match(name))


# --------------------------------------------------------------------------- symbolic string helpers
def _re_of(chars):
    """A z3 regex for one character out of `chars`, as a union of character RANGES (the seq solver is
    orders of magnitude faster on ranges than on a union of 60 single characters)."""
    import z3
    cs, out, i = sorted(set(chars)), [], 0
    while i < len(cs):
        j = i
        while j + 1 < len(cs) and ord(cs[j + 1]) == ord(cs[j]) + 1:
            j += 1
        out.append(z3.Range(cs[i], cs[j]) if j > i else z3.Re(cs[i]))
        i = j + 1
    return z3.Union(*out) if len(out) > 1 else out[0]


def _any():
    import z3
    return z3.Full(z3.ReSort(z3.StringSort()))


def chars_in(s, chars):
    """Every character of s is in `chars` (works for proxies and for plain strings)."""
    if isinstance(s, SStr):
        import z3
        return SBool(z3.InRe(s.term, z3.Star(_re_of(chars))))
    return all(c in chars for c in s)


def first_in(s, chars):
    if isinstance(s, SStr):
        import z3
        return SBool(z3.InRe(s.term, z3.Concat(_re_of(chars), _any())))
    return len(s) > 0 and s[0] in chars


def last_in(s, chars):
    if isinstance(s, SStr):
        import z3
        return SBool(z3.InRe(s.term, z3.Concat(_any(), _re_of(chars))))
    return len(s) > 0 and s[-1] in chars


def slen(s):
    return s.vc_len() if isinstance(s, SStr) else len(s)


def safe_ref(s):
    """Reference of make_safe_key from the docs of the class: '/' -> '.', '<' and '>' -> '_'."""
    return s.replace('/', '.').replace('<', '_').replace('>', '_')


def tail_after(full, prefix):
    """The name part of `prefix/name` for a key known to start with prefix + '/'."""
    if isinstance(full, SStr):
        import z3
        n = z3.Length(prefix.term if isinstance(prefix, SStr) else z3.StringVal(prefix)) + 1
        return SStr(z3.SubString(full.term, n, z3.Length(full.term) - n))
    return full[len(prefix) + 1:]


def _e4(vc, branches):
    key = vc.str('id')
    vc.assume(slen(key) >= 1, 'handler ids are not empty (registries.generate_id)')

    def suffix_contract(s):
        return And(slen(s) == SUFFIX_LEN, first_in(s, '-'), last_in(s, ALNUM), chars_in(s, ALNUM + '.-'))

    def safe_contract(r, arg):
        return And(Eq(slen(r), slen(arg)), chars_in(r, NAME_CHARS),
                   Iff(first_in(r, ALNUM), first_in(arg, ALNUM)), Iff(last_in(r, ALNUM), last_in(arg, ALNUM)))
    which = branches[vc.nondet(len(branches), 'function')]
    if which == 2:
        # ---- lemma: both documented shapes of a name are valid Kubernetes names (no real code on this branch)
        vc.assume(chars_in(key, ID_CHARS), 'handler ids are over [A-Za-z0-9_./<>-]')
        safe, sfx, keep = vc.str('safe_key'), vc.str('suffix'), vc.int('keep')
        vc.assume(safe_contract(safe, key), 'make_safe_key contract (E4b.safe_key)')
        vc.assume(suffix_contract(sfx), 'make_suffix contract (E4b.suffix_shape)')
        vc.assume(And(keep >= 1, keep <= 63 - SUFFIX_LEN), 'long_hashed: 1 <= keep <= 56')
        shape = vc.nondet(2, 'verbatim | hashed')
        bad_first, bad_last = Not(first_in(key, ALNUM)), Not(last_in(key, ALNUM))
        if shape == 0:
            vc.assume(slen(key) <= 63, 'short_verbatim applies')
            name = safe
        else:
            vc.assume(slen(key) > keep, 'long_hashed applies')
            name = safe[:keep] + sfx
        vc.ensure('name_charset', chars_in(name, NAME_CHARS))
        vc.ensure('name_valid', first_in(name, ALNUM), excuse={'F-C16-1': bad_first})
        vc.ensure('name_valid', last_in(name, ALNUM), excuse={'F-C16-1': bad_last} if shape == 0 else None)
        vc.canary('canary.lemma_keeps_all', Eq(slen(name), slen(key)))
        return ('lemma', shape, name)
    # ---- the real functions against the two shapes
    prefix = vc.str('prefix')
    vc.assume(slen(prefix) >= 1, 'the constructor rejects an empty prefix')
    vc.assume(slen(prefix) <= 253 - 63 - 1, 'the prefix is short enough not to trigger the constructor warning')
    if which == 1:
        # case split only (both halves are explored): it keeps the string-length reasoning of z3 tractable
        if vc.nondet(2, 'prefix <= 54 | prefix >= 55') == 0:
            vc.assume(slen(prefix) <= 54, 'case: room for the hash and at least one character of the id')
        else:
            vc.assume(slen(prefix) >= 55, 'case: no room (class of F-C16-3)')
    suffix_calls, safe_calls = [], []

    def make_suffix(arg):
        s = vc.str('suffix')
        vc.assume(slen(s) == SUFFIX_LEN, 'make_suffix contract: 7 characters (E4b.suffix_shape)')
        suffix_calls.append((arg, s))
        return s

    def make_safe_key(arg):
        r = vc.str('safe_key')
        vc.assume(Eq(slen(r), slen(arg)), 'make_safe_key contract: same length (E4b.safe_key)')
        safe_calls.append((arg, r))
        return r
    vc.used('self.make_suffix', 'E4b')
    vc.used('self.make_safe_key', 'E4b')
    me = Opaque('storage', prefix=prefix)
    me.make_suffix = make_suffix
    me.make_safe_key = make_safe_key
    version = 'v2' if which == 0 else 'v1'
    ld = vc.load('kopf._cogs.configs.conventions', f'StorageKeyFormingConvention.make_{version}_key')
    full = ld.fn(me, key)
    lp = slen(prefix)
    vc.ensure('prefixed', full.startswith(prefix + '/'))
    name = tail_after(full, prefix)
    name_len = slen(full) - (lp + 1)          # == len(name) once `prefixed` holds; plain arithmetic for the solver
    vc.ensure('callees', len(safe_calls) == 1 and safe_calls[0][0] is key)
    safe = safe_calls[0][1]
    if version == 'v2':
        fits = slen(key) <= 63
        keep = 63 - SUFFIX_LEN
        long_prefix = False
        vc.ensure('name_length', And(name_len <= 63, name_len >= 1))
    else:
        fits = slen(key) <= 63 - (lp + 1)
        keep = 63 - SUFFIX_LEN - (lp + 1)
        long_prefix = lp >= 63 - 1 - SUFFIX_LEN        # no room for even one character of the id next to the hash
        vc.ensure('name_length', And(slen(full) <= 63, name_len >= 1), excuse={'F-C16-3': long_prefix})
    vc.ensure('short_verbatim', Implies(fits, And(Eq(name, safe), len(suffix_calls) == 0)))
    if suffix_calls:
        arg, sfx = suffix_calls[0]
        vc.ensure('callees', len(suffix_calls) == 1 and (arg is key or arg is safe))
        vc.ensure('long_hashed', Not(fits))
        vc.ensure('long_hashed', And(keep >= 1, Eq(name, safe[:keep] + sfx)), excuse={'F-C16-3': long_prefix})
    else:
        vc.ensure('long_hashed', fits)
    vc.canary('canary.never_hashed', len(suffix_calls) == 0)
    vc.canary('canary.always_hashed', len(suffix_calls) == 1)
    return (version, full)


@harness('E4', targets=['kopf._cogs.configs.conventions.StorageKeyFormingConvention.make_v2_key'],
         props=['C16'],
         clauses=['prefixed', 'name_length', 'short_verbatim', 'long_hashed', 'callees', 'name_charset', 'name_valid'],
         canaries=['canary.never_hashed', 'canary.always_hashed', 'canary.lemma_keeps_all'],
         trusted=['make_suffix: "-" + 5 chars of [A-Za-z0-9.-] + 1 alphanumeric (7 chars), a function of its argument only: '
                  'shape and determinism checked on the real blake2b/base64 in E4b.suffix_shape',
                  'make_safe_key: same length, result over [A-Za-z0-9_.-], alphanumerics unchanged, non-alphanumerics stay '
                  'non-alphanumeric: checked exhaustively/randomly in E4b.safe_key (z3 returns unknown on str.replace_all)'],
         timeout_ms=20000)
def E4(vc):
    """
    For EVERY handler id (length >= 1) and every non-empty prefix of <= 189 chars (longer ones warn at construction):
     on the real make_v2_key / make_v1_key (branches 0/1; make_suffix and make_safe_key by contract):
      prefixed        the key is `<prefix>/<name>`
      name_length     v2: 1 <= len(name) <= 63.  v1 (documented: the 63 limit covers the whole key): len(key) <= 63
                      [known finding F-C16-3: v1 with a prefix of 55+ chars -- accepted without a warning up to 189]
      short_verbatim  an id that fits is kept verbatim up to the documented replacements: name == make_safe_key(id), no hash
      long_hashed     an id that does not fit: name == make_safe_key(id)[:keep] + make_suffix(id | safe id), keep >= 1,
                      keep = 56 (v2) / 55 - len(prefix) (v1), so that the limit is met exactly
      callees         make_safe_key is applied to the id itself, make_suffix to the id or the safe id, once each
     and, as a lemma over these two shapes (branch 2; ids over [A-Za-z0-9_./<>-]):
      name_charset    the name consists of [A-Za-z0-9_.-] only
      name_valid      the name starts and ends with an alphanumeric (Kubernetes qualified name)
                      [known finding F-C16-1: ids that start with a non-alphanumeric, or short ids that end with one]
    """
    return _e4(vc, [0, 2])


@harness('E4v1', targets=['kopf._cogs.configs.conventions.StorageKeyFormingConvention.make_v1_key'],
         props=['C16'],
         clauses=['prefixed', 'name_length', 'short_verbatim', 'long_hashed', 'callees'],
         canaries=['canary.never_hashed', 'canary.always_hashed'],
         trusted=['make_suffix / make_safe_key: lengths only (7 chars / same length), see E4 and E4b'],
         timeout_ms=20000)
def E4v1(vc):
    """The legacy v1 key (still written by default, v1=True): the same structural clauses as E4 for make_v1_key --
    prefixed; name_length: the WHOLE key is <= 63 chars (the documented v1 rule) and the name is not empty;
    short_verbatim; long_hashed with keep = 55 - len(prefix) >= 1; callees.
    Known finding F-C16-3: prefixes of 55..189 chars.  The validity of the two shapes is E4's lemma."""
    return _e4(vc, [1])


# =========================================================================== E4b (bounded part of E4)
SMALL_ALPHABET = 'aZ0_./<>-'
E4B_PREFIXES = ('kopf.zalando.org', 'my-op.example.com', 'kopf.dev',
                'p' * 50 + '.com',                               # 54 chars: the longest prefix the v1 scheme can serve
                ('a' * 20 + '.') * 4 + 'example.com',            # 95 chars: no warning, class of F-C16-3
                ('b' * 30 + '.') * 6 + 'io')                     # 188 chars: the longest prefix without a warning

PURE_FUNCTIONS = ('make_keys', 'make_safe_key', 'make_v1_key', 'make_v2_key', 'make_suffix')
PURE_ALLOWED_GLOBALS = {'hashlib', 'base64', 'len', 'max', 'min', 'list', 'set', 'frozenset', 'tuple', 'sorted', 'str', 'any', 'all',
                        'dict', 'range', 'enumerate', 'zip', 'isinstance', 'bodies', 'Iterable', 'int', 'bool', 'None', 'True', 'False'}
PURE_ALLOWED_ATTRS = {'hashlib': {'blake2b', 'sha256', 'sha1', 'md5', 'blake2s'}, 'base64': {'b64encode', 'b32encode', 'urlsafe_b64encode'},
                      'bodies': {'Body'}}


def impurities(cls_node):
    """AST purity scan of the key-forming methods: every free name must be a parameter/local, an allowed builtin or
    one of the two hashing modules (with allowed functions); `self` may only be used for self.prefix, self.v1 and
    calls of the other scanned methods / mark_key.  Returns the list of offending references."""
    bad = []
    for fn in [n for n in cls_node.body if isinstance(n, ast.FunctionDef) and n.name in PURE_FUNCTIONS]:
        local = {a.arg for a in fn.args.args + fn.args.kwonlyargs}
        body = ast.Module(body=fn.body, type_ignores=[])         # decorators and annotations are not executed per call
        for n in ast.walk(body):
            if isinstance(n, ast.Name) and isinstance(n.ctx, ast.Store):
                local.add(n.id)
            if isinstance(n, ast.comprehension):
                for t in ast.walk(n.target):
                    if isinstance(t, ast.Name):
                        local.add(t.id)
        for n in ast.walk(body):
            if isinstance(n, (ast.Global, ast.Nonlocal, ast.Import, ast.ImportFrom, ast.Await, ast.Yield)):
                bad.append(f'{fn.name}: {type(n).__name__}')
            if isinstance(n, ast.Name) and isinstance(n.ctx, ast.Load) and n.id not in local and n.id not in PURE_ALLOWED_GLOBALS:
                bad.append(f'{fn.name}: free name {n.id!r}')
            if isinstance(n, ast.Attribute) and isinstance(n.value, ast.Name):
                base = n.value.id
                if base in PURE_ALLOWED_ATTRS and n.attr not in PURE_ALLOWED_ATTRS[base]:
                    bad.append(f'{fn.name}: {base}.{n.attr}')
                if base == 'self' and n.attr not in ('prefix', 'v1', 'mark_key') + PURE_FUNCTIONS:
                    bad.append(f'{fn.name}: self.{n.attr}')
    return bad


def _storage(prefix, v1):
    from kopf._cogs.configs import progress
    import warnings
    with warnings.catch_warnings():
        warnings.simplefilter('ignore')
        return progress.AnnotationsProgressStorage(prefix=prefix, v1=v1)


def _random_id(rng, max_len=300):
    n = rng.choice([1, 2, 5, 20, 55, 56, 57, 62, 63, 64, 65, 70, 100, 200, 253, 300, rng.randrange(1, max_len + 1)])
    kind = rng.random()
    chars = ID_CHARS if kind < 0.6 else ALNUM + '_./' if kind < 0.9 else '_./<>-'
    return ''.join(rng.choice(chars) for _ in range(n))


@bounded('E4b', targets=['kopf._cogs.configs.conventions.StorageKeyFormingConvention.make_keys',
                         'kopf._cogs.configs.conventions.StorageKeyFormingConvention.make_suffix',
                         'kopf._cogs.configs.conventions.StorageKeyFormingConvention.make_safe_key',
                         'kopf._cogs.configs.conventions.StorageKeyFormingConvention.make_v1_key',
                         'kopf._cogs.configs.conventions.StorageKeyFormingConvention.make_v2_key'],
         props=['C16'],
         clauses=['suffix_shape', 'safe_key', 'charset', 'name_length', 'valid_name', 'make_keys', 'deterministic', 'pure_ast',
                  'same_across_restarts', 'distinct_long_shared_prefix', 'distinct_short'],
         universe='ids: all strings of length 1..3 over {a,Z,0,_,.,/,<,>,-} (819) + seeded random ids of length 1..300 over '
                  '[A-Za-z0-9_./<>-] (8000 quick / 60000 thorough, lengths clustered around 56/63/64); 6 prefixes (3 usual, 54, 95, 188 chars) '
                  'x v1 in {T,F}; 40 groups of 200 long ids sharing their first 56..250 characters')
def E4b(b):
    """
    The part of E4 that needs the real blake2b/base64 and the real `str.replace`, end to end on make_keys:
      suffix_shape   make_suffix(x) is "-" + 5 chars of [A-Za-z0-9.-] + 1 alphanumeric (the contract E4 relies on)
      safe_key       make_safe_key(id): '/'->'.', '<','>'->'_', everything else unchanged (the contract E4 relies on)
      charset        every generated name is over [A-Za-z0-9_.-];  name_length: v2 name part <= 63 chars
      valid_name     every key of make_keys is a valid Kubernetes qualified name (grammar oracle in this file)
                     [known: F-C16-1 ids starting/ending with a non-alphanumeric; F-C16-3 v1 with prefixes of 55+ chars]
      make_keys      no duplicates; the v2 key first; the v1 key present iff v1 and different from the v2 key
      deterministic  two calls (two storage instances) agree;  pure_ast: the key-forming methods read nothing but their
                     arguments, self.prefix/self.v1 and hashlib/base64 (AST scan: no time, randomness, environment, hash());
                     same_across_restarts: a fresh interpreter with another PYTHONHASHSEED produces the same keys
      distinct_long_shared_prefix  long ids that share their first 56+ characters get distinct names (2^-32 collision odds per pair)
      distinct_short ids that fit (<= 63) get distinct names  [known: F-C16-2 ids equal after '/'->'.', '<','>'->'_']
    Bounded (labelled B): z3 returns `unknown` on str.replace_all, and blake2b/base64 are third-party C code.
    """
    import os
    import subprocess
    import sys
    from pyvc import loader
    F1, F2, F3 = 'F-C16-1', 'F-C16-2', 'F-C16-3'
    small = [''.join(t) for n in (1, 2, 3) for t in itertools.product(SMALL_ALPHABET, repeat=n)]
    n_random = 60000 if b.thorough else 8000
    rnd = [_random_id(b.rng) for _ in range(n_random)]
    b.sampled(f'{n_random} seeded random ids of length <= 300 (seed {b.seed})')
    ids = small + rnd
    # ---- purity scan of the real source
    mod, path, tree = loader.module_source('kopf._cogs.configs.conventions')
    cls = next(n for n in tree.body if isinstance(n, ast.ClassDef) and n.name == 'StorageKeyFormingConvention')
    bad = impurities(cls)
    b.case(key='ast')
    b.check('pure_ast', not bad and all(any(isinstance(n, ast.FunctionDef) and n.name == f for n in cls.body) for f in PURE_FUNCTIONS),
            lambda: dict(impure_references=bad))
    # ---- per id
    st0 = _storage('kopf.zalando.org', True)
    for hid in ids:
        b.case(key=('safe', hid))
        safe = st0.make_safe_key(hid)
        ref = hid.translate({ord('/'): '.', ord('<'): '_', ord('>'): '_'})
        b.check('safe_key', safe == ref and len(safe) == len(hid) and all(c in NAME_CHARS for c in safe), lambda: dict(id=hid, safe=safe))
        sfx = st0.make_suffix(hid)
        b.check('suffix_shape', bool(re.fullmatch(r'-[A-Za-z0-9.-]{5}[A-Za-z0-9]', sfx)), lambda: dict(id=hid, suffix=sfx))
    for prefix in E4B_PREFIXES:
        for v1 in (True, False):
            st, st_again = _storage(prefix, v1), _storage(prefix, v1)
            by_name = {}
            for n, hid in enumerate(ids):
                if n >= len(small) and len(prefix) > 20 and n % 4:
                    continue        # the long prefixes get every 4th random id
                keys = list(st.make_keys(hid))
                b.case(key=(prefix, v1, hid))
                w = lambda: dict(prefix=prefix, v1=v1, id=hid, keys=keys)
                v2, v1k = st.make_v2_key(hid), st.make_v1_key(hid)
                b.check('make_keys', len(set(keys)) == len(keys) and keys[0] == v2 and set(keys) == ({v2, v1k} if v1 else {v2}), w)
                b.check('deterministic', keys == list(st.make_keys(hid)) == list(st_again.make_keys(hid)), w)
                names = [k[len(prefix) + 1:] if k.startswith(prefix + '/') else None for k in keys]
                b.check('charset', all(nm is not None and all(c in NAME_CHARS for c in nm) for nm in names), w)
                b.check('name_length', names[0] is not None and 1 <= len(names[0]) <= 63, w)
                for k in keys:
                    ok = is_qualified_name(k)
                    excuse = None
                    if not ok:
                        fits = len(hid) <= (63 if k == v2 else 63 - len(prefix) - 1)
                        nm = k[len(prefix) + 1:]
                        only_the_ends = k.startswith(prefix + '/') and 1 <= len(nm) <= 63 and all(c in NAME_CHARS for c in nm)
                        if k != v2 and len(prefix) >= 55:
                            excuse = F3
                        elif only_the_ends and (hid[0] not in ALNUM or (fits and hid[-1] not in ALNUM)):
                            excuse = F1
                    b.check('valid_name', ok, lambda: dict(prefix=prefix, v1=v1, id=hid, key=k), excuse=excuse)
                if len(hid) <= 63:
                    by_name.setdefault(v2, []).append(hid)
            for key, group in by_name.items():
                group = sorted(set(group))
                if len(group) > 1:
                    same_safe = len({g.translate({ord('/'): '.', ord('<'): '_', ord('>'): '_'}) for g in group}) == 1
                    b.check('distinct_short', False, lambda: dict(prefix=prefix, key=key, ids=group[:6]), excuse=F2 if same_safe else None)
                else:
                    b.check('distinct_short', True)
    # ---- long ids sharing a prefix
    for g in range(40):
        shared = ''.join(b.rng.choice(ALNUM + '_./') for _ in range(b.rng.choice([56, 57, 63, 64, 100, 250])))
        members = sorted({shared + ''.join(b.rng.choice(ALNUM + '._/') for _ in range(b.rng.randrange(1, 12))) for _ in range(200)})
        members = [m for m in members if len(m) > 63]
        for prefix, v1 in (('kopf.zalando.org', True), ('my-op.example.com', False)):
            st = _storage(prefix, v1)
            seen = {}
            for m in members:
                for k in st.make_keys(m):
                    seen.setdefault(k, set()).add(m)
            b.case(key=('long', g, prefix))
            clash = {k: sorted(v) for k, v in seen.items() if len(v) > 1}
            safe_equal = all(len({m.translate({ord('/'): '.', ord('<'): '_', ord('>'): '_'}) for m in v}) == 1 for v in clash.values())
            b.check('distinct_long_shared_prefix', not clash and len(members) > 1, lambda: dict(prefix=prefix, clash=clash),
                    excuse=F2 if clash and safe_equal else None)
    # ---- identical across restarts: another interpreter, another hash seed
    sample = small[::40] + rnd[:150]
    code = ('import sys, json, warnings; warnings.simplefilter("ignore"); sys.path.insert(0, sys.argv[1]);'
            'from kopf._cogs.configs import progress;'
            'ids = json.loads(sys.stdin.read());'
            'print(json.dumps([[list(progress.AnnotationsProgressStorage(prefix=p, v1=True).make_keys(i)) for i in ids] '
            'for p in ("kopf.zalando.org", "my-op.example.com")]))')
    env = dict(os.environ, PYTHONHASHSEED='4242')
    out = subprocess.run([sys.executable, '-c', code, loader.repo_root()], input=json.dumps(sample), capture_output=True, text=True, env=env, timeout=120)
    b.case(key='restart')
    try:
        theirs = json.loads(out.stdout.strip().splitlines()[-1])
    except Exception:
        theirs = None
    mine = [[list(_storage(p, True).make_keys(i)) for i in sample] for p in ('kopf.zalando.org', 'my-op.example.com')]
    b.check('same_across_restarts', theirs == mine, lambda: dict(stderr=out.stderr[-500:], differing=[
        (i, a, c) for i, a, c in zip(sample, mine[0], (theirs or [[]])[0]) if a != c][:3]))
