"""
Contracts for C16 "persistence storages round-trip, isolate and produce valid annotation names".

E4  (deductive, z3 strings): conventions.StorageKeyFormingConvention.make_v2_key / make_v1_key / make_safe_key:
     length, character set, Kubernetes qualified-name shape, verbatim short ids -- for ALL ids/prefixes.
E4b (bounded): the clauses that need the real blake2b/base64 (`make_suffix` shape), `make_keys`, determinism
     (AST purity scan), distinctness of long ids sharing a prefix, the same shape clauses end-to-end.
E5  (bounded): store / fetch / purge / touch round trip, purge completeness and isolation per storage class.
"""
import ast
import copy
import itertools
import json
import re
import string

from pyvc import *
from pyvc.bounded import bounded
from pyvc.stubs import Opaque

ALNUM = string.ascii_letters + string.digits
ID_CHARS = ALNUM + '_./<>-'          # the id alphabet of the property's quantifier
NAME_CHARS = ALNUM + '_.-'           # what Kubernetes allows inside a qualified name
SUFFIX_LEN = 7                       # "-" + 6 base64 characters of a 4-byte digest (shape checked in E4b)


# --------------------------------------------------------------------------- the Kubernetes grammar (oracle)
_NAME_RE = re.compile(r'[A-Za-z0-9]([A-Za-z0-9_.-]*[A-Za-z0-9])?\Z')
_DNS_LABEL = r'[a-z0-9]([a-z0-9-]*[a-z0-9])?'
_SUBDOMAIN_RE = re.compile(rf'{_DNS_LABEL}(\.{_DNS_LABEL})*\Z')


def is_qualified_name(key: str) -> bool:
    """apimachinery validation.IsQualifiedName: [prefix "/"] name; name: <= 63 chars, alphanumeric at both ends,
    [-_.A-Za-z0-9] inside; prefix: a DNS-1123 subdomain of <= 253 chars."""
    parts = key.split('/')
    if len(parts) == 1:
        prefix, name = None, parts[0]
    elif len(parts) == 2:
        prefix, name = parts
        if not prefix or len(prefix) > 253 or not _SUBDOMAIN_RE.match(prefix):
            return False
    else:
        return False
    return 0 < len(name) <= 63 and bool(_NAME_RE.match(name))


# --------------------------------------------------------------------------- symbolic string helpers
def _re_of(chars):
    """A z3 regex for one character out of `chars`, as a union of character RANGES (the seq solver is
    orders of magnitude faster on ranges than on a union of 60 single characters)."""
    import z3
    cs, out, i = sorted(set(chars)), [], 0
    while i < len(cs):
        j = i
        while j + 1 < len(cs) and ord(cs[j + 1]) == ord(cs[j]) + 1:
            j += 1
        out.append(z3.Range(cs[i], cs[j]) if j > i else z3.Re(cs[i]))
        i = j + 1
    return z3.Union(*out) if len(out) > 1 else out[0]


def _any():
    import z3
    return z3.Full(z3.ReSort(z3.StringSort()))


def chars_in(s, chars):
    """Every character of s is in `chars` (works for proxies and for plain strings)."""
    if isinstance(s, SStr):
        import z3
        return SBool(z3.InRe(s.term, z3.Star(_re_of(chars))))
    return all(c in chars for c in s)


def first_in(s, chars):
    if isinstance(s, SStr):
        import z3
        return SBool(z3.InRe(s.term, z3.Concat(_re_of(chars), _any())))
    return len(s) > 0 and s[0] in chars


def last_in(s, chars):
    if isinstance(s, SStr):
        import z3
        return SBool(z3.InRe(s.term, z3.Concat(_any(), _re_of(chars))))
    return len(s) > 0 and s[-1] in chars


def slen(s):
    return s.vc_len() if isinstance(s, SStr) else len(s)


def safe_ref(s):
    """Reference of make_safe_key from the docs of the class: '/' -> '.', '<' and '>' -> '_'."""
    return s.replace('/', '.').replace('<', '_').replace('>', '_')


def tail_after(full, prefix):
    """The name part of `prefix/name` for a key known to start with prefix + '/'."""
    if isinstance(full, SStr):
        import z3
        n = z3.Length(prefix.term if isinstance(prefix, SStr) else z3.StringVal(prefix)) + 1
        return SStr(z3.SubString(full.term, n, z3.Length(full.term) - n))
    return full[len(prefix) + 1:]


@harness('E4', targets=['kopf._cogs.configs.conventions.StorageKeyFormingConvention.make_v2_key',
                        'kopf._cogs.configs.conventions.StorageKeyFormingConvention.make_v1_key',
                        'kopf._cogs.configs.conventions.StorageKeyFormingConvention.make_safe_key'],
         props=['C16'],
         clauses=['prefixed', 'name_length', 'name_charset', 'name_valid', 'short_verbatim', 'long_hashed', 'safe_key'],
         canaries=['canary.never_hashed', 'canary.always_verbatim'],
         trusted=['make_suffix: "-" + 5 chars of [A-Za-z0-9.-] + 1 alphanumeric (7 chars), a function of its argument only: '
                  'shape and determinism checked on the real blake2b/base64 in E4b'],
         timeout_ms=20000)
def E4(vc):
    """
    For EVERY handler id over [A-Za-z0-9_./<>-] (length >= 1) and every non-empty prefix:
      prefixed        the key is `<prefix>/<name>`
      name_length     v2: len(name) <= 63.  v1 (documented: the 63 limit covers the whole key): len(key) <= 63
                      [known finding F-C16-3: v1 with a prefix of 55+ chars -- accepted without a warning up to 189]
      name_charset    the name consists of [A-Za-z0-9_.-] only
      name_valid      the name starts and ends with an alphanumeric (Kubernetes qualified name)
                      [known finding F-C16-1: ids that start with a non-alphanumeric, or short ids that end with one]
      short_verbatim  an id that fits is kept verbatim up to the documented replacements (/ -> . ; < > -> _), no hash
      long_hashed     an id that does not fit is cut and ends with make_suffix(...) of the id (v2) / of the safe id (v1)
      safe_key        make_safe_key(id) == id with '/'->'.', '<','>'->'_' (same length)
    make_suffix is used by contract (shape in `trusted`); make_safe_key runs inlined.
    """
    import z3
    key = vc.str('id')
    prefix = vc.str('prefix')
    vc.assume(chars_in(key, ID_CHARS), 'handler ids are over [A-Za-z0-9_./<>-]')
    vc.assume(slen(key) >= 1, 'handler ids are not empty (registries.generate_id)')
    vc.assume(slen(prefix) >= 1, 'the constructor rejects an empty prefix')
    vc.assume(slen(prefix) <= 253 - 63 - 1, 'the prefix is short enough not to trigger the constructor warning')
    suffix_calls = []

    def make_suffix(arg):
        s = vc.str('suffix')
        vc.assume(And(slen(s) == SUFFIX_LEN, first_in(s, '-'), last_in(s, ALNUM), chars_in(s, ALNUM + '.-')),
                  'make_suffix shape (E4b.suffix_shape)')
        suffix_calls.append((arg, s))
        return s
    vc.used('self.make_suffix', 'E4b')
    safe_calls = []

    def make_safe_key(arg):
        r = vc.str('safe_key')
        vc.assume(And(Eq(slen(r), slen(arg)), chars_in(r, NAME_CHARS),
                      Iff(first_in(r, ALNUM), first_in(arg, ALNUM)), Iff(last_in(r, ALNUM), last_in(arg, ALNUM))),
                  'make_safe_key contract (E4b.safe_key): same length, [A-Za-z0-9_.-] only, alphanumerics stay, others stay non-alphanumeric')
        safe_calls.append((arg, r))
        return r
    vc.used('self.make_safe_key', 'E4b')
    which = vc.nondet(2, 'function')
    me = Opaque('storage', prefix=prefix)
    me.make_suffix = make_suffix
    me.make_safe_key = make_safe_key
    version = 'v2' if which == 0 else 'v1'
    ld = vc.load('kopf._cogs.configs.conventions', f'StorageKeyFormingConvention.make_{version}_key')
    full = ld.fn(me, key)
    lp = slen(prefix)
    vc.ensure('prefixed', full.startswith(prefix + '/') if isinstance(full, SStr) else full.startswith(prefix + '/'))
    name = tail_after(full, prefix)
    vc.ensure('safe_key', len(safe_calls) == 1 and safe_calls[0][0] is key)
    safe = safe_calls[0][1]
    if version == 'v2':
        fits = slen(key) <= 63
        vc.ensure('name_length', And(slen(name) <= 63, slen(name) >= 1))
    else:
        fits = slen(key) <= 63 - (lp + 1)
        long_prefix = lp >= 63 - 1 - SUFFIX_LEN        # no room for even one character of the id next to the hash
        vc.ensure('name_length', And(slen(full) <= 63, slen(name) >= 1), excuse={'F-C16-3': long_prefix})
    vc.ensure('name_charset', chars_in(name, NAME_CHARS))
    bad_ends = Or(Not(first_in(key, ALNUM)), And(fits, Not(last_in(key, ALNUM))))
    exc = {'F-C16-1': bad_ends}
    if version == 'v1':
        exc['F-C16-3'] = long_prefix
    vc.ensure('name_valid', And(first_in(name, ALNUM), last_in(name, ALNUM)), excuse=exc)
    vc.ensure('short_verbatim', Implies(fits, And(Eq(name, safe), len(suffix_calls) == 0)))
    if suffix_calls:
        arg, sfx = suffix_calls[0]
        vc.ensure('long_hashed', And(Not(fits), len(suffix_calls) == 1, Eq(arg, key if version == 'v2' else safe)))
        vc.ensure('long_hashed', name.endswith(sfx) if isinstance(name, SStr) else name.endswith(sfx))
        keep = 63 - SUFFIX_LEN - (0 if version == 'v2' else lp + 1)
        vc.ensure('long_hashed', Eq(name, safe[:keep] + sfx), excuse={'F-C16-3': long_prefix} if version == 'v1' else None)
    else:
        vc.ensure('long_hashed', fits)
    vc.canary('canary.never_hashed', len(suffix_calls) == 0)
    vc.canary('canary.always_verbatim', Eq(name, safe))
    return (version, full)
