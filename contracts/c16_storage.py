"""
Contracts for C16 "persistence storages round-trip, isolate and produce valid annotation names".

E4  (deductive, z3 strings): conventions.StorageKeyFormingConvention.make_v2_key / make_v1_key / make_safe_key:
     length, character set, Kubernetes qualified-name shape, verbatim short ids -- for ALL ids/prefixes.
E4b (bounded): the clauses that need the real blake2b/base64 (`make_suffix` shape), `make_keys`, determinism
     (AST purity scan), distinctness of long ids sharing a prefix, the same shape clauses end-to-end.
E5  (bounded): store / fetch / purge / touch round trip, purge completeness and isolation per storage class.
"""
import ast
import copy
import itertools
import json
import re
import string

from pyvc import *
from pyvc.bounded import bounded
from pyvc.stubs import Opaque

ALNUM = string.ascii_letters + string.digits
ID_CHARS = ALNUM + '_./<>-'          # the id alphabet of the property's quantifier
NAME_CHARS = ALNUM + '_.-'           # what Kubernetes allows inside a qualified name
SUFFIX_LEN = 7                       # "-" + 6 base64 characters of a 4-byte digest (shape checked in E4b)


# --------------------------------------------------------------------------- the Kubernetes grammar (oracle)
_NAME_RE = re.compile(r'[A-Za-z0-9]([A-Za-z0-9_.-]*[A-Za-z0-9])?\Z')
_DNS_LABEL = r'[a-z0-9]([a-z0-9-]*[a-z0-9])?'
_SUBDOMAIN_RE = re.compile(rf'{_DNS_LABEL}(\.{_DNS_LABEL})*\Z')


def is_qualified_name(key: str) -> bool:
    """apimachinery validation.IsQualifiedName: [prefix "/"] name; name: <= 63 chars, alphanumeric at both ends,
    [-_.A-Za-z0-9] inside; prefix: a DNS-1123 subdomain of <= 253 chars."""
    parts = key.split('/')
    if len(parts) == 1:
        prefix, name = None, parts[0]
    elif len(parts) == 2:
        prefix, name = parts
        if not prefix or len(prefix) > 253 or not _SUBDOMAIN_RE.match(prefix):
            return False
    else:
        return False
    return 0 < len(name) <= 63 and bool(_NAME_RE.match(name))


# --------------------------------------------------------------------------- symbolic string helpers
def _re_of(chars):
    """A z3 regex for one character out of `chars`, as a union of character RANGES (the seq solver is
    orders of magnitude faster on ranges than on a union of 60 single characters)."""
    import z3
    cs, out, i = sorted(set(chars)), [], 0
    while i < len(cs):
        j = i
        while j + 1 < len(cs) and ord(cs[j + 1]) == ord(cs[j]) + 1:
            j += 1
        out.append(z3.Range(cs[i], cs[j]) if j > i else z3.Re(cs[i]))
        i = j + 1
    return z3.Union(*out) if len(out) > 1 else out[0]


def _any():
    import z3
    return z3.Full(z3.ReSort(z3.StringSort()))


def chars_in(s, chars):
    """Every character of s is in `chars` (works for proxies and for plain strings)."""
    if isinstance(s, SStr):
        import z3
        return SBool(z3.InRe(s.term, z3.Star(_re_of(chars))))
    return all(c in chars for c in s)


def first_in(s, chars):
    if isinstance(s, SStr):
        import z3
        return SBool(z3.InRe(s.term, z3.Concat(_re_of(chars), _any())))
    return len(s) > 0 and s[0] in chars


def last_in(s, chars):
    if isinstance(s, SStr):
        import z3
        return SBool(z3.InRe(s.term, z3.Concat(_any(), _re_of(chars))))
    return len(s) > 0 and s[-1] in chars


def slen(s):
    return s.vc_len() if isinstance(s, SStr) else len(s)


def safe_ref(s):
    """Reference of make_safe_key from the docs of the class: '/' -> '.', '<' and '>' -> '_'."""
    return s.replace('/', '.').replace('<', '_').replace('>', '_')


def tail_after(full, prefix):
    """The name part of `prefix/name` for a key known to start with prefix + '/'."""
    if isinstance(full, SStr):
        import z3
        n = z3.Length(prefix.term if isinstance(prefix, SStr) else z3.StringVal(prefix)) + 1
        return SStr(z3.SubString(full.term, n, z3.Length(full.term) - n))
    return full[len(prefix) + 1:]


def _e4(vc, branches):
    key = vc.str('id')
    vc.assume(slen(key) >= 1, 'handler ids are not empty (registries.generate_id)')

    def suffix_contract(s):
        return And(slen(s) == SUFFIX_LEN, first_in(s, '-'), last_in(s, ALNUM), chars_in(s, ALNUM + '.-'))

    def safe_contract(r, arg):
        return And(Eq(slen(r), slen(arg)), chars_in(r, NAME_CHARS),
                   Iff(first_in(r, ALNUM), first_in(arg, ALNUM)), Iff(last_in(r, ALNUM), last_in(arg, ALNUM)))
    which = branches[vc.nondet(len(branches), 'function')]
    if which == 2:
        # ---- lemma: both documented shapes of a name are valid Kubernetes names (no real code on this branch)
        vc.assume(chars_in(key, ID_CHARS), 'handler ids are over [A-Za-z0-9_./<>-]')
        safe, sfx, keep = vc.str('safe_key'), vc.str('suffix'), vc.int('keep')
        vc.assume(safe_contract(safe, key), 'make_safe_key contract (E4s deductive: same_length/characterwise/ends_keep_their_class; E4b.safe_key bounded)')
        vc.assume(suffix_contract(sfx), 'make_suffix contract (E4x deductive: suffix_shape; E4b.suffix_shape bounded on the real blake2b/base64)')
        vc.assume(And(keep >= 1, keep <= 63 - SUFFIX_LEN), 'long_hashed: 1 <= keep <= 56')
        shape = vc.nondet(2, 'verbatim | hashed')
        bad_first, bad_last = Not(first_in(key, ALNUM)), Not(last_in(key, ALNUM))
        if shape == 0:
            vc.assume(slen(key) <= 63, 'short_verbatim applies')
            name = safe
        else:
            vc.assume(slen(key) > keep, 'long_hashed applies')
            name = safe[:keep] + sfx
        vc.ensure('name_charset', chars_in(name, NAME_CHARS))
        vc.ensure('name_valid', first_in(name, ALNUM), excuse={'F-C16-1': bad_first})
        vc.ensure('name_valid', last_in(name, ALNUM), excuse={'F-C16-1': bad_last} if shape == 0 else None)
        vc.canary('canary.lemma_keeps_all', Eq(slen(name), slen(key)))
        return ('lemma', shape, name)
    # ---- the real functions against the two shapes
    prefix = vc.str('prefix')
    vc.assume(slen(prefix) >= 1, 'the constructor rejects an empty prefix')
    vc.assume(slen(prefix) <= 253 - 63 - 1, 'the prefix is short enough not to trigger the constructor warning')
    if which == 1:
        # case split only (both halves are explored): it keeps the string-length reasoning of z3 tractable
        if vc.nondet(2, 'prefix <= 54 | prefix >= 55') == 0:
            vc.assume(slen(prefix) <= 54, 'case: room for the hash and at least one character of the id')
        else:
            vc.assume(slen(prefix) >= 55, 'case: no room (class of F-C16-3)')
    suffix_calls, safe_calls = [], []

    def make_suffix(arg):
        s = vc.str('suffix')
        vc.assume(slen(s) == SUFFIX_LEN, 'make_suffix contract: 7 characters (E4x.suffix_shape; E4b.suffix_shape)')
        suffix_calls.append((arg, s))
        return s

    def make_safe_key(arg):
        r = vc.str('safe_key')
        vc.assume(Eq(slen(r), slen(arg)), 'make_safe_key contract: same length (E4s.same_length; E4b.safe_key)')
        safe_calls.append((arg, r))
        return r
    vc.used('self.make_suffix', 'E4x')
    vc.used('self.make_safe_key', 'E4s')
    me = Opaque('storage', prefix=prefix)
    me.make_suffix = make_suffix
    me.make_safe_key = make_safe_key
    version = 'v2' if which == 0 else 'v1'
    ld = vc.load('kopf._cogs.configs.conventions', f'StorageKeyFormingConvention.make_{version}_key')
    full = ld.fn(me, key)
    lp = slen(prefix)
    vc.ensure('prefixed', full.startswith(prefix + '/'))
    name = tail_after(full, prefix)
    name_len = slen(full) - (lp + 1)          # == len(name) once `prefixed` holds; plain arithmetic for the solver
    vc.ensure('callees', len(safe_calls) == 1 and safe_calls[0][0] is key)
    safe = safe_calls[0][1]
    if version == 'v2':
        fits = slen(key) <= 63
        keep = 63 - SUFFIX_LEN
        long_prefix = False
        vc.ensure('name_length', And(name_len <= 63, name_len >= 1))
    else:
        fits = slen(key) <= 63 - (lp + 1)
        keep = 63 - SUFFIX_LEN - (lp + 1)
        long_prefix = lp >= 63 - 1 - SUFFIX_LEN        # no room for even one character of the id next to the hash
        vc.ensure('name_length', And(slen(full) <= 63, name_len >= 1), excuse={'F-C16-3': long_prefix})
    vc.ensure('short_verbatim', Implies(fits, And(Eq(name, safe), len(suffix_calls) == 0)))
    if suffix_calls:
        arg, sfx = suffix_calls[0]
        vc.ensure('callees', len(suffix_calls) == 1 and (arg is key or arg is safe))
        vc.ensure('long_hashed', Not(fits))
        vc.ensure('long_hashed', And(keep >= 1, Eq(name, safe[:keep] + sfx)), excuse={'F-C16-3': long_prefix})
    else:
        vc.ensure('long_hashed', fits)
    vc.canary('canary.never_hashed', len(suffix_calls) == 0)
    vc.canary('canary.always_hashed', len(suffix_calls) == 1)
    return (version, full)


@harness('E4', targets=['kopf._cogs.configs.conventions.StorageKeyFormingConvention.make_v2_key'],
         props=['C16', 'C02', 'C04', 'C05'],
         prop_clauses={'C05': ['prefixed']},
         clauses=['prefixed', 'name_length', 'short_verbatim', 'long_hashed', 'callees', 'name_charset', 'name_valid'],
         canaries=['canary.never_hashed', 'canary.always_hashed', 'canary.lemma_keeps_all'],
         trusted=['make_suffix: "-" + 5 chars of [A-Za-z0-9.-] + 1 alphanumeric (7 chars), a function of its argument only: '
                  'shape and determinism checked on the real blake2b/base64 in E4b.suffix_shape',
                  'make_safe_key: same length, result over [A-Za-z0-9_.-], alphanumerics unchanged, non-alphanumerics stay '
                  'non-alphanumeric: checked exhaustively/randomly in E4b.safe_key (z3 returns unknown on str.replace_all)'],
         timeout_ms=20000)
def E4(vc):
    """
    For EVERY handler id (length >= 1) and every non-empty prefix of <= 189 chars (longer ones warn at construction):
     on the real make_v2_key / make_v1_key (branches 0/1; make_suffix and make_safe_key by contract):
      prefixed        the key is `<prefix>/<name>`
      name_length     v2: 1 <= len(name) <= 63.  v1 (documented: the 63 limit covers the whole key): len(key) <= 63
                      [known finding F-C16-3: v1 with a prefix of 55+ chars -- accepted without a warning up to 189]
      short_verbatim  an id that fits is kept verbatim up to the documented replacements: name == make_safe_key(id), no hash
      long_hashed     an id that does not fit: name == make_safe_key(id)[:keep] + make_suffix(id | safe id), keep >= 1,
                      keep = 56 (v2) / 55 - len(prefix) (v1), so that the limit is met exactly
      callees         make_safe_key is applied to the id itself, make_suffix to the id or the safe id, once each
     and, as a lemma over these two shapes (branch 2; ids over [A-Za-z0-9_./<>-]):
      name_charset    the name consists of [A-Za-z0-9_.-] only
      name_valid      the name starts and ends with an alphanumeric (Kubernetes qualified name)
                      [known finding F-C16-1: ids that start with a non-alphanumeric, or short ids that end with one]
    """
    return _e4(vc, [0, 2])


@harness('E4v1', targets=['kopf._cogs.configs.conventions.StorageKeyFormingConvention.make_v1_key'],
         props=['C16', 'C02', 'C04', 'C05'],
         prop_clauses={'C05': ['prefixed']},
         clauses=['prefixed', 'name_length', 'short_verbatim', 'long_hashed', 'callees'],
         canaries=['canary.never_hashed', 'canary.always_hashed'],
         trusted=['make_suffix / make_safe_key: lengths only (7 chars / same length), see E4 and E4b'],
         timeout_ms=20000)
def E4v1(vc):
    """The legacy v1 key (still written by default, v1=True): the same structural clauses as E4 for make_v1_key --
    prefixed; name_length: the WHOLE key is <= 63 chars (the documented v1 rule) and the name is not empty;
    short_verbatim; long_hashed with keep = 55 - len(prefix) >= 1; callees.
    Known finding F-C16-3: prefixes of 55..189 chars.  The validity of the two shapes is E4's lemma."""
    return _e4(vc, [1])


# =========================================================================== E4b (bounded part of E4)
SMALL_ALPHABET = 'aZ0_./<>-'
E4B_PREFIXES = ('kopf.zalando.org', 'my-op.example.com', 'kopf.dev',
                'p' * 50 + '.com',                               # 54 chars: the longest prefix the v1 scheme can serve
                ('a' * 20 + '.') * 4 + 'example.com',            # 95 chars: no warning, class of F-C16-3
                ('b' * 30 + '.') * 6 + 'io')                     # 188 chars: the longest prefix without a warning

PURE_FUNCTIONS = ('make_keys', 'make_safe_key', 'make_v1_key', 'make_v2_key', 'make_suffix')
PURE_ALLOWED_GLOBALS = {'hashlib', 'base64', 'len', 'max', 'min', 'list', 'set', 'frozenset', 'tuple', 'sorted', 'str', 'any', 'all',
                        'dict', 'range', 'enumerate', 'zip', 'isinstance', 'bodies', 'Iterable', 'int', 'bool', 'None', 'True', 'False'}
PURE_ALLOWED_ATTRS = {'hashlib': {'blake2b', 'sha256', 'sha1', 'md5', 'blake2s'}, 'base64': {'b64encode', 'b32encode', 'urlsafe_b64encode'},
                      'bodies': {'Body'}}


def impurities(cls_node):
    """AST purity scan of the key-forming methods: every free name must be a parameter/local, an allowed builtin or
    one of the two hashing modules (with allowed functions); `self` may only be used for self.prefix, self.v1 and
    calls of the other scanned methods / mark_key.  Returns the list of offending references."""
    bad = []
    for fn in [n for n in cls_node.body if isinstance(n, ast.FunctionDef) and n.name in PURE_FUNCTIONS]:
        local = {a.arg for a in fn.args.args + fn.args.kwonlyargs}
        body = ast.Module(body=fn.body, type_ignores=[])         # decorators and annotations are not executed per call
        for n in ast.walk(body):
            if isinstance(n, ast.Name) and isinstance(n.ctx, ast.Store):
                local.add(n.id)
            if isinstance(n, ast.comprehension):
                for t in ast.walk(n.target):
                    if isinstance(t, ast.Name):
                        local.add(t.id)
        for n in ast.walk(body):
            if isinstance(n, (ast.Global, ast.Nonlocal, ast.Import, ast.ImportFrom, ast.Await, ast.Yield)):
                bad.append(f'{fn.name}: {type(n).__name__}')
            if isinstance(n, ast.Name) and isinstance(n.ctx, ast.Load) and n.id not in local and n.id not in PURE_ALLOWED_GLOBALS:
                bad.append(f'{fn.name}: free name {n.id!r}')
            if isinstance(n, ast.Attribute) and isinstance(n.value, ast.Name):
                base = n.value.id
                if base in PURE_ALLOWED_ATTRS and n.attr not in PURE_ALLOWED_ATTRS[base]:
                    bad.append(f'{fn.name}: {base}.{n.attr}')
                if base == 'self' and n.attr not in ('prefix', 'v1', 'mark_key') + PURE_FUNCTIONS:
                    bad.append(f'{fn.name}: self.{n.attr}')
    return bad


def _storage(prefix, v1):
    from kopf._cogs.configs import progress
    import warnings
    with warnings.catch_warnings():
        warnings.simplefilter('ignore')
        return progress.AnnotationsProgressStorage(prefix=prefix, v1=v1)


def _random_id(rng, max_len=300):
    n = rng.choice([1, 2, 5, 20, 55, 56, 57, 62, 63, 64, 65, 70, 100, 200, 253, 300, rng.randrange(1, max_len + 1)])
    kind = rng.random()
    chars = ID_CHARS if kind < 0.6 else ALNUM + '_./' if kind < 0.9 else '_./<>-'
    return ''.join(rng.choice(chars) for _ in range(n))


@bounded('E4b', targets=['kopf._cogs.configs.conventions.StorageKeyFormingConvention.make_keys',
                         'kopf._cogs.configs.conventions.StorageKeyFormingConvention.make_suffix',
                         'kopf._cogs.configs.conventions.StorageKeyFormingConvention.make_safe_key',
                         'kopf._cogs.configs.conventions.StorageKeyFormingConvention.make_v1_key',
                         'kopf._cogs.configs.conventions.StorageKeyFormingConvention.make_v2_key'],
         props=['C16', 'C02', 'C03', 'C04', 'C08', 'C14', 'C05'],
         prop_clauses={'C05': ['make_keys', 'deterministic', 'pure_ast', 'same_across_restarts']},
         clauses=['suffix_shape', 'safe_key', 'charset', 'name_length', 'valid_name', 'make_keys', 'deterministic', 'pure_ast',
                  'same_across_restarts', 'distinct_long_shared_prefix', 'distinct_short'],
         universe='ids: all strings of length 1..3 over {a,Z,0,_,.,/,<,>,-} (819) + seeded random ids of length 1..300 over '
                  '[A-Za-z0-9_./<>-] (8000 quick / 60000 thorough, lengths clustered around 56/63/64); 6 prefixes (3 usual, 54, 95, 188 chars) '
                  'x v1 in {T,F}; the same through make_keys(id, body=) for a plain object, a ReplicaSet owned by a Deployment and a ReplicaSet with '
                  'another owner (ids of 50..300 chars incl. every length 50..69); 40 groups of 200 long ids sharing their first 56..250 characters')
def E4b(b):
    """
    The part of E4 that needs the real blake2b/base64 and the real `str.replace`, end to end on make_keys:
      suffix_shape   make_suffix(x) is "-" + 5 chars of [A-Za-z0-9.-] + 1 alphanumeric (the contract E4 relies on)
      safe_key       make_safe_key(id): '/'->'.', '<','>'->'_', everything else unchanged (the contract E4 relies on)
      charset        every generated name is over [A-Za-z0-9_.-];  name_length: v2 name part <= 63 chars
      valid_name     every key of make_keys is a valid Kubernetes qualified name (grammar oracle in this file)
                     [known: F-C16-1 ids starting/ending with a non-alphanumeric; F-C16-3 v1 with prefixes of 55+ chars]
      make_keys      no duplicates; the v2 key first; the v1 key present iff v1 and different from the v2 key; with body=: the same
                     keys for ordinary objects, other (marked) keys for a ReplicaSet owned by a Deployment -- all clauses
                     (charset, length, validity, determinism) hold for the keys formed with a body as well
      deterministic  two calls (two storage instances) agree;  pure_ast: the key-forming methods read nothing but their
                     arguments, self.prefix/self.v1 and hashlib/base64 (AST scan: no time, randomness, environment, hash());
                     same_across_restarts: a fresh interpreter with another PYTHONHASHSEED produces the same keys
      distinct_long_shared_prefix  long ids that share their first 56+ characters get distinct names (2^-32 collision odds per pair)
      distinct_short ids that fit (<= 63) get distinct names  [known: F-C16-2 ids equal after '/'->'.', '<','>'->'_']
    Bounded (labelled B): z3 returns `unknown` on str.replace_all, and blake2b/base64 are third-party C code.
    """
    import os
    import subprocess
    import sys
    from pyvc import loader
    F1, F2, F3 = 'F-C16-1', 'F-C16-2', 'F-C16-3'
    small = [''.join(t) for n in (1, 2, 3) for t in itertools.product(SMALL_ALPHABET, repeat=n)]
    n_random = 60000 if b.thorough else 8000
    rnd = [_random_id(b.rng) for _ in range(n_random)]
    b.sampled(f'{n_random} seeded random ids of length <= 300 (seed {b.seed})')
    ids = small + rnd
    # ---- purity scan of the real source
    mod, path, tree = loader.module_source('kopf._cogs.configs.conventions')
    cls = next(n for n in tree.body if isinstance(n, ast.ClassDef) and n.name == 'StorageKeyFormingConvention')
    bad = impurities(cls)
    b.case(key='ast')
    b.check('pure_ast', not bad and all(any(isinstance(n, ast.FunctionDef) and n.name == f for n in cls.body) for f in PURE_FUNCTIONS),
            lambda: dict(impure_references=bad))
    # ---- per id
    st0 = _storage('kopf.zalando.org', True)
    for hid in ids:
        b.case(key=('safe', hid))
        safe = st0.make_safe_key(hid)
        ref = hid.translate({ord('/'): '.', ord('<'): '_', ord('>'): '_'})
        b.check('safe_key', safe == ref and len(safe) == len(hid) and all(c in NAME_CHARS for c in safe), lambda: dict(id=hid, safe=safe))
        sfx = st0.make_suffix(hid)
        b.check('suffix_shape', bool(re.fullmatch(r'-[A-Za-z0-9.-]{5}[A-Za-z0-9]', sfx)), lambda: dict(id=hid, suffix=sfx))
    for prefix in E4B_PREFIXES:
        for v1 in (True, False):
            st, st_again = _storage(prefix, v1), _storage(prefix, v1)
            by_name = {}
            for n, hid in enumerate(ids):
                if n >= len(small) and len(prefix) > 20 and n % 4:
                    continue        # the long prefixes get every 4th random id
                keys = list(st.make_keys(hid))
                b.case(key=(prefix, v1, hid))
                w = lambda: dict(prefix=prefix, v1=v1, id=hid, keys=keys)
                v2, v1k = st.make_v2_key(hid), st.make_v1_key(hid)
                b.check('make_keys', len(set(keys)) == len(keys) and keys[0] == v2 and set(keys) == ({v2, v1k} if v1 else {v2}), w)
                b.check('deterministic', keys == list(st.make_keys(hid)) == list(st_again.make_keys(hid)), w)
                names = [k[len(prefix) + 1:] if k.startswith(prefix + '/') else None for k in keys]
                b.check('charset', all(nm is not None and all(c in NAME_CHARS for c in nm) for nm in names), w)
                b.check('name_length', names[0] is not None and 1 <= len(names[0]) <= 63, w)
                for k in keys:
                    ok = is_qualified_name(k)
                    excuse = None
                    if not ok:
                        fits = len(hid) <= (63 if k == v2 else 63 - len(prefix) - 1)
                        nm = k[len(prefix) + 1:]
                        only_the_ends = k.startswith(prefix + '/') and 1 <= len(nm) <= 63 and all(c in NAME_CHARS for c in nm)
                        if k != v2 and len(prefix) >= 55:
                            excuse = F3
                        elif only_the_ends and (hid[0] not in ALNUM or (fits and hid[-1] not in ALNUM)):
                            excuse = F1
                    b.check('valid_name', ok, lambda: dict(prefix=prefix, v1=v1, id=hid, key=k), excuse=excuse)
                if len(hid) <= 63:
                    by_name.setdefault(v2, []).append(hid)
            for key, group in by_name.items():
                group = sorted(set(group))
                if len(group) > 1:
                    same_safe = len({g.translate({ord('/'): '.', ord('<'): '_', ord('>'): '_'}) for g in group}) == 1
                    b.check('distinct_short', False, lambda: dict(prefix=prefix, key=key, ids=group[:6]), excuse=F2 if same_safe else None)
                else:
                    b.check('distinct_short', True)
    # ---- make_keys(id, body=...): the names formed for a concrete object, incl. a ReplicaSet owned by a Deployment (marked keys)
    from kopf._cogs.structs import bodies
    plain_body = bodies.Body({'kind': 'KopfExample', 'metadata': {'name': 'obj'}})
    rs_body = bodies.Body({'kind': 'ReplicaSet', 'metadata': {'name': 'rs', 'ownerReferences': [
        {'apiVersion': 'apps/v1', 'kind': 'Deployment', 'name': 'd', 'uid': 'u', 'controller': True}]}})
    rs_other_owner = bodies.Body({'kind': 'ReplicaSet', 'metadata': {'name': 'rs', 'ownerReferences': [{'kind': 'Rollout', 'name': 'r'}]}})
    body_ids = small[::7] + [i for i in rnd if len(i) >= 50][:600] + ['x' * n for n in range(50, 70)] + ['a' * 57 + '/sub', 'fn/' + 'field.' * 12 + 'x']
    for prefix in E4B_PREFIXES[:4]:
        for v1 in (True, False):
            st = _storage(prefix, v1)
            for hid in body_ids:
                unmarked = list(st.make_keys(hid))
                for bname, bd in (('plain', plain_body), ('replicaset-of-deployment', rs_body), ('replicaset-of-other', rs_other_owner)):
                    keys = list(st.make_keys(hid, body=bd))
                    b.case(key=('body', prefix, v1, hid, bname))
                    w = lambda: dict(prefix=prefix, v1=v1, id=hid, body=bname, keys=keys)
                    names = [k[len(prefix) + 1:] if k.startswith(prefix + '/') else None for k in keys]
                    b.check('charset', all(nm is not None and all(c in NAME_CHARS for c in nm) for nm in names), w)
                    b.check('name_length', names[0] is not None and 1 <= len(names[0]) <= 63, w)
                    b.check('make_keys', len(set(keys)) == len(keys) and 1 <= len(keys) <= (2 if v1 else 1)
                            and (keys == unmarked if bname != 'replicaset-of-deployment' else not set(keys) & set(unmarked)), w)
                    b.check('deterministic', keys == list(st.make_keys(hid, body=bd)), w)
                    for n, k in enumerate(keys):
                        ok = is_qualified_name(k)
                        excuse = None
                        if not ok:
                            nm = k[len(prefix) + 1:]
                            ends_only = k.startswith(prefix + '/') and 1 <= len(nm) <= 63 and all(c in NAME_CHARS for c in nm)
                            if n > 0 and len(prefix) >= 55:
                                excuse = F3
                            elif ends_only and ((nm[0] not in ALNUM and hid[0] not in ALNUM) or (nm[-1] not in ALNUM and hid[-1] not in ALNUM)):
                                excuse = F1
                        b.check('valid_name', ok, lambda: dict(prefix=prefix, v1=v1, id=hid, body=bname, key=k), excuse=excuse)
    # ---- long ids sharing a prefix
    for g in range(40):
        shared = ''.join(b.rng.choice(ALNUM + '_./') for _ in range(b.rng.choice([56, 57, 63, 64, 100, 250])))
        members = sorted({shared + ''.join(b.rng.choice(ALNUM + '._/') for _ in range(b.rng.randrange(1, 12))) for _ in range(200)})
        members = [m for m in members if len(m) > 63]
        for prefix, v1 in (('kopf.zalando.org', True), ('my-op.example.com', False)):
            st = _storage(prefix, v1)
            seen = {}
            for m in members:
                for k in st.make_keys(m):
                    seen.setdefault(k, set()).add(m)
            b.case(key=('long', g, prefix))
            clash = {k: sorted(v) for k, v in seen.items() if len(v) > 1}
            safe_equal = all(len({m.translate({ord('/'): '.', ord('<'): '_', ord('>'): '_'}) for m in v}) == 1 for v in clash.values())
            b.check('distinct_long_shared_prefix', not clash and len(members) > 1, lambda: dict(prefix=prefix, clash=clash),
                    excuse=F2 if clash and safe_equal else None)
    # ---- identical across restarts: another interpreter, another hash seed
    sample = small[::40] + rnd[:150]
    code = ('import sys, json, warnings; warnings.simplefilter("ignore"); sys.path.insert(0, sys.argv[1]);'
            'from kopf._cogs.configs import progress;'
            'ids = json.loads(sys.stdin.read());'
            'print(json.dumps([[list(progress.AnnotationsProgressStorage(prefix=p, v1=True).make_keys(i)) for i in ids] '
            'for p in ("kopf.zalando.org", "my-op.example.com")]))')
    env = dict(os.environ, PYTHONHASHSEED='4242')
    out = subprocess.run([sys.executable, '-c', code, loader.repo_root()], input=json.dumps(sample), capture_output=True, text=True, env=env, timeout=120)
    b.case(key='restart')
    try:
        theirs = json.loads(out.stdout.strip().splitlines()[-1])
    except Exception:
        theirs = None
    mine = [[list(_storage(p, True).make_keys(i)) for i in sample] for p in ('kopf.zalando.org', 'my-op.example.com')]
    b.check('same_across_restarts', theirs == mine, lambda: dict(stderr=out.stderr[-500:], differing=[
        (i, a, c) for i, a, c in zip(sample, mine[0], (theirs or [[]])[0]) if a != c][:3]))


# =========================================================================== E5
def _no_nones(record):
    return {k: v for k, v in record.items() if v is not None} if isinstance(record, dict) else record


def _wire(patch):
    """What a kopf Patch sends: a JSON merge-patch document."""
    return json.loads(json.dumps(dict(patch)))


def _records(rng, n):
    ts = ('2020-01-01T00:00:00', '2021-12-31T23:59:59.999999')
    msgs = (None, '', 'plain', 'ü∂ "quoted" \\ back\nnewline\ttab', 'x' * 1200, '{"json": "inside"}', "it's")
    out = [dict(started=ts[0], stopped=None, delayed=None, purpose=None, retries=None, success=None, failure=None, message=None, subrefs=None),
           dict(started=ts[0], stopped=ts[1], delayed=ts[1], purpose='create', retries=0, success=True, failure=False, message='', subrefs=[]),
           dict(started=ts[1])]
    while len(out) < n:
        out.append(dict(started=rng.choice(ts), stopped=rng.choice((None,) + ts), delayed=rng.choice((None,) + ts),
                        purpose=rng.choice((None, 'create', 'update', 'delete', 'resume')), retries=rng.choice((None, 0, 1, 99)),
                        success=rng.choice((None, True, False)), failure=rng.choice((None, True, False)), message=rng.choice(msgs),
                        subrefs=rng.choice((None, [], ['fn/a'], ['fn/a', 'fn/b/c']))))
    return out


E5_IDS = ('fn', 'fn/spec.x', 'outer/inner_sub', 'Class.method', 'x' * 57, 'x' * 58, 'x' * 63, 'x' * 64, 'y' * 70 + '/sub', 'z' * 300, 'fn_<locals>_inner')
E5_COLLIDING = (('fn/spec.x', 'fn.spec.x'), ('a<b', 'a_b'), ('q' * 80 + '/t', 'q' * 80 + '.t'))     # equal after make_safe_key (F-C16-2)


def _e5_bodies(other_progress):
    """Bodies the storages work on: bare; with user annotations, labels, status; with another operator's records."""
    from contracts.c04_essence import apply_merge_patch
    from kopf._cogs.structs import bodies, patches
    bare = {'apiVersion': 'example.com/v1', 'kind': 'KopfExample', 'metadata': {'name': 'obj', 'namespace': 'ns'}, 'spec': {'x': 1}}
    user = apply_merge_patch(bare, {'metadata': {'labels': {'app': 'demo'}, 'annotations': {'example.com/note': 'x', 'note': 'y', 'empty': ''}},
                                    'status': {'observed': 1, 'kopf': {'progress': {'someone-else': {'started': 'then'}}, 'dummy': 'then'}}})
    p = patches.Patch()
    other_progress.store(key='fn', record={'started': 'other-operator', 'retries': 7}, body=bodies.Body(user), patch=p)
    other_progress.touch(body=bodies.Body(user), patch=p, value='other-touch')
    shared = apply_merge_patch(user, _wire(p))
    replicaset = apply_merge_patch(bare, {'kind': 'ReplicaSet', 'apiVersion': 'apps/v1', 'metadata': {
        'ownerReferences': [{'apiVersion': 'apps/v1', 'kind': 'Deployment', 'name': 'd', 'uid': 'u', 'controller': True}]}})
    return [('bare', bare), ('user-data', user), ('shared-with-other-operator', shared), ('replicaset-of-deployment', replicaset)]


def _own_locations(storage_kind, storage, hid, body):
    """Where the record of `hid` may live for this storage: annotation keys and/or the status path."""
    from kopf._cogs.structs import bodies
    keys, status = set(), False
    parts = [storage] + list(getattr(storage, 'storages', []))
    for s in parts:
        if hasattr(s, 'make_keys'):
            keys |= set(s.make_keys(hid, body=bodies.Body(body)))
        elif type(s).__name__ == 'StatusProgressStorage':
            status = True
    return keys, status


def _strip_own(body, keys, status, hid, markers):
    """The body without the record of `hid` (and without the operators' branding markers)."""
    b2 = copy.deepcopy(body)
    ann = b2.get('metadata', {}).get('annotations')
    if isinstance(ann, dict):
        for k in list(ann):
            if k in keys or k in markers:
                del ann[k]
        if not ann:
            del b2['metadata']['annotations']
    if status:
        prog = ((b2.get('status') or {}).get('kopf') or {}).get('progress')
        if isinstance(prog, dict):
            prog.pop(hid, None)
            if not prog:
                del b2['status']['kopf']['progress']
                if not b2['status']['kopf']:
                    del b2['status']['kopf']
                    if not b2['status']:
                        del b2['status']
    return b2


@bounded('E5', targets=['kopf._cogs.configs.progress.AnnotationsProgressStorage', 'kopf._cogs.configs.progress.StatusProgressStorage',
                        'kopf._cogs.configs.progress.SmartProgressStorage', 'kopf._cogs.configs.progress.MultiProgressStorage',
                        'kopf._cogs.configs.diffbase.AnnotationsDiffBaseStorage', 'kopf._cogs.configs.diffbase.StatusDiffBaseStorage',
                        'kopf._cogs.configs.diffbase.MultiDiffBaseStorage', 'kopf._cogs.configs.conventions.CollisionEvadingConvention.mark_key'],
         props=['C16', 'C02', 'C03', 'C14', 'C05', 'C06', 'C08', 'C15', 'C04'],
         prop_clauses={'C05': ['diffbase_round_trip', 'replicaset_marking'], 'C06': ['isolation_other_ids', 'touch'], 'C08': ['round_trip', 'written_names_valid', 'purge_complete', 'store_then_purge_in_one_patch', 'diffbase_round_trip'], 'C15': ['diffbase_round_trip'], 'C04': ['store_touches_only_own', 'purge_touches_only_own', 'isolation_other_operator', 'touch', 'diffbase_round_trip', 'replicaset_marking']},
         clauses=['round_trip', 'written_names_valid', 'store_touches_only_own', 'purge_complete', 'purge_touches_only_own', 'purge_of_nothing_is_noop',
                  'store_then_purge_in_one_patch', 'isolation_other_ids', 'isolation_other_operator', 'either_version_read',
                  'touch', 'diffbase_round_trip', 'replicaset_marking'],
         universe='progress storages: Annotations/Smart/Multi x 3 prefixes x v1 {T,F} + Status (19); diff-base storages: Annotations/Multi x 3 prefixes '
                  'x v1 + Status (13); 4 bodies (bare, user data + foreign status records, shared with another Kopf operator, ReplicaSet owned by a '
                  'Deployment); 11 ids (plain, field-suffixed, sub-handler, 57/58/63/64/75/300 chars, <locals>) + 3 pairs equal after safe-key '
                  'replacement; records: 12 (quick) / 200 (thorough) seeded combinations of all 9 fields incl. nulls, unicode, 1200-char messages')
def E5(b):
    """
    Property C16, first sentence, for each storage class x configuration (patches applied with the independent RFC 7386 merge):
      round_trip                fetch(id, merge(body, patch_of(store(id, record)))) == record modulo None-valued fields
      written_names_valid       every annotation name in that patch is a valid Kubernetes qualified name (name part <= 63 chars), also for
                                long ids on a ReplicaSet owned by a Deployment (marked keys)
      store_touches_only_own    that patch changes nothing but the record's own locations and the operator's branding marker
      purge_complete            after merge(.., patch_of(purge(id))) fetch(id) is None and no location of the record is left
      purge_touches_only_own    ... and nothing else changed;  purge_of_nothing_is_noop: purging an absent record writes nothing
      store_then_purge_in_one_patch  store + purge in the same patch cancel out: nothing of the record reaches the object
      isolation_other_ids       store/purge of one id leaves fetch(other id) unchanged, for every other id with a record
                                [known F-C16-2: ids equal after '/'->'.', '<','>'->'_']
      isolation_other_operator  ... and leaves the records of an operator with another prefix, user annotations/labels, spec,
                                foreign status records untouched (both directions)
      either_version_read       with v1=True both key versions are written, and the record is read back from either one alone
      touch                     touch(v) writes, a second touch(v) is a no-op, touch(None) removes the dummy again; no record is affected
      diffbase_round_trip       fetch(merge(body, patch_of(store(essence)))) == essence, for every diff-base storage
      replicaset_marking        on a ReplicaSet owned by a Deployment the keys carry the -ofDRS mark: annotations propagated from the
                                Deployment (same operator, same handler id) are neither read as nor overwritten by the ReplicaSet's records
    Bounded stand-in (labelled B): composition of json.dumps/loads, recursive dicts.ensure/resolve/remove and blake2b key forming.
    """
    from contracts.c04_essence import PREFIXES, apply_merge_patch, make_config
    from kopf._cogs.structs import bodies, patches
    F2 = 'F-C16-2'
    records = _records(b.rng, 200 if b.thorough else 12)
    b.sampled(f'{len(records)} seeded records (seed {b.seed})')
    storages = [('status', 'status', None, None, make_config('status', 'status', PREFIXES[0], True).progress)]
    for pk in ('annotations', 'smart', 'multi'):
        for prefix in PREFIXES:
            for v1 in (True, False):
                storages.append((f'{pk}[{prefix},v1={v1}]', pk, prefix, v1, make_config(pk, 'status', prefix, v1).progress))

    def apply(body, fn):
        patch = patches.Patch()
        fn(bodies.Body(body), patch)
        wire = _wire(patch)
        return apply_merge_patch(body, wire), wire

    for si, (sname, pk, prefix, v1, st) in enumerate(storages):
        other_prefix = next(p for p in PREFIXES if p != prefix)
        other = make_config('annotations', 'annotations', other_prefix, True)
        markers = {f'{p}/kopf-managed' for p in PREFIXES}
        for bname, body in _e5_bodies(other.progress):
            view = bodies.Body(body)
            for ii, hid in enumerate(E5_IDS):
                keys, in_status = _own_locations(pk, st, hid, body)
                for ri, record in enumerate(records):
                    if not b.thorough and (ri + ii + si) % 3 and ri > 2:
                        continue
                    ctx = dict(storage=sname, body=bname, id=hid if len(hid) < 80 else hid[:20] + f'...({len(hid)})', record=record)
                    b.case(key=(sname, bname, hid, ri))
                    stored, wire = apply(body, lambda bd, p: st.store(key=hid, record=dict(record), body=bd, patch=p))
                    got = st.fetch(key=hid, body=bodies.Body(stored))
                    b.check('round_trip', got is not None and _no_nones(got) == _no_nones(record), lambda: dict(ctx, fetched=got, patch=wire))
                    b.check('store_touches_only_own', _strip_own(stored, keys, in_status, hid, markers) == _strip_own(body, keys, in_status, hid, markers),
                            lambda: dict(ctx, patch=wire))
                    if ri == 0:
                        written = list((wire.get('metadata') or {}).get('annotations') or {})
                        bad = [k for k in written if not is_qualified_name(k)]
                        b.check('written_names_valid', not bad, lambda: dict(ctx, invalid=bad, patch=None))
                    if ri > 2:
                        continue
                    # -- purge
                    purged, pwire = apply(stored, lambda bd, p: st.purge(key=hid, body=bd, patch=p))
                    left = [k for k in keys if k in (purged.get('metadata', {}).get('annotations') or {})]
                    left_status = in_status and hid in (((purged.get('status') or {}).get('kopf') or {}).get('progress') or {})
                    b.check('purge_complete', st.fetch(key=hid, body=bodies.Body(purged)) is None and not left and not left_status,
                            lambda: dict(ctx, left=left, patch=pwire))
                    b.check('purge_touches_only_own', _strip_own(purged, keys, in_status, hid, set()) == _strip_own(stored, keys, in_status, hid, set()),
                            lambda: dict(ctx, patch=pwire, before=stored, after=purged))
                    _, nwire = apply(body, lambda bd, p: st.purge(key=hid, body=bd, patch=p))
                    b.check('purge_of_nothing_is_noop', nwire == {} or apply_merge_patch(body, nwire) == body, lambda: dict(ctx, patch=nwire))
                    both, bwire = apply(body, lambda bd, p: (st.store(key=hid, record=dict(record), body=bd, patch=p),
                                                             st.purge(key=hid, body=bd, patch=p)))
                    b.check('store_then_purge_in_one_patch', st.fetch(key=hid, body=bodies.Body(both)) is None
                            and _strip_own(both, set(), False, hid, markers) == _strip_own(body, set(), False, hid, markers),
                            lambda: dict(ctx, patch=bwire))
                    # the same over an object that already carries an (older) record of this id: the purge must win
                    both2, bwire2 = apply(stored, lambda bd, p: (st.store(key=hid, record=dict(records[2]), body=bd, patch=p),
                                                                 st.purge(key=hid, body=bd, patch=p)))
                    b.check('store_then_purge_in_one_patch', st.fetch(key=hid, body=bodies.Body(both2)) is None,
                            lambda: dict(ctx, patch=bwire2, note='older record present on the object'))
                    # -- isolation against the other ids
                    for hid2 in E5_IDS[:4] + tuple(x for pair in E5_COLLIDING for x in pair):
                        if hid2 == hid:
                            continue
                        rec2 = dict(records[1], message=f'record of {hid2[:10]}')
                        base, _ = apply(body, lambda bd, p: st.store(key=hid2, record=rec2, body=bd, patch=p))
                        before = st.fetch(key=hid2, body=bodies.Body(base))
                        after_store, _ = apply(base, lambda bd, p: st.store(key=hid, record=dict(record), body=bd, patch=p))
                        after_purge, _ = apply(after_store, lambda bd, p: st.purge(key=hid, body=bd, patch=p))
                        ok = (st.fetch(key=hid2, body=bodies.Body(after_store)) == before == st.fetch(key=hid2, body=bodies.Body(after_purge))
                              and before is not None)
                        collide = pk != 'status' and safe_ref(hid) == safe_ref(hid2)
                        b.check('isolation_other_ids', ok, lambda: dict(ctx, other_id=hid2), excuse=F2 if collide else None)
                    # -- isolation against another operator and user data
                    mine_gone = _strip_own(purged, keys, in_status, hid, markers)
                    b.check('isolation_other_operator',
                            mine_gone == _strip_own(body, keys, in_status, hid, markers)
                            and other.progress.fetch(key='fn', body=bodies.Body(stored)) == other.progress.fetch(key='fn', body=view),
                            lambda: dict(ctx, before=body, after=purged))
                    # -- either key version alone is enough
                    if keys and len(keys) > 1:
                        ok = True
                        for k in keys:
                            only = copy.deepcopy(stored)
                            for k2 in keys - {k}:
                                only['metadata']['annotations'].pop(k2, None)
                            if in_status:
                                only = _strip_own(only, set(), True, hid, set())
                            g = st.fetch(key=hid, body=bodies.Body(only))
                            ok = ok and g is not None and _no_nones(g) == _no_nones(record)
                        b.check('either_version_read', ok and v1 is True, lambda: dict(ctx, keys=sorted(keys)))
                    elif keys:
                        b.check('either_version_read', all(k in stored['metadata']['annotations'] for k in keys), lambda: dict(ctx, keys=sorted(keys)))
            # -- colliding ids (documented as F-C16-2): one id's record must not be visible as the other's
            if pk != 'status':
                for id1, id2 in E5_COLLIDING:
                    b.case(key=(sname, bname, id1, id2))
                    stored, _ = apply(body, lambda bd, p: st.store(key=id1, record=dict(records[1]), body=bd, patch=p))
                    leaked = st.fetch(key=id2, body=bodies.Body(stored))
                    b.check('isolation_other_ids', leaked is None, lambda: dict(storage=sname, stored_for=id1, fetched_for=id2, got=leaked), excuse=F2)
            # -- touch
            b.case(key=(sname, bname, 'touch'))
            with_rec, _ = apply(body, lambda bd, p: st.store(key='fn', record=dict(records[1]), body=bd, patch=p))
            touched, twire = apply(with_rec, lambda bd, p: st.touch(body=bd, patch=p, value='2020-01-01T00:00:00'))
            _, again = apply(touched, lambda bd, p: st.touch(body=bd, patch=p, value='2020-01-01T00:00:00'))
            untouched, uwire = apply(touched, lambda bd, p: st.touch(body=bd, patch=p, value=None))
            _, again_none = apply(untouched, lambda bd, p: st.touch(body=bd, patch=p, value=None))
            same_rec = st.fetch(key='fn', body=bodies.Body(touched)) == st.fetch(key='fn', body=bodies.Body(with_rec)) == st.fetch(key='fn', body=bodies.Body(untouched))
            restored = bname in ('user-data', 'shared-with-other-operator') and pk in ('status', 'multi') \
                or _strip_own(untouched, set(), False, '', markers) == _strip_own(with_rec, set(), False, '', markers)
            b.check('touch', twire != {} and again == {} and again_none == {} and same_rec and restored,
                    lambda: dict(storage=sname, body=bname, touch_patch=twire, second=again, untouch_patch=uwire))
        # -- ReplicaSet owned by a Deployment (annotation storages only)
        if pk != 'status':
            rs = dict(_e5_bodies(other.progress))['replicaset-of-deployment']
            deployment = {'apiVersion': 'apps/v1', 'kind': 'Deployment', 'metadata': {'name': 'd', 'namespace': 'ns'}, 'spec': {}}
            for hid in E5_IDS[:6]:
                b.case(key=(sname, 'rs', hid))
                dep_stored, _ = apply(deployment, lambda bd, p: st.store(key=hid, record=dict(records[1]), body=bd, patch=p))
                propagated = apply_merge_patch(rs, {'metadata': {'annotations': dep_stored['metadata']['annotations']}})   # what Kubernetes copies down
                not_read = st.fetch(key=hid, body=bodies.Body(propagated)) is None
                rs_stored, _ = apply(propagated, lambda bd, p: st.store(key=hid, record=dict(records[2]), body=bd, patch=p))
                kept = all(rs_stored['metadata']['annotations'].get(k) == v for k, v in dep_stored['metadata']['annotations'].items())
                own = st.fetch(key=hid, body=bodies.Body(rs_stored))
                b.check('replicaset_marking', not_read and kept and own is not None and _no_nones(own) == _no_nones(records[2]),
                        lambda: dict(storage=sname, id=hid, propagated_read_as_own=not not_read, deployment_annotations_kept=kept, own=own))
    # ---- diff-base storages
    essences = [{'spec': {'x': 1}}, {}, {'spec': {'s': 'ü∂ "q"\n', 'n': None, 'l': [1, {'a': None}], 'f': 1.5, 't': True}, 'metadata': {'labels': {'a': 'b'}}},
                {'spec': {'big': 'x' * 5000}}]
    dstorages = [('status', make_config('status', 'status', PREFIXES[0], True).diffbase)]
    for dk in ('annotations', 'multi'):
        for prefix in PREFIXES:
            for v1 in (True, False):
                dstorages.append((f'{dk}[{prefix},v1={v1}]', make_config('status', dk, prefix, v1).diffbase))
    for dname, ds in dstorages:
        other = make_config('annotations', 'annotations', PREFIXES[1] if PREFIXES[1] not in dname else PREFIXES[0], True)
        for bname, body in _e5_bodies(other.progress):
            for ei, ess in enumerate(essences):
                b.case(key=(dname, bname, ei))
                stored, wire = apply(body, lambda bd, p: ds.store(body=bd, patch=p, essence=copy.deepcopy(ess)))
                got = ds.fetch(body=bodies.Body(stored))
                b.check('diffbase_round_trip', got == ess and ds.fetch(body=bodies.Body(body)) is None,
                        lambda: dict(storage=dname, body=bname, essence=ess, fetched=got))
