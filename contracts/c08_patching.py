"""Contracts for the delivery of accumulated patches: patching.patch_obj (A3 request sequence, A4 identity
binding), application.apply (A1 no lost re-trigger) and application.patch_and_check (A2 returned version)."""
from pyvc import *
from pyvc.stubs import Opaque, NullLogger, Clock, StubEvent, make_sleep
from kopf._cogs.clients import errors
from kopf._cogs.structs import bodies, patches, references

MERGE = 'application/merge-patch+json'
JSONP = 'application/json-patch+json'
NS, NAME = 'ns1', 'obj1'            # the code only passes them through (to get_url); concrete on purpose
IDENTITY_FIELDS = ('uid', 'resourceVersion')


# ------------------------------------------------------------------------------------------ spec helpers
def same_tree(a, b):
    """Deep equality of two JSON-ish trees whose leaves are compared by identity (no forks on proxies)."""
    if a is b:
        return True
    if isinstance(a, dict) and isinstance(b, dict) and not isinstance(a, SV) and not isinstance(b, SV):
        return a.keys() == b.keys() and all(same_tree(a[k], b[k]) for k in a)
    if isinstance(a, list) and isinstance(b, list) and not isinstance(a, SV) and not isinstance(b, SV):
        return len(a) == len(b) and all(same_tree(x, y) for x, y in zip(a, b))
    return False


def without_identity(payload):
    """A merge-patch payload minus the identity preconditions a (fixed) client may add: metadata.uid/resourceVersion."""
    if not isinstance(payload, dict):
        return payload
    p = dict(payload)
    md = p.get('metadata')
    if isinstance(md, dict) and any(k in md for k in IDENTITY_FIELDS):
        md = {k: v for k, v in md.items() if k not in IDENTITY_FIELDS}
        if md:
            p['metadata'] = md
        else:
            del p['metadata']
    return p


def rv_of(body):
    """metadata.resourceVersion of a Body / raw dict (None if absent)."""
    if body is None:
        return None
    return (body.get('metadata') or {}).get('resourceVersion')


def under_status(path):
    """JSON-pointer `path` addresses the status stanza or something inside it."""
    return Or(Eq(path, '/status'), path.startswith('/status/'))


class Req:
    """One entry of the ghost request trace."""
    def __init__(self, no, kind, ctype, payload, seq):
        self.no, self.kind, self.ctype, self.payload, self.seq = no, kind, ctype, payload, seq
        self.items = list(payload) if isinstance(payload, list) else dict(payload) if isinstance(payload, dict) else payload
        self.outcome = None         # 'ok' | '404' | '422' | 'error'
        self.response = None

    def __repr__(self):
        return f'<req#{self.no} {self.kind} {self.ctype} {self.outcome}>'


class Scenario:
    pass


def patch_obj_scenario(vc, *, op_counts=(0, 2), silent=False):
    """
    Runs the real patch_obj on: a resource with/without the status subresource; a patch whose non-status
    part is empty or not, whose status is absent / None / non-empty, with no or two transformation
    fns; against an API that answers every request with a fresh object, 404, 422 or another error.
    """
    s = Scenario()
    s.as_sub = vc.nondet(2, 'status subresource?') == 1
    s.resource = references.Resource(group='kopf.dev', version='v1', plural='kopfexamples', namespaced=True,
                                     subresources=frozenset({'status', 'scale'}) if s.as_sub else frozenset({'scale'}))
    s.url_main = s.resource.get_url(namespace=NS, name=NAME)
    s.url_status = s.resource.get_url(namespace=NS, name=NAME, subresource='status')
    s.uid0, s.rv0 = vc.str('uid0'), vc.str('rv0')
    s.raw0 = {'metadata': {'namespace': NS, 'name': NAME, 'uid': s.uid0, 'resourceVersion': s.rv0},
              'spec': {'x': vc.str('spec.x')}, 'status': {'y': vc.str('status.y')}}
    s.content = {}
    if vc.nondet(2, 'non-status part of the patch: empty / non-empty') == 1:
        s.content['metadata'] = {'annotations': {'a': vc.str('patch.ann')}}
        s.content['spec'] = {'x': vc.str('patch.spec.x')}
    sk = vc.nondet(3, 'patch status: absent / None (delete it) / non-empty')
    if sk:
        s.content['status'] = [None, {'y': vc.str('patch.status.y')}][sk - 1]
    s.fns = [Opaque('fn1'), Opaque('fn2')] if vc.nondet(2, 'transformation fns: none / two') == 1 else []
    # precondition (call sites: processing.process_resource_event, daemons._daemon/_timer build
    # Patch(remaining, body=body); peering/admission pass fns-less patches without a body):
    #   patch.fns non-empty  ==>  patch._original is the body the patch was computed for
    has_original = True if s.fns else vc.nondet(2, 'patch has its original body?') == 1
    s.original = bodies.Body(s.raw0) if has_original else None
    s.reqs, s.calls = [], []

    class ContractPatch(patches.Patch):
        """patches.Patch with as_json_patch replaced by its contract (A5): no changes -> no ops; a reference
        body is mandatory; otherwise an arbitrary list of ops, a function of (dict part, fns, reference body)."""
        def as_json_patch(self, body=None):
            base = body if body is not None else self._original
            if not self:
                return []
            if base is None:
                raise ValueError('Cannot build a JSON-patch without the original body as a reference.')
            n = op_counts[vc.nondet(len(op_counts), 'number of ops')]
            ops = [patches.JSONPatchItem(op='add', path=vc.str('op.path'), value=Opaque(f'op{i}.value')) for i in range(n)]
            s.calls.append(Opaque('as_json_patch', receiver=self, base=base, ops=ops, items=list(ops), seq=len(vc.trace)))
            vc.emit('as_json_patch', self, base, ops)
            return ops
    vc.used('patches.Patch.as_json_patch', 'A5')
    s.patch = ContractPatch(s.content, body=s.original, fns=s.fns)
    s.patch_before = dict(s.patch)
    s.settings, s.logger = Opaque('settings'), NullLogger()

    async def api_patch(url, *, settings, payload=None, headers=None, timeout=None, logger):
        kind = 'main' if url == s.url_main else 'status' if url == s.url_status else 'other'
        r = Req(len(s.reqs), kind, (headers or {}).get('Content-Type'), payload, len(vc.trace))
        s.reqs.append(r)
        vc.emit('request', r)
        await suspend('api.patch')
        k = vc.nondet(4, 'response: object / 404 / 422 / other error')
        r.outcome = ['ok', '404', '422', 'error'][k]
        if k == 0:
            # server contract: a successful PATCH returns the whole stored object, with its resourceVersion
            r.response = {'metadata': {'namespace': NS, 'name': NAME, 'uid': vc.str('uid'), 'resourceVersion': vc.str('rv')},
                          'spec': {}, 'status': {}}
            return r.response
        if k == 1:
            raise errors.APINotFoundError(None, status=404, headers={})
        if k == 2:
            raise errors.APIUnprocessableEntityError(None, status=422, headers={})
        raise errors.APIServerError(None, status=500, headers={})
    vc.used('api.patch', 'N2')
    ld = vc.load('kopf._cogs.clients.patching', 'patch_obj', stubs={'api.patch': api_patch, 'patches.Patch': ContractPatch})
    kw = dict(settings=s.settings, resource=s.resource, namespace=NS, name=NAME, patch=s.patch, logger=s.logger)
    s.raised, s.result = None, None
    try:
        s.result = vc.drive(ld.fn(silent=silent, **kw))
    except errors.APIError as e:
        s.raised = e
    s.merges = [r for r in s.reqs if r.ctype == MERGE]
    s.jsons = [r for r in s.reqs if r.ctype == JSONP]
    s.failed = [r for r in s.reqs if r.outcome != 'ok']
    s.oks = [r for r in s.reqs if r.outcome == 'ok']
    s.returned_pair = s.raised is None and isinstance(s.result, tuple) and len(s.result) == 2
    return s


def fresh_state_before(s, seq):
    """The freshest state of the object known to the client at trace position `seq`:
    the response of the last successful request, else the body the patch was computed for."""
    prior = [r for r in s.oks if r.seq < seq]
    return prior[-1].response if prior else s.original


@harness('A3', targets='kopf._cogs.clients.patching.patch_obj', props=['C08', 'C06'],
         clauses=['addressing', 'merge_patches_complete', 'merge_before_json_and_stop_on_failure',
                  'ops_of_all_fns_on_freshest_body', 'ops_routed_completely', 'version_test_guards_ops',
                  'conflict_carries_all_fns', 'success_drops_fns', 'not_found_is_silent', 'returns_last_response',
                  'patch_not_consumed'],
         canaries=['canary.never_conflicts', 'canary.always_sends', 'canary.never_json_patches'],
         trusted=['api.patch (-> N2/N1): sends one PATCH; returns the stored object (with metadata.resourceVersion) or raises an APIError subclass by status',
                  'patches.Patch.as_json_patch by contract A5 (bounded): [] for an empty patch, ValueError without a reference body, else ops computed from (dict part, fns, reference body)',
                  'references.Resource.get_url runs natively on concrete namespace/name'])
def A3(vc):
    """
    patch_obj over the ghost request trace. Every request addresses the named object (main URL or its
    status subresource). Merge-patches: the non-status part goes to the main URL iff non-empty, the status
    goes through the status subresource exactly when the resource has one (else it stays in the main
    payload) -- each at most once, all before any JSON-patch, nothing after a failed request. JSON-patches:
    ops are computed by as_json_patch from ALL patch.fns (and nothing else) on the freshest known body,
    routed by the /status prefix iff subresource, each op delivered exactly once in order, every
    JSON-patch request led by `test /metadata/resourceVersion == version of the state the ops are valid
    for` (the body they were computed from, or the response to the sibling JSON-patch). 422 in a
    JSON-patch request: returns a remaining patch with all fns and no fields, no later request; full
    success: no remaining patch. 404 anywhere: (None, None), silently. The first result is the last
    successful response. Payload comparisons ignore metadata.uid/resourceVersion preconditions.
    """
    s = patch_obj_scenario(vc)
    content, as_sub = s.content, s.as_sub
    # ---- addressing
    for r in s.reqs:
        vc.ensure('addressing', r.kind in ('main', 'status') and (r.kind == 'main' or as_sub) and r.ctype in (MERGE, JSONP))
    # ---- merge-patches: complete, through the right endpoint, once
    exp = {'main': {k: v for k, v in content.items() if not (as_sub and k == 'status')}}
    if as_sub and 'status' in content:
        exp['status'] = {'status': content['status']}
    if not exp['main']:
        del exp['main']
    sent = [r.kind for r in s.merges]
    vc.ensure('merge_patches_complete', len(set(sent)) == len(sent))
    for r in s.merges:
        vc.ensure('merge_patches_complete', r.kind in exp and same_tree(without_identity(r.items), exp[r.kind]))
    merges_passed = not any(r in s.failed for r in s.merges)
    if merges_passed:
        vc.ensure('merge_patches_complete', set(sent) == set(exp),
                  excuse={'F-C08-2': as_sub and 'status' in content and content['status'] is None
                          and set(sent) == set(exp) - {'status'}})
    # ---- order; a failure ends the sequence
    vc.ensure('merge_before_json_and_stop_on_failure', all(m.seq < j.seq for m in s.merges for j in s.jsons))
    vc.ensure('merge_before_json_and_stop_on_failure', len(s.failed) <= 1 and all(f is s.reqs[-1] for f in s.failed))
    vc.ensure('merge_before_json_and_stop_on_failure', len(set(j.kind for j in s.jsons)) == len(s.jsons))
    # ---- JSON-patches
    if merges_passed and s.fns:
        vc.ensure('ops_of_all_fns_on_freshest_body', len(s.calls) >= 1)
    for j in s.jsons:
        calls = [c for c in s.calls if c.seq < j.seq]
        vc.ensure('ops_of_all_fns_on_freshest_body', len(calls) >= 1)
        if not calls:
            continue
        c = calls[-1]
        rcv = c.receiver
        vc.ensure('ops_of_all_fns_on_freshest_body',
                  len(rcv.fns) == len(s.fns) and all(a is b for a, b in zip(rcv.fns, s.fns)) and len(dict(rcv)) == 0)
        vc.ensure('ops_of_all_fns_on_freshest_body', c.base is fresh_state_before(s, c.seq))
        payload = j.items
        wf = (isinstance(payload, list) and len(payload) >= 2 and all(isinstance(o, dict) for o in payload)
              and payload[0].get('op') == 'test' and payload[0].get('path') == '/metadata/resourceVersion')
        vc.ensure('version_test_guards_ops', wf)
        if not wf:
            continue
        # routing: an op is in this request iff it belongs to this endpoint; order and multiplicity kept
        pos = [[i for i, o in enumerate(c.items) if o is p] for p in payload[1:]]
        vc.ensure('ops_routed_completely', all(len(x) == 1 for x in pos) and [x[0] for x in pos] == sorted(set(x[0] for x in pos if x)))
        for o in c.items:
            to_status = And(as_sub, under_status(o['path']))
            here = any(p is o for p in payload[1:])
            vc.ensure('ops_routed_completely', Iff(here, to_status if j.kind == 'status' else Not(to_status)))
        # the guard: the version of the state these ops are valid for
        prior = [r for r in s.oks if r.seq < j.seq]
        sibling = prior and prior[-1].ctype == JSONP and prior[-1].seq > c.seq
        guarded_state = prior[-1].response if sibling else c.base
        vc.ensure('version_test_guards_ops', Eq(payload[0].get('value'), rv_of(guarded_state)))
        if not sibling:
            vc.ensure('version_test_guards_ops', not any(c.seq < r.seq < j.seq for r in s.reqs))
    if not s.failed and s.raised is None and s.calls:
        # everything went through: every op was delivered (exactly once by the clauses above)
        for o in s.calls[-1].items:
            vc.ensure('ops_routed_completely', sum(1 for j in s.jsons for p in j.items[1:] if p is o) == 1)
    # ---- outcomes
    conflict = [r for r in s.jsons if r.outcome == '422']
    if conflict:
        ok = s.returned_pair and isinstance(s.result[1], patches.Patch)
        vc.ensure('conflict_carries_all_fns', ok)
        if ok:
            rem = s.result[1]
            vc.ensure('conflict_carries_all_fns', len(rem.fns) == len(s.fns) and all(a is b for a, b in zip(rem.fns, s.fns)))
            vc.ensure('conflict_carries_all_fns', len(dict(rem)) == 0)
    if not s.failed and s.raised is None:
        vc.ensure('success_drops_fns', s.returned_pair and not s.result[1])
    if any(r.outcome == '404' for r in s.reqs):
        vc.ensure('not_found_is_silent', s.returned_pair and s.result[0] is None and s.result[1] is None)
    elif s.raised is None:
        vc.ensure('returns_last_response', s.returned_pair and s.result[0] is (s.oks[-1].response if s.oks else None))
    vc.ensure('patch_not_consumed', same_tree(dict(s.patch), s.patch_before) and len(s.patch.fns) == len(s.fns)
              and all(a is b for a, b in zip(s.patch.fns, s.fns)))
    vc.canary('canary.never_conflicts', s.returned_pair and s.result[1] is None)
    vc.canary('canary.always_sends', len(s.reqs) >= 1)
    vc.canary('canary.never_json_patches', not s.jsons)
    return ('raise', type(s.raised).__name__) if s.raised is not None else \
        ('return', s.result[0] is None, s.result[1] is None, [(r.kind, r.ctype, r.outcome) for r in s.reqs])


def identity_bound(s, r, bound_oks):
    """The request carries a precondition that ties it to the object the patch was computed for: the uid
    of that object, or the resourceVersion of a state of it (the original body or the response to an
    earlier request that was itself bound)."""
    if s.original is None:
        return False
    versions = [s.rv0] + [rv_of(b.response) for b in bound_oks]
    alts = []
    if r.ctype == MERGE and isinstance(r.items, dict):
        md = r.items.get('metadata')
        if isinstance(md, dict) and not isinstance(md, SV):
            if 'uid' in md:
                alts.append(Eq(md['uid'], s.uid0))
            if 'resourceVersion' in md:
                alts.extend(Eq(md['resourceVersion'], v) for v in versions)
    if r.ctype == JSONP and isinstance(r.items, list):
        for o in r.items:
            if isinstance(o, dict) and o.get('op') == 'test':
                if o.get('path') == '/metadata/uid':
                    alts.append(Eq(o.get('value'), s.uid0))
                if o.get('path') == '/metadata/resourceVersion':
                    alts.extend(Eq(o.get('value'), v) for v in versions)
    return Or(*alts) if alts else False


@harness('A4', targets='kopf._cogs.clients.patching.patch_obj', props=['C08'],
         clauses=['bound_to_identity'], canaries=['canary.only_json_patches'],
         trusted=['api.patch / as_json_patch / get_url as in A3',
                  'server: a PATCH whose payload states metadata.uid or metadata.resourceVersion (merge-patch) or tests them (JSON-patch) is rejected when they differ'])
def A4(vc):
    """
    "Only ever lands on the object it was computed for, never on a later object that reuses its name":
    every request patch_obj sends for a patch computed from a body must carry that object's identity
    as a precondition -- metadata.uid of the body, or a resourceVersion of the body or of the response
    to an earlier identity-bound request. (Requests address objects by namespace/name only.)
    """
    s = patch_obj_scenario(vc, op_counts=(0, 1), silent=vc.nondet(2, 'silent?') == 1)
    vc.canary('canary.only_json_patches', not s.merges)
    if s.original is None:
        return ('no-original', len(s.reqs))
    bound_oks = []
    merge_seen = False
    for r in s.reqs:
        merge_seen = merge_seen or r.ctype == MERGE
        b = identity_bound(s, r, bound_oks)
        # F-C08-1: merge-patch requests carry no identity at all; a JSON-patch after one is tied only to
        # whatever object the merge-patch happened to land on.
        vc.ensure('bound_to_identity', b, excuse={'F-C08-1': merge_seen})
        if r.outcome == 'ok' and (b is True or (isinstance(b, SV) and vc_proved(vc, b))):
            bound_oks.append(r)
    return ('return', [(r.kind, r.ctype, r.outcome) for r in s.reqs])


def vc_proved(vc, cond):
    """True iff `cond` is implied by the current path condition (harness-side query, no fork)."""
    import z3
    eng = vc.eng
    if eng.mode != 'sym':
        return bool(cond)
    return eng._check(z3.Not(cond.term)) == z3.unsat
