"""Contracts for the delivery of accumulated patches: patching.patch_obj (A3 request sequence, A4 identity
binding), application.apply (A1 no lost re-trigger) and application.patch_and_check (A2 returned version).

Known findings on the unchanged tree (native reproductions in /verif/findings, listed in
/verif/known_findings.d/c08.json): F-C08-1 (A4: merge-patches carry no identity precondition),
F-C08-2 (A3: `status: None` is dropped when status is a subresource), F-C03-1 (A1: a truthy patch that
sends no request swallows a pending delay).
D6 (patch carry-over in daemons._daemon/_timer) lives in c10_timers.py (clause patch_carried_over)."""
from pyvc import *
from pyvc.stubs import Opaque, NullLogger, Clock, StubEvent, make_sleep
from kopf._cogs.clients import errors
from kopf._cogs.structs import bodies, patches, references

MERGE = 'application/merge-patch+json'
JSONP = 'application/json-patch+json'
NS, NAME = 'ns1', 'obj1'            # the code only passes them through (to get_url); concrete on purpose
IDENTITY_FIELDS = ('uid', 'resourceVersion')


# ------------------------------------------------------------------------------------------ spec helpers
def same_tree(a, b):
    """Deep equality of two JSON-ish trees whose leaves are compared by identity (no forks on proxies)."""
    if a is b:
        return True
    if isinstance(a, dict) and isinstance(b, dict) and not isinstance(a, SV) and not isinstance(b, SV):
        return a.keys() == b.keys() and all(same_tree(a[k], b[k]) for k in a)
    if isinstance(a, list) and isinstance(b, list) and not isinstance(a, SV) and not isinstance(b, SV):
        return len(a) == len(b) and all(same_tree(x, y) for x, y in zip(a, b))
    return False


def without_identity(payload):
    """A merge-patch payload minus the identity preconditions a (fixed) client may add: metadata.uid/resourceVersion."""
    if not isinstance(payload, dict):
        return payload
    p = dict(payload)
    md = p.get('metadata')
    if isinstance(md, dict) and any(k in md for k in IDENTITY_FIELDS):
        md = {k: v for k, v in md.items() if k not in IDENTITY_FIELDS}
        if md:
            p['metadata'] = md
        else:
            del p['metadata']
    return p


def rv_of(body):
    """metadata.resourceVersion of a Body / raw dict (None if absent)."""
    if body is None:
        return None
    return (body.get('metadata') or {}).get('resourceVersion')


def under_status(path):
    """JSON-pointer `path` addresses the status stanza or something inside it."""
    return Or(Eq(path, '/status'), path.startswith('/status/'))


class OpPath:
    """
    The `path` of a JSON-patch op: an arbitrary symbolic string `s`. The two questions the routing asks
    (== '/status', .startswith('/status/')) are answered from a three-way case split made on first use --
    s == '/status' | s starts with '/status/' | neither -- under which `s` is constrained accordingly, so
    one solver call per op replaces one per evaluation. The split is a partition of all strings; every
    other question is delegated to the constrained symbolic string itself.
    """
    CLASSES = ('exact', 'inside', 'elsewhere')

    def __init__(self, vc, s):
        self.vc, self.s, self.cls = vc, s, None

    def _class(self):
        if self.cls is None:
            self.cls = self.CLASSES[self.vc.nondet(3, "op path: '/status' | '/status/...' | elsewhere")]
            exact, inside = Eq(self.s, '/status'), self.s.startswith('/status/')
            self.vc.assume({'exact': exact, 'inside': inside, 'elsewhere': And(Not(exact), Not(inside))}[self.cls], 'op path class')
        return self.cls

    def __eq__(self, other):
        if isinstance(other, str) and other == '/status':
            return self._class() == 'exact'
        return self.s == other

    def __ne__(self, other):
        r = self.__eq__(other)
        return (not r) if isinstance(r, bool) else Not(r)

    __hash__ = None

    def startswith(self, prefix):
        if isinstance(prefix, str) and prefix == '/status/':
            return self._class() == 'inside'
        return self.s.startswith(prefix)

    def __getattr__(self, name):
        return getattr(self.s, name)

    def __repr__(self):
        return '<op-path>'


class Req:
    """One entry of the ghost request trace."""
    def __init__(self, no, kind, ctype, payload, seq):
        self.no, self.kind, self.ctype, self.payload, self.seq = no, kind, ctype, payload, seq
        self.items = list(payload) if isinstance(payload, list) else dict(payload) if isinstance(payload, dict) else payload
        self.outcome = None         # 'ok' | '404' | '422' | 'error'
        self.response = None
        self.error = None

    def __repr__(self):
        return f'<req#{self.no} {self.kind} {self.ctype} {self.outcome}>'


class Scenario:
    pass


def patch_obj_scenario(vc, *, op_counts=(0, 2), silent=False):
    """
    Runs the real patch_obj on: a resource with/without the status subresource; a patch whose non-status
    part is empty or not, whose status is absent / None / non-empty, with no or two transformation
    fns; against an API that answers every request with a fresh object, 404, 422 or another error.
    """
    s = Scenario()
    s.as_sub = vc.nondet(2, 'status subresource?') == 1
    s.resource = references.Resource(group='kopf.dev', version='v1', plural='kopfexamples', namespaced=True,
                                     subresources=frozenset({'status', 'scale'}) if s.as_sub else frozenset({'scale'}))
    s.url_main = s.resource.get_url(namespace=NS, name=NAME)
    s.url_status = s.resource.get_url(namespace=NS, name=NAME, subresource='status')
    s.uid0, s.rv0 = vc.str('uid0'), vc.str('rv0')
    s.raw0 = {'metadata': {'namespace': NS, 'name': NAME, 'uid': s.uid0, 'resourceVersion': s.rv0},
              'spec': {'x': vc.str('spec.x')}, 'status': {'y': vc.str('status.y')}}
    s.content = {}
    if vc.nondet(2, 'non-status part of the patch: empty / non-empty') == 1:
        s.content['metadata'] = {'annotations': {'a': vc.str('patch.ann')}}
        s.content['spec'] = {'x': vc.str('patch.spec.x')}
    sk = vc.nondet(3, 'patch status: absent / None (delete it) / non-empty')
    if sk:
        s.content['status'] = [None, {'y': vc.str('patch.status.y')}][sk - 1]
    s.fns = [Opaque('fn1'), Opaque('fn2')] if vc.nondet(2, 'transformation fns: none / two') == 1 else []
    # precondition (call sites: processing.process_resource_event, daemons._daemon/_timer build
    # Patch(remaining, body=body); peering/admission pass fns-less patches without a body):
    #   patch.fns non-empty  ==>  patch._original is the body the patch was computed for
    has_original = True if s.fns else vc.nondet(2, 'patch has its original body?') == 1
    s.original = bodies.Body(s.raw0) if has_original else None
    s.reqs, s.calls = [], []

    class ContractPatch(patches.Patch):
        """patches.Patch with as_json_patch replaced by its contract (A5): no changes -> no ops; a reference
        body is mandatory; otherwise an arbitrary list of ops, a function of (dict part, fns, reference body)."""
        def as_json_patch(self, body=None):
            base = body if body is not None else self._original
            if not self:
                return []
            if base is None:
                raise ValueError('Cannot build a JSON-patch without the original body as a reference.')
            n = op_counts[vc.nondet(len(op_counts), 'number of ops')]
            ops = [patches.JSONPatchItem(op='add', path=OpPath(vc, vc.str('op.path')), value=Opaque(f'op{i}.value')) for i in range(n)]
            s.calls.append(Opaque('as_json_patch', receiver=self, base=base, ops=ops, items=list(ops), seq=len(vc.trace)))
            vc.emit('as_json_patch', self, base, ops)
            return ops
    vc.used('patches.Patch.as_json_patch', 'A5j (deductive) + A5 (bounded, the real jsonpatch)')
    s.patch = ContractPatch(s.content, body=s.original, fns=s.fns)
    s.patch_before = dict(s.patch)
    s.settings, s.logger = Opaque('settings'), NullLogger()

    async def api_patch(url, *, settings, payload=None, headers=None, timeout=None, logger):
        kind = 'main' if url == s.url_main else 'status' if url == s.url_status else 'other'
        r = Req(len(s.reqs), kind, (headers or {}).get('Content-Type'), payload, len(vc.trace))
        s.reqs.append(r)
        vc.emit('request', r)
        await suspend('api.patch')
        k = vc.nondet(4, 'response: object / 404 / 422 / other error')
        r.outcome = ['ok', '404', '422', 'error'][k]
        if k == 0:
            # server contract: a successful PATCH returns the whole stored object, with its resourceVersion
            r.response = {'metadata': {'namespace': NS, 'name': NAME, 'uid': vc.str('uid'), 'resourceVersion': vc.str('rv')},
                          'spec': {}, 'status': {}}
            return r.response
        r.error = [errors.APINotFoundError, errors.APIUnprocessableEntityError, errors.APIServerError][k - 1](
            None, status=[404, 422, 500][k - 1], headers={})
        raise r.error
    vc.used('api.patch', 'N2')
    ld = vc.load('kopf._cogs.clients.patching', 'patch_obj', stubs={'api.patch': api_patch, 'patches.Patch': ContractPatch})
    kw = dict(settings=s.settings, resource=s.resource, namespace=NS, name=NAME, patch=s.patch, logger=s.logger)
    s.raised, s.result = None, None
    try:
        s.result = vc.drive(ld.fn(silent=silent, **kw))
    except Unsupported:
        raise
    except Exception as e:
        s.raised = e
    s.merges = [r for r in s.reqs if r.ctype == MERGE]
    s.jsons = [r for r in s.reqs if r.ctype == JSONP]
    s.failed = [r for r in s.reqs if r.outcome != 'ok']
    s.oks = [r for r in s.reqs if r.outcome == 'ok']
    s.returned_pair = s.raised is None and isinstance(s.result, tuple) and len(s.result) == 2
    return s


def fresh_state_before(s, seq):
    """The freshest state of the object known to the client at trace position `seq`:
    the response of the last successful request, else the body the patch was computed for."""
    prior = [r for r in s.oks if r.seq < seq]
    return prior[-1].response if prior else s.original


@harness('A3', targets='kopf._cogs.clients.patching.patch_obj', props=['C08', 'C06', 'C03', 'C12', 'C13', 'C16', 'C02', 'C20', 'C05', 'C07', 'C09', 'C11', 'C14'],
         prop_clauses={'C20': ['merge_patches_complete'], 'C05': ['addressing', 'merge_patches_complete', 'returns_last_response'], 'C07': ['returns_last_response'], 'C09': ['addressing', 'merge_patches_complete'], 'C11': ['addressing', 'merge_patches_complete', 'returns_last_response'], 'C14': ['addressing', 'merge_patches_complete', 'returns_last_response']},
         clauses=['addressing', 'merge_patches_complete', 'merge_before_json_and_stop_on_failure',
                  'ops_of_all_fns_on_freshest_body', 'ops_routed_completely', 'version_test_guards_ops',
                  'conflict_carries_all_fns', 'success_drops_fns', 'not_found_is_silent', 'other_failures_escape',
                  'returns_last_response', 'patch_not_consumed'],
         canaries=['canary.never_conflicts', 'canary.always_sends', 'canary.never_json_patches'],
         trusted=['api.patch (-> N2/N1): sends one PATCH; returns the stored object (with metadata.resourceVersion) or raises an APIError subclass by status',
                  'patches.Patch.as_json_patch by contract A5 (bounded): [] for an empty patch, ValueError without a reference body, else ops computed from (dict part, fns, reference body)',
                  'references.Resource.get_url runs natively on concrete namespace/name'])
def A3(vc):
    """
    patch_obj over the ghost request trace. Every request addresses the named object (main URL or its
    status subresource). Merge-patches: the non-status part goes to the main URL iff non-empty, the status
    goes through the status subresource exactly when the resource has one (else it stays in the main
    payload) -- each at most once, all before any JSON-patch, nothing after a failed request. JSON-patches:
    ops are computed by as_json_patch from ALL patch.fns (and nothing else) on the freshest known body,
    routed by the /status prefix iff subresource, each op delivered exactly once in order, every
    JSON-patch request led by `test /metadata/resourceVersion == version of the state the ops are valid
    for` (the body they were computed from, or the response to the sibling JSON-patch). 422 in a
    JSON-patch request: returns a remaining patch with all fns and no fields, no later request; full
    success: no remaining patch. 404 anywhere: (None, None), silently. Any other failed request (incl. 422
    on a merge-patch) escapes as the API's own error -- nothing is swallowed, nothing else is raised. The
    first result is the last successful response. Payload comparisons ignore metadata.uid/resourceVersion
    preconditions.
    """
    s = patch_obj_scenario(vc)
    content, as_sub = s.content, s.as_sub
    # ---- addressing
    for r in s.reqs:
        vc.ensure('addressing', r.kind in ('main', 'status') and (r.kind == 'main' or as_sub) and r.ctype in (MERGE, JSONP))
    # ---- merge-patches: complete, through the right endpoint, once
    exp = {'main': {k: v for k, v in content.items() if not (as_sub and k == 'status')}}
    if as_sub and 'status' in content:
        exp['status'] = {'status': content['status']}
    if not exp['main']:
        del exp['main']
    sent = [r.kind for r in s.merges]
    vc.ensure('merge_patches_complete', len(set(sent)) == len(sent))
    for r in s.merges:
        vc.ensure('merge_patches_complete', r.kind in exp and same_tree(without_identity(r.items), exp[r.kind]))
    merges_passed = not any(r in s.failed for r in s.merges)
    if merges_passed:
        vc.ensure('merge_patches_complete', set(sent) == set(exp),
                  excuse={'F-C08-2': as_sub and 'status' in content and content['status'] is None
                          and set(sent) == set(exp) - {'status'}})
    # ---- order; a failure ends the sequence
    vc.ensure('merge_before_json_and_stop_on_failure', all(m.seq < j.seq for m in s.merges for j in s.jsons))
    vc.ensure('merge_before_json_and_stop_on_failure', len(s.failed) <= 1 and all(f is s.reqs[-1] for f in s.failed))
    vc.ensure('merge_before_json_and_stop_on_failure', len(set(j.kind for j in s.jsons)) == len(s.jsons))
    # ---- JSON-patches
    if merges_passed and s.fns:
        vc.ensure('ops_of_all_fns_on_freshest_body', len(s.calls) >= 1)
    for j in s.jsons:
        calls = [c for c in s.calls if c.seq < j.seq]
        vc.ensure('ops_of_all_fns_on_freshest_body', len(calls) >= 1)
        if not calls:
            continue
        c = calls[-1]
        rcv = c.receiver
        vc.ensure('ops_of_all_fns_on_freshest_body',
                  len(rcv.fns) == len(s.fns) and all(a is b for a, b in zip(rcv.fns, s.fns)) and len(dict(rcv)) == 0)
        vc.ensure('ops_of_all_fns_on_freshest_body', c.base is fresh_state_before(s, c.seq))
        payload = j.items
        wf = (isinstance(payload, list) and len(payload) >= 2 and all(isinstance(o, dict) for o in payload)
              and payload[0].get('op') == 'test' and payload[0].get('path') == '/metadata/resourceVersion')
        vc.ensure('version_test_guards_ops', wf)
        if not wf:
            continue
        # routing: an op is in this request iff it belongs to this endpoint; order and multiplicity kept
        pos = [[i for i, o in enumerate(c.items) if o is p] for p in payload[1:]]
        vc.ensure('ops_routed_completely', all(len(x) == 1 for x in pos) and [x[0] for x in pos] == sorted(set(x[0] for x in pos if x)))
        for o in c.items:
            to_status = And(as_sub, under_status(o['path'].s))
            here = any(p is o for p in payload[1:])
            vc.ensure('ops_routed_completely', Iff(here, to_status if j.kind == 'status' else Not(to_status)))
        # the guard: the version of the state these ops are valid for
        prior = [r for r in s.oks if r.seq < j.seq]
        sibling = prior and prior[-1].ctype == JSONP and prior[-1].seq > c.seq
        guarded_state = prior[-1].response if sibling else c.base
        vc.ensure('version_test_guards_ops', Eq(payload[0].get('value'), rv_of(guarded_state)))
        if not sibling:
            vc.ensure('version_test_guards_ops', not any(c.seq < r.seq < j.seq for r in s.reqs))
    if not s.failed and s.raised is None and s.calls:
        # everything went through: every op was delivered (exactly once by the clauses above)
        for o in s.calls[-1].items:
            vc.ensure('ops_routed_completely', sum(1 for j in s.jsons for p in j.items[1:] if p is o) == 1)
    # ---- outcomes
    conflict = [r for r in s.jsons if r.outcome == '422']
    if conflict:
        ok = s.returned_pair and isinstance(s.result[1], patches.Patch)
        vc.ensure('conflict_carries_all_fns', ok)
        if ok:
            rem = s.result[1]
            vc.ensure('conflict_carries_all_fns', len(rem.fns) == len(s.fns) and all(a is b for a, b in zip(rem.fns, s.fns)))
            vc.ensure('conflict_carries_all_fns', len(dict(rem)) == 0)
    if not s.failed and s.raised is None:
        vc.ensure('success_drops_fns', s.returned_pair and not s.result[1])
    if any(r.outcome == '404' for r in s.reqs):
        vc.ensure('not_found_is_silent', s.returned_pair and s.result[0] is None and s.result[1] is None)
    escaping = [r for r in s.failed if r.outcome == 'error' or (r.outcome == '422' and r.ctype != JSONP)]
    vc.ensure('other_failures_escape', s.raised is (escaping[0].error if escaping else None))
    if s.raised is None and not any(r.outcome == '404' for r in s.reqs):
        vc.ensure('returns_last_response', s.returned_pair and s.result[0] is (s.oks[-1].response if s.oks else None))
    vc.ensure('patch_not_consumed', same_tree(dict(s.patch), s.patch_before) and len(s.patch.fns) == len(s.fns)
              and all(a is b for a, b in zip(s.patch.fns, s.fns)))
    if not content:      # (canaries cost a model each time they are refuted: state them on the fns-only scenarios)
        vc.canary('canary.never_conflicts', s.returned_pair and s.result[1] is None)
        vc.canary('canary.always_sends', len(s.reqs) >= 1)
        vc.canary('canary.never_json_patches', not s.jsons)
    return ('raise', type(s.raised).__name__) if s.raised is not None else \
        ('return', s.result[0] is None, s.result[1] is None, [(r.kind, r.ctype, r.outcome) for r in s.reqs])


def identity_bound(s, r, bound_oks):
    """The request carries a precondition that ties it to the object the patch was computed for: the uid
    of that object, or the resourceVersion of a state of it (the original body or the response to an
    earlier request that was itself bound)."""
    if s.original is None:
        return False
    versions = [s.rv0] + [rv_of(b.response) for b in bound_oks]
    alts = []
    if r.ctype == MERGE and isinstance(r.items, dict):
        md = r.items.get('metadata')
        if isinstance(md, dict) and not isinstance(md, SV):
            if 'uid' in md:
                alts.append(Eq(md['uid'], s.uid0))
            if 'resourceVersion' in md:
                alts.extend(Eq(md['resourceVersion'], v) for v in versions)
    if r.ctype == JSONP and isinstance(r.items, list):
        for o in r.items:
            if isinstance(o, dict) and o.get('op') == 'test':
                if o.get('path') == '/metadata/uid':
                    alts.append(Eq(o.get('value'), s.uid0))
                if o.get('path') == '/metadata/resourceVersion':
                    alts.extend(Eq(o.get('value'), v) for v in versions)
    return Or(*alts) if alts else False


@harness('A4', targets='kopf._cogs.clients.patching.patch_obj', props=['C08', 'C06'],
         clauses=['bound_to_identity'], canaries=['canary.only_json_patches'],
         trusted=['api.patch / as_json_patch / get_url as in A3',
                  'server: a PATCH whose payload states metadata.uid or metadata.resourceVersion (merge-patch) or tests them (JSON-patch) is rejected when they differ'])
def A4(vc):
    """
    "Only ever lands on the object it was computed for, never on a later object that reuses its name":
    every request patch_obj sends for a patch computed from a body must carry that object's identity
    as a precondition -- metadata.uid of the body, or a resourceVersion of the body or of the response
    to an earlier identity-bound request. (Requests address objects by namespace/name only.)
    """
    s = patch_obj_scenario(vc, op_counts=(0, 1), silent=vc.nondet(2, 'silent?') == 1)
    vc.canary('canary.only_json_patches', not s.merges)
    if s.original is None:
        return ('no-original', len(s.reqs))
    bound_oks = []
    merge_seen = False
    for r in s.reqs:
        merge_seen = merge_seen or r.ctype == MERGE
        b = identity_bound(s, r, bound_oks)
        # F-C08-1: merge-patch requests carry no identity at all; a JSON-patch after one is tied only to
        # whatever object the merge-patch happened to land on.
        vc.ensure('bound_to_identity', b, excuse={'F-C08-1': merge_seen})
        if r.outcome == 'ok' and (b is True or (isinstance(b, SV) and vc_proved(vc, b))):
            bound_oks.append(r)
    return ('return', [(r.kind, r.ctype, r.outcome) for r in s.reqs])


def vc_proved(vc, cond):
    """True iff `cond` is implied by the current path condition (harness-side query, no fork)."""
    import z3
    eng = vc.eng
    if eng.mode != 'sym':
        return bool(cond)
    return eng._check(z3.Not(cond.term)) == z3.unsat


# ================================================================================================ A2
def server_object(vc, tag=''):
    """A stored object as the API returns it: metadata.resourceVersion always; a non-empty
    deletionTimestamp and a list of finalizers optionally (each absent / present)."""
    md = {'namespace': NS, 'name': NAME, 'uid': vc.str(f'{tag}uid'), 'resourceVersion': vc.str(f'{tag}rv')}
    if vc.nondet(2, 'deletionTimestamp present?') == 1:
        ts = vc.str(f'{tag}deletionTimestamp')
        vc.assume(vc_len(ts) > 0, 'server: deletionTimestamp is an RFC 3339 timestamp (non-empty)')
        md['deletionTimestamp'] = ts
    fk = vc.nondet(3, 'finalizers: absent / [] / [one]')
    if fk:
        md['finalizers'] = [[], [vc.str(f'{tag}finalizer')]][fk - 1]
    return {'metadata': md, 'spec': {}, 'status': {}}


@harness('A2', targets='kopf._core.actions.application.patch_and_check', props=['C07', 'C08', 'C03', 'C05', 'C06', 'C09', 'C10', 'C11', 'C12', 'C14', 'C02'],
         prop_clauses={'C05': ['one_call_for_this_object', 'version_of_last_response', 'never_arriving_marker'], 'C06': ['one_call_for_this_object'], 'C09': ['one_call_for_this_object'], 'C10': ['inconsistencies_only_logged'], 'C11': ['one_call_for_this_object', 'version_of_last_response', 'inconsistencies_only_logged'], 'C12': ['one_call_for_this_object', 'inconsistencies_only_logged'], 'C14': ['one_call_for_this_object', 'version_of_last_response'], 'C02': ['one_call_for_this_object', 'version_of_last_response']},
         clauses=['empty_patch_no_request', 'one_call_for_this_object', 'version_of_last_response',
                  'never_arriving_marker', 'remaining_passed_through', 'inconsistencies_only_logged', 'patch_not_consumed'],
         canaries=['canary.always_the_servers_version', 'canary.always_calls'],
         trusted=['patching.patch_obj by contract A3: returns (response of the last successful request | None, remaining patch | None) or raises an APIError',
                  'diffs.diff by contract E3 (bounded): a pure function returning a Diff'])
def A2(vc):
    """
    patch_and_check: an empty patch sends nothing and returns (None, None). Otherwise patch_obj is called
    exactly once, for body.metadata.namespace/name, with this very patch; the returned version is the
    metadata.resourceVersion of the last successful response (None if there is none), except when that
    response shows an ongoing deletion with no finalizers left: then a marker that is not the server's
    version (it never arrives through the watch). The remaining patch is handed through untouched, the
    patch itself is not modified. Whatever the merge-patch comparison (diffs.diff) reports only reaches the log.
    """
    raw = {'metadata': {'namespace': NS, 'name': NAME, 'uid': vc.str('uid0'), 'resourceVersion': vc.str('rv0')}, 'spec': {}}
    body = bodies.Body(raw)
    pk = vc.nondet(3, 'patch: empty / fields / fns only')
    fns = [Opaque('fn1')] if pk == 2 else []
    patch = patches.Patch({'status': {'y': vc.str('patch.status.y')}, 'metadata': {'finalizers': []}} if pk == 1 else {}, body=body, fns=fns)
    settings, resource = Opaque('settings'), Opaque('resource')
    calls, warnings, out = [], [], {}
    fields_before = dict(patch)

    class Logger(NullLogger):
        def warning(self, *a, **kw):
            warnings.append(a)
    logger = Logger()

    async def patch_obj(**kw):
        calls.append(kw)
        vc.emit('patch_obj', kw)
        await suspend('patch_obj')
        k = vc.nondet(4, 'patch_obj: gone-or-nothing / delivered / conflict / error')
        out['kind'] = k
        if k == 0:
            out['ret'] = (None, None)
        elif k == 1:
            out['ret'] = (server_object(vc), None)
        elif k == 2:
            vc.assume(bool(kw['patch'].fns), 'A3: a conflict is reported only for patches with transformation fns')
            resp = server_object(vc) if vc.nondet(2, 'a merge-patch succeeded before the conflict?') == 1 else None
            out['ret'] = (resp, patches.Patch(fns=kw['patch'].fns))
        else:
            out['exc'] = errors.APIServerError(None, status=500, headers={})
            raise out['exc']
        return out['ret']
    vc.used('patching.patch_obj', 'A3')
    dk = [None]

    def diff(a, b, **kw):
        # E3: some Diff; the three shapes the caller distinguishes
        dk[0] = vc.nondet(3, 'diff: empty / only a K8s-managed empty field / a real mismatch')
        from kopf._cogs.structs import diffs as real
        items = [[], [real.DiffItem(real.DiffOperation.REMOVE, ('metadata', 'finalizers'), [], None)],
                 [real.DiffItem(real.DiffOperation.CHANGE, ('status', 'y'), 'a', 'b')]][dk[0]]
        return real.Diff(items)
    vc.used('diffs.diff', 'E3w + E3d (deductive); E3 bounded')
    ld = vc.load('kopf._core.actions.application', 'patch_and_check', stubs={'patching.patch_obj': patch_obj, 'diffs.diff': diff})
    raised = None
    try:
        result = vc.drive(ld.fn(settings=settings, resource=resource, body=body, patch=patch, logger=logger))
    except Unsupported:
        raise
    except Exception as e:
        raised, result = e, None
    vc.canary('canary.always_calls', len(calls) == 1)
    # frame (apply() tests the patch again after this call): the patch is left as it was
    vc.ensure('patch_not_consumed', same_tree(dict(patch), fields_before) and len(patch.fns) == len(fns)
              and all(a is b for a, b in zip(patch.fns, fns)))
    if pk == 0:
        vc.ensure('empty_patch_no_request', not calls and raised is None and result == (None, None))
        return ('empty', result)
    vc.ensure('one_call_for_this_object', len(calls) == 1)
    for kw in calls:
        vc.ensure('one_call_for_this_object', kw.get('patch') is patch and kw.get('namespace') == NS and kw.get('name') == NAME
                  and kw.get('resource') is resource and kw.get('settings') is settings and not kw.get('silent'))
    if raised is not None or 'ret' not in out:
        vc.ensure('inconsistencies_only_logged', raised is not None and raised is out.get('exc'))   # only patch_obj's own error may escape
        return ('raise', type(raised).__name__)
    resp, remaining = out['ret']
    ok = isinstance(result, tuple) and len(result) == 2
    vc.ensure('inconsistencies_only_logged', ok)
    vc.ensure('remaining_passed_through', ok and result[1] is remaining)
    if resp is None:
        vc.ensure('version_of_last_response', ok and result[0] is None)
        return ('return', None, remaining is None)
    md = resp['metadata']
    ongoing = 'deletionTimestamp' in md          # present => non-null, non-empty (server contract above)
    released = not md.get('finalizers')
    version = result[0] if ok else None
    if ongoing and released:
        vc.ensure('never_arriving_marker', And(isinstance(version, (str, SStr)), Not(Eq(version, md['resourceVersion']))))
    else:
        vc.ensure('version_of_last_response', Eq(version, md['resourceVersion']))
    vc.canary('canary.always_the_servers_version', Eq(version, md['resourceVersion']))
    return ('return', version, remaining is None, len(warnings))


# ================================================================================================ A1
DUMMY = ('metadata', 'annotations', 'kopf.zalando.org/touch-dummy')


@harness('A1', targets='kopf._core.actions.application.apply', props=['C03', 'C08', 'C07', 'C11', 'C05', 'C06', 'C14', 'C15', 'C02', 'C04'],
         prop_clauses={'C05': ['patched_means_no_sleep_no_touch', 'returns_last_version_and_first_remaining'], 'C06': ['no_lost_retrigger', 'touch_is_fresh_and_separate'], 'C14': ['patched_means_no_sleep_no_touch', 'returns_last_version_and_first_remaining'], 'C15': ['quiescent_iff_nothing_to_do', 'touch_only_after_full_sleep'], 'C02': ['patched_means_no_sleep_no_touch', 'returns_last_version_and_first_remaining'], 'C04': ['touch_is_fresh_and_separate']},
         clauses=['quiescent_iff_nothing_to_do', 'no_lost_retrigger', 'patched_means_no_sleep_no_touch',
                  'sleep_interruptible_and_not_longer_than_delay', 'touch_only_after_full_sleep', 'immediate_touch',
                  'touch_is_fresh_and_separate', 'returns_last_version_and_first_remaining', 'only_patching_errors_escape'],
         canaries=['canary.always_applied', 'canary.never_touches', 'canary.never_sleeps'],
         clause_props={'no_lost_retrigger': ['C03', 'C06'], 'quiescent_iff_nothing_to_do': ['C03', 'C15'], 'immediate_touch': ['C03']},
         trusted=['application.patch_and_check by contract A2 (+A3): never modifies the patch; empty patch -> no request, (None, None); a patch with fields -> at least one PATCH request; a patch with fns only -> zero or more requests; returns (version | None, remaining | None) or raises an APIError',
                  'aiotime.sleep by contract T1 (pyvc.stubs.make_sleep)',
                  'progress_storage.touch by contract E5: writes `value` into the patch at the dummy field iff it differs from the value stored in the body'],
         assumes=['datetime.now(utc).isoformat() differs from the touch-dummy stored in the body (time has moved on since the previous touch)'])
def A1(vc):
    """
    apply() never loses the re-trigger of the next cycle. On return: `applied` iff there was nothing to
    patch and nothing to wait for, and then no request was sent (the framework stops writing). If delays
    are pending, then (b) a PATCH request went out for the accumulated patch and was answered (its echo, the
    conflicting change or the deletion re-triggers; an API error escapes to the caller instead) -- and
    then neither sleep nor touch follow; or (c) the sleep -- on stream_pressure, for at most min(delays) --
    was interrupted and stream_pressure is set (a queued event re-triggers); or (d) the sleep ran out (or
    the delay was <= 0: no sleep at all) and a separate touch-patch carrying a fresh value was sent. The
    returned version is that of the last patching call, the returned remaining patch that of the first.
    """
    stored_dummy = vc.opt('body.dummy', vc.str)
    md = {'namespace': NS, 'name': NAME, 'uid': vc.str('uid0'), 'resourceVersion': vc.str('rv0')}
    if stored_dummy is not None:
        md['annotations'] = {DUMMY[2]: stored_dummy}
    body = bodies.Body({'metadata': md, 'spec': {}})
    pk = vc.nondet(3, 'patch: empty / fields / fns only')
    patch = patches.Patch({'status': {'y': vc.str('patch.status.y')}} if pk == 1 else {}, body=body,
                          fns=[Opaque('fn1')] if pk == 2 else [])
    nd = vc.nondet(3, 'number of delays')
    delays = [vc.real(f'delay{i}') for i in range(nd)]
    pressure = StubEvent('stream_pressure') if vc.nondet(2, 'stream_pressure given?') == 1 else None
    clock = Clock()
    touches, pcs = [], []

    def touch(*, body, patch, value):
        touches.append((patch, value))
        differs = (stored_dummy is not None) if value is None else (stored_dummy is None or bool(Not(Eq(value, stored_dummy))))
        if differs:
            patch.setdefault('metadata', {}).setdefault('annotations', {})[DUMMY[2]] = value
    storage = Opaque('progress_storage'); storage.touch = touch
    settings = Opaque('settings', persistence=Opaque('persistence', progress_storage=storage))
    resource = Opaque('resource')
    nows = []

    class _Now:
        def isoformat(self):
            v = vc.str('now.isoformat')
            if stored_dummy is not None:
                vc.assume(Not(Eq(v, stored_dummy)), 'the timestamp differs from the stored touch-dummy')
            nows.append(v)
            return v

    class _DT:
        @staticmethod
        def now(tz=None):
            return _Now()
    stub_datetime = Opaque('datetime', datetime=_DT, timezone=Opaque('timezone', utc='UTC'))

    async def patch_and_check(*, settings, resource, body, patch, logger):
        c = Opaque('call', patch=patch, fields=dict(patch), n_fns=len(patch.fns), seq=len(vc.trace), settings=settings,
                   resource=resource, body=body, sent=False, ret=(None, None), exc=None)
        pcs.append(c)
        vc.emit('patch_and_check', c)
        if not patch:
            return c.ret                     # A2.empty_patch_no_request
        await suspend('patch_and_check')
        if pressure is not None:
            pressure.havoc()
        kinds = ['delivered', 'gone', 'error'] + (['conflict', 'nothing-to-send'] if patch.fns else [])
        if not len(dict(patch)) and not patch.fns:
            raise Unsupported('unreachable: truthy patch without fields and fns')
        k = kinds[vc.nondet(len(kinds), 'patch_and_check outcome')]
        # A3: a patch with fields always produces a merge-patch request; fns alone may compute no ops at all
        if k == 'nothing-to-send':
            vc.assume(len(dict(patch)) == 0, 'A3: a patch with fields always sends a merge-patch request')
            return c.ret
        c.sent = True
        if k == 'error':
            c.exc = errors.APIServerError(None, status=500, headers={})
            raise c.exc
        if k == 'delivered':
            c.ret = (vc.str('version'), None)
        elif k == 'conflict':
            c.ret = (vc.opt('version', vc.str), patches.Patch(fns=patch.fns))
        return c.ret
    vc.used('application.patch_and_check', 'A2')
    vc.used('aiotime.sleep', 'T1')
    ld = vc.load('kopf._core.actions.application', 'apply', stubs={
        'patch_and_check': patch_and_check, 'aiotime.sleep': make_sleep(clock), 'datetime': stub_datetime})
    kw = dict(settings=settings, resource=resource, body=body, patch=patch, delays=delays, logger=NullLogger())
    if pressure is not None:
        kw['stream_pressure'] = pressure
    raised = None
    try:
        result = vc.drive(ld.fn(**kw))
    except Unsupported:
        raise
    except Exception as e:
        raised = e
    sleeps = [ev for ev in vc.trace if ev[0] == 'sleep']        # ('sleep', m, wakeup, result, how)
    failed_calls = [c for c in pcs if getattr(c, 'exc', None) is not None]
    # a failed PATCH has no echo: its error must reach the caller (which throttles and retries, C12)
    vc.ensure('only_patching_errors_escape', raised is (failed_calls[0].exc if failed_calls else None))
    if raised is not None:
        # only the patching call's own error escapes (C12 contains it); nothing is slept or sent after it
        vc.ensure('only_patching_errors_escape', bool(pcs) and pcs[-1].sent and raised is getattr(pcs[-1], 'exc', None)
                  and vc.trace[-1][0] == 'patch_and_check')
        return ('raise', type(raised).__name__)
    ok = isinstance(result, tuple) and len(result) == 3
    applied, version, remaining = result if ok else (None, None, None)
    first = pcs[0] if pcs else None
    main_sent = first is not None and first.patch is patch and first.sent and first not in failed_calls
    touch_calls = [c for c in pcs[1:] if c.patch is not patch]
    touched = len(touch_calls) == 1 and touch_calls[0].sent and touch_calls[0] not in failed_calls
    any_sent = any(c.sent for c in pcs)
    interrupted = bool(sleeps) and sleeps[-1][4] in ('woken', 'already-set') and pressure is not None and pressure.is_set()
    has_delay = len(delays) > 0
    vc.canary('canary.always_applied', applied is True)
    vc.canary('canary.never_touches', not touched)
    vc.canary('canary.never_sleeps', not sleeps)
    # (a) quiescence
    vc.ensure('quiescent_iff_nothing_to_do', ok and isinstance(applied, bool))
    vc.ensure('quiescent_iff_nothing_to_do', Implies(applied is True, (not any_sent) and (not has_delay) and (not sleeps) and pk == 0))
    vc.ensure('quiescent_iff_nothing_to_do', Implies(pk == 0 and not has_delay, applied is True and not any_sent and not touches))
    # (b)/(c)/(d): a pending delay is never dropped
    if has_delay:
        vc.ensure('no_lost_retrigger', Or(main_sent, interrupted, touched),
                  excuse={'F-C03-1': pk == 2 and first is not None and not first.sent})
    # exactly once: the accumulated patch goes out in one call, first, and only it
    vc.ensure('patched_means_no_sleep_no_touch', first is not None and first.patch is patch and all(c.patch is not patch for c in pcs[1:]))
    if main_sent:
        vc.ensure('patched_means_no_sleep_no_touch', not sleeps and len(pcs) == 1)
    # the sleep
    vc.ensure('sleep_interruptible_and_not_longer_than_delay', len(sleeps) <= 1)
    for ev in sleeps:
        _, m, wakeup, res, how = ev[:5]
        vc.ensure('sleep_interruptible_and_not_longer_than_delay', wakeup is pressure)
        vc.ensure('sleep_interruptible_and_not_longer_than_delay', And(has_delay, m > 0, *[m <= d for d in delays]))
    # (d) the touch
    vc.ensure('touch_only_after_full_sleep', len(touch_calls) <= 1 and len(pcs) == 1 + len(touch_calls))
    if touch_calls:
        slept_out = bool(sleeps) and sleeps[-1][4] == 'timeout'
        no_need_to_sleep = (not sleeps or sleeps[-1][4] == 'nosleep') and has_delay and bool(Or(*[d <= 0 for d in delays]))
        vc.ensure('touch_only_after_full_sleep', has_delay and pk == 0 and (slept_out or no_need_to_sleep))
        t = touch_calls[0]
        f = t.fields
        for key in DUMMY:
            f = f.get(key) if isinstance(f, dict) else None
        vc.ensure('touch_is_fresh_and_separate', len(nows) >= 1 and f is nows[-1] and t.n_fns == 0 and t.sent
                  and t.body is body and t.resource is resource and t.settings is settings)
    if pk == 0 and has_delay:
        nonpositive = Or(*[d <= 0 for d in delays])
        vc.ensure('immediate_touch', Implies(nonpositive, And(touched, not sleeps or sleeps[-1][4] == 'nosleep')))
    # results
    vc.ensure('returns_last_version_and_first_remaining', ok and first is not None and remaining is first.ret[1])
    last = pcs[-1] if pcs else None
    vc.ensure('returns_last_version_and_first_remaining', ok and last is not None and version is last.ret[0])
    return ('return', applied, version, remaining is None, [c.sent for c in pcs], [ev[4] for ev in sleeps])
