"""Round-10 contracts: the HTTP end of the admission path (kopf._kits.webhooks.WebhookServer._serve).

`serve_admission_request()`'s return value (M2) is what property C18 observes; `_serve` is the one function between
that value and the API server: it must hand the review over unaltered, answer with exactly the response it got, and
never turn a failure of the webhook machinery into an answer that the API server reads as a review response."""
import json

import aiohttp.web

from pyvc import *
from pyvc.stubs import Opaque, exception_reps

from kopf._core.engines import admission


def _not_ours(e):
    return isinstance(e, (PathEnd, Unsupported))


@harness('M5s', targets='kopf._kits.webhooks.WebhookServer._serve', props=['C18'],
         clauses=['review_handed_over_unaltered', 'answers_with_the_response_it_got', 'failures_are_not_answers',
                  'error_table', 'request_read_once'],
         canaries=['canary.always_answers', 'canary.never_answers'],
         trusted=['aiohttp.web.Request by contract: headers is a mapping, transport is None or has get_extra_info(), '
                  'match_info is a mapping, text() returns a string or raises',
                  'json.loads by contract: returns a JSON value or raises JSONDecodeError',
                  'aiohttp.web.json_response by contract: builds a response that carries exactly the given value'],
         assumes=['the webhook function fn is serve_admission_request bound by the admission server (contract M2): it returns a '
                  'response or raises AmbiguousResourceError / UnknownResourceError / another WebhookError / anything else'])
def M5s(vc):
    """
    WebhookServer._serve(fn, request), for every request (with or without a transport / peer certificate / id in the
    route), every outcome of reading and parsing the body and every outcome of fn (a response; each declared webhook
    error, a subclass, a class inheriting from two of them, a sibling; an unrelated Exception / BaseException):
    * fn is called at most once, with the parsed body itself, the route's id as `webhook`, the peer certificate of the
      transport (None without a transport) and a dict equal to the request's headers;
    * when fn returns, the answer is json_response(that very object) -- nothing else is answered;
    * when reading, parsing or fn fails, NO response object is returned (an answer would be read by the API server as a
      review response): ambiguous resource -> HTTP 409, unknown resource -> 404, any other webhook error or an
      unparsable body -> 400, anything else propagates unchanged.
    """
    has_transport = vc.nondet(2, 'transport') == 1
    peercert = Opaque('peercert')
    asked = []

    class _Transport:
        def get_extra_info(self, name, default=None):
            asked.append(name)
            return peercert if name == 'peercert' else default

    hdr_val = vc.str('header-value')
    headers = {'X-Some': hdr_val, 'Content-Type': 'application/json'}
    wid = vc.fin('route-id', [None, 'fn1', 'a/b', ''])
    match_info = {} if wid is None else {'id': wid}
    text_outcome = vc.nondet(2, 'text')            # 0 = a string, 1 = the connection breaks
    body_text = vc.str('body-text')
    text_error = aiohttp.ClientPayloadError('broken')

    class _Request:
        pass
    request = _Request()
    request.headers = headers
    request.transport = _Transport() if has_transport else None
    request.match_info = match_info

    async def _text():
        vc.emit('request.text')
        if text_outcome == 1:
            raise text_error
        return body_text
    request.text = _text

    parsed = Opaque('parsed-review')
    parse_ok = vc.nondet(2, 'json.loads') == 0
    decode_error = json.JSONDecodeError('bad', 'doc', 0)

    def _loads(s, *a, **kw):
        vc.emit('json.loads', s)
        if not parse_ok:
            raise decode_error
        return parsed

    reps = [None] + exception_reps([admission.AmbiguousResourceError, admission.UnknownResourceError,
                                    admission.WebhookError, admission.MissingDataError])
    k = vc.nondet(len(reps), 'fn outcome')
    fn_exc = None if reps[k] is None else reps[k]('reason text')
    fn_response = Opaque('fn-response')

    async def fn(data, *args, **kwargs):
        vc.emit('fn', data, args, dict(kwargs))
        if fn_exc is not None:
            raise fn_exc
        return fn_response

    def _json_response(data=None, *a, **kw):
        vc.emit('json_response', data, a, dict(kw))
        r = Opaque('http-response')
        r.carried = data
        return r

    ld = vc.load('kopf._kits.webhooks', 'WebhookServer._serve',
                 stubs={'json.loads': _loads, 'aiohttp.web.json_response': _json_response})
    result, raised = None, None
    try:
        result = vc.drive(ld.fn(fn, request))
    except BaseException as e:
        if _not_ours(e):
            raise
        raised = e

    calls = [ev for ev in vc.trace if ev[0] == 'fn']
    answers = [ev for ev in vc.trace if ev[0] == 'json_response']
    reads = [ev for ev in vc.trace if ev[0] == 'request.text']
    vc.canary('canary.always_answers', raised is None)
    vc.canary('canary.never_answers', raised is not None)
    vc.ensure('request_read_once', len(reads) <= 1 and len(calls) <= 1)

    body_ok = text_outcome == 0 and parse_ok
    # the review reaches the webhook function unaltered, with the identity of the caller
    vc.ensure('review_handed_over_unaltered', (len(calls) == 1) == body_ok)
    if calls:
        _, data, args, kwargs = calls[0]
        vc.ensure('review_handed_over_unaltered', data is parsed and not args)
        vc.ensure('review_handed_over_unaltered', set(kwargs) == {'webhook', 'sslpeer', 'headers'})
        vc.ensure('review_handed_over_unaltered', Eq(kwargs.get('webhook'), wid) if wid is not None else kwargs.get('webhook') is None)
        vc.ensure('review_handed_over_unaltered', kwargs.get('sslpeer') is (peercert if has_transport else None))
        h = kwargs.get('headers')
        vc.ensure('review_handed_over_unaltered',
                  isinstance(h, dict) and set(h) == set(headers) and all(h[x] is headers[x] for x in headers))
        parses = [ev for ev in vc.trace if ev[0] == 'json.loads']
        vc.ensure('review_handed_over_unaltered', len(parses) == 1 and parses[0][1] is body_text)

    succeeded = body_ok and fn_exc is None
    # the answer is the response of the webhook function and nothing else
    vc.ensure('answers_with_the_response_it_got', (raised is None) == succeeded)
    if raised is None:
        vc.ensure('answers_with_the_response_it_got', len(answers) == 1 and answers[0][1] is fn_response)
        vc.ensure('answers_with_the_response_it_got', result is not None and getattr(result, 'carried', None) is fn_response)
        return ('answer',)
    # failures never come back as a response object
    vc.ensure('failures_are_not_answers', result is None)
    if text_outcome == 1:
        vc.ensure('error_table', raised is text_error)
        return ('raise', 'text')
    if not parse_ok:
        vc.ensure('error_table', isinstance(raised, aiohttp.web.HTTPBadRequest))
        return ('raise', 'parse')
    if isinstance(fn_exc, admission.AmbiguousResourceError):
        want = aiohttp.web.HTTPConflict
    elif isinstance(fn_exc, admission.UnknownResourceError):
        want = aiohttp.web.HTTPNotFound
    elif isinstance(fn_exc, admission.WebhookError):
        want = aiohttp.web.HTTPBadRequest
    else:
        want = None
    both = isinstance(fn_exc, admission.AmbiguousResourceError) and isinstance(fn_exc, admission.UnknownResourceError)
    if want is None:
        vc.ensure('error_table', raised is fn_exc)
    elif both:
        vc.ensure('error_table', isinstance(raised, (aiohttp.web.HTTPConflict, aiohttp.web.HTTPNotFound)))
    else:
        vc.ensure('error_table', type(raised) is want)
    if want is not None:
        vc.ensure('error_table', raised.status in (400, 404, 409) and raised.status >= 400)
    return ('raise', type(raised).__name__)
