"""
Fourth wave (builder build4-views): the mapping views and the patch object -- small classes every body / patch access of the
framework goes through, and which the verified functions so far used natively (inlined) or through a trusted line.  Form of the
contracts: "data structure against an abstract view" -- view(obj) is a plain document (a J term / a dict, for a Patch the pair
(dict, fns)), and every method is stated against it: its result AND the whole view afterwards (nothing else changed).

  dicts.py   V10 D  MappingView.__init__ / __getitem__       arbitrary JSON sources (vc.json), paths of 0..2 arbitrary names
             V11 D  MappingView.__iter__ / __len__ (/ __init__)   concrete-structured sources (symbolic leaves), direct and view-of-view
             V12 D  MutableMappingView.__setitem__           arbitrary JSON sources
             V13 D  MutableMappingView.__delitem__           arbitrary JSON sources
             V14 D  ReplaceableMappingView._replace_with     arbitrary JSON sources, views and sub-views made before the replacement
  patches.py V15 D  Patch.__init__                           V16 D  Patch.__bool__ / clear / fns
             V17 D  Patch.meta / metadata / spec / status    V18 D  MetaPatch.__init__ / labels / annotations

The classes under test are the REAL classes with every function under contract replaced by its version extracted from the
current source (`_classes`): whatever reaches such a function -- directly, through the Mapping mixins (get / in / items /
setdefault / ==), or from a view stacked on another view -- runs the extracted code.  dicts.resolve / ensure / parse_field run
as real code underneath (contracts X5d / X6d of w2_storage; their specifications spec_resolve / spec_ensure are the abstract view
used here).
"""
import sys
import types

import z3

from pyvc import *
from pyvc.stubs import Opaque
from pyvc.values import J

from contracts.w2_storage import DICTS, draw_doc, draw_obj, draw_value, holds, jt, outcome_of, put, sel, spec_ensure, spec_resolve

PATCHES = 'kopf._cogs.structs.patches'

P_MV = ['C02', 'C04', 'C05', 'C06', 'C08', 'C09', 'C10', 'C15', 'C16', 'C17', 'C18']        # MappingView.*
P_MMV = ['C04', 'C05', 'C08', 'C11', 'C16', 'C18']                                             # MutableMappingView.*
P_RMV = ['C05', 'C06', 'C07', 'C08', 'C09', 'C10', 'C17', 'C03', 'C04', 'C02', 'C14', 'C15']                                      # ReplaceableMappingView._replace_with
P_PATCH = ['C02', 'C03', 'C05', 'C06', 'C07', 'C08', 'C09', 'C11', 'C13', 'C15', 'C16', 'C18']  # Patch.*
P_META = ['C04', 'C05', 'C08', 'C16', 'C18']                                                   # MetaPatch.*


# =========================================================================== the classes under test
class _Super:
    """`super()` inside an extracted method whose base initialiser does nothing (Mapping / object)."""
    def __init__(self, *a, **kw):
        pass


def _super_to(**methods):
    """`super()` inside an extracted method (there is no __class__ cell there): the named base-class methods, bound to the
    `self` of the calling frame."""
    def _super():
        me = sys._getframe(1).f_locals['self']
        return types.SimpleNamespace(**{name: (lambda f: lambda *a, **kw: f(me, *a, **kw))(f) for name, f in methods.items()})
    return _super


def _classes(vc):
    """The real view / patch classes, each function under contract replaced by its extracted version."""
    from kopf._cogs.structs import dicts, patches
    C = types.SimpleNamespace()
    fn = lambda mod, q, **stubs: vc.load(mod, q, stubs=stubs).fn
    C.MV = type('MappingView', (dicts.MappingView,), {
        '__init__': fn(DICTS, 'MappingView.__init__', super=_Super),
        **{n: fn(DICTS, f'MappingView.{n}') for n in ('__getitem__', '__iter__', '__len__')}})
    C.MMV = type('MutableMappingView', (C.MV, dicts.MutableMappingView), {
        n: fn(DICTS, f'MutableMappingView.{n}') for n in ('__setitem__', '__delitem__')})
    C.RMV = type('ReplaceableMappingView', (C.MV, dicts.ReplaceableMappingView), {
        '_replace_with': fn(DICTS, 'ReplaceableMappingView._replace_with')})
    C.MetaPatch = type('MetaPatch', (C.MMV, patches.MetaPatch), {
        '__init__': vc.load(PATCHES, 'MetaPatch.__init__', stubs={'super': _super_to(__init__=C.MV.__init__),
                                                                  'dicts.MutableMappingView': C.MMV}).fn,
        'labels': property(fn(PATCHES, 'MetaPatch.labels')),
        'annotations': property(fn(PATCHES, 'MetaPatch.annotations'))})
    for name in ('SpecPatch', 'StatusPatch'):       # not under contract here: their one-line __init__ runs inlined
        init = vc.load(PATCHES, f'{name}.__init__', stubs={'super': _super_to(__init__=C.MV.__init__)}).fn
        setattr(C, name, type(name, (C.MMV, getattr(patches, name)), {'__init__': init}))
    C.Patch = type('Patch', (patches.Patch,), {
        '__init__': fn(PATCHES, 'Patch.__init__', super=_super_to(__init__=dict.__init__),
                       MetaPatch=C.MetaPatch, SpecPatch=C.SpecPatch, StatusPatch=C.StatusPatch),
        '__bool__': fn(PATCHES, 'Patch.__bool__'),
        'clear': fn(PATCHES, 'Patch.clear', super=_super_to(clear=dict.clear)),
        **{n: property(fn(PATCHES, f'Patch.{n}')) for n in ('fns', 'meta', 'metadata', 'spec', 'status')}})
    return C


# =========================================================================== V10: MappingView.__init__ / __getitem__
def _draw_path(vc, n, prefix='p', forms=None):
    """A field path of n names and the ways a caller may spell it -> (names, field argument | _OMIT): arbitrary names as a
    tuple or a list; concrete names (which str.split can handle) as a dotted string; the root as nothing / None / () / []."""
    if n == 0:
        form = vc.nondet(4, 'path: omitted | None | () | []') if forms is None else 0
        return (), [_OMIT, None, (), []][form]
    forms = list(forms or ['tuple', 'list', 'dotted string'])
    form = forms[vc.nondet(len(forms), 'path as: ' + ' | '.join(forms))]
    if form == 'dotted string':
        keys = tuple(f'{prefix}{c}' for c in 'abc'[:n])
        return keys, '.'.join(keys)
    keys = tuple(vc.str(f'{prefix}{i}') for i in range(n))
    return keys, keys if form == 'tuple' else list(keys)


_OMIT = Opaque('<path omitted>')


def _make(cls, src, field=_OMIT):
    v = cls.__new__(cls)
    if field is _OMIT:
        cls.__init__(v, src)
    else:
        cls.__init__(v, src, field)
    return v


def _lookup_clauses(vc, clause, view, item, now, keys):
    """SPEC of view[item] for a view over (document `now`, path `keys`), all under `clause` (or clause.*):
    the value at path+item when every step meets a mapping that has the key (None for null); KeyError when the first failing
    step meets a mapping WITHOUT the key (so that .get(item, default) gives the default and `item in view` is False: the view
    "behaves as an empty dict"); when it meets a present NON-mapping there is nothing to return either: an error (KeyError or
    the TypeError documented for dicts.resolve), never a value."""
    found, missing, nonmap, value = spec_resolve(now, tuple(keys) + (item,))
    outcome, res = outcome_of(view.__getitem__, item)
    returned = holds(vc, z3.And(found, jt(res) == value)) if outcome == 'return' else False
    name = (lambda s: f'{clause}.{s}') if clause == 'getitem' else (lambda s: clause)
    vc.ensure(name('present_key_gives_value'), Implies(holds(vc, found), returned))
    vc.ensure(name('absent_key_is_keyerror'), Implies(holds(vc, missing), outcome == 'KeyError'))
    vc.ensure(name('non_mapping_parent_never_a_value'), Implies(holds(vc, nonmap), outcome in ('KeyError', 'TypeError')))
    return outcome, found, missing


@harness('V10', targets=[f'{DICTS}.MappingView.__init__', f'{DICTS}.MappingView.__getitem__'], props=P_MV,
         clauses=['getitem.present_key_gives_value', 'getitem.absent_key_is_keyerror', 'getitem.non_mapping_parent_never_a_value',
                  'get.default_iff_absent', 'init.live_not_a_copy', 'pure'],
         canaries=['canary.never_raises', 'canary.always_absent'],
         assumes=['V10: the source is an arbitrary JSON object (vc.json: any depth, string keys); the path has 0..2 arbitrary names, '
                  'spelled as tuple / list / dotted string (concrete names) / None / omitted; the item is an arbitrary string'],
         trusted=['dicts.resolve / parse_field run as real code (contract X5d; spec_resolve is its specification)'])
def V10(vc):
    """
    MappingView(src, path)[item] -- "a lazy resolver for the on-demand dict keys" (class docstring; docs/kwargs.rst: spec, meta,
    status are LIVE views into body['spec'] ...; labels/annotations "behave as empty dicts" when they do not exist).
    Abstract view: view(obj) = the document at `path` of the source AS IT IS NOW, or the empty mapping when the path is absent.
      getitem.present_key_gives_value   every step of path+item meets a mapping that has the key => that very value (None for null)
      getitem.absent_key_is_keyerror    the first failing step meets a mapping without the key (the item is absent, or the
                                        stanza / one of its parents is absent) => KeyError -- not a default, not another error
      getitem.non_mapping_parent_never_a_value   a present non-mapping on the way (null, string, number, list) => an error
                                        (KeyError or the TypeError of dicts.resolve), never a value
      get.default_iff_absent            .get(item, default) / `item in view` (Mapping mixins over __getitem__): the value and True
                                        when present; the default and False when absent
      init.live_not_a_copy              the view holds the source itself, not a copy: after the source is changed in place
                                        (the first step of the path -- or the item -- re-assigned to an arbitrary JSON value) the
                                        same view object answers from the changed source, by the same three rules
      pure                              constructing and reading never modify the source (no implicit creation of the stanza)
    """
    n = vc.nondet(3, 'len(path)')
    live = vc.nondet(2, 'the source: as it was | changed in place after the view was made') == 1
    keys, field = _draw_path(vc, n, forms=('tuple',) if live else ('tuple', 'dotted string') if n == 2 else None)
    item = vc.str('item')
    src = draw_obj(vc, 'src', keys + (item,))
    C = _classes(vc)
    before = jt(src)
    view = _make(C.MV, src, field)
    vc.ensure('pure', holds(vc, jt(src) == before))
    if live:
        src[keys[0] if n else item] = draw_value(vc, 'newer', keys + (item,))
        now = jt(src)
        outcome, found, missing = _lookup_clauses(vc, 'init.live_not_a_copy', view, item, now, keys)
        vc.ensure('pure', holds(vc, jt(src) == now))
        return ('live', n, outcome)
    outcome, found, missing = _lookup_clauses(vc, 'getitem', view, item, before, keys)
    vc.canary('canary.never_raises', outcome == 'return')
    vc.canary('canary.always_absent', outcome == 'KeyError')
    if outcome in ('return', 'KeyError'):
        default = Opaque('default')
        got, isin = view.get(item, default), item in view
        vc.ensure('get.default_iff_absent', (got is not default and isin is True) if outcome == 'return' else (got is default and isin is False))
    vc.ensure('pure', holds(vc, jt(src) == before))
    return ('getitem', n, outcome)


# =========================================================================== V11: MappingView.__iter__ / __len__
_ABSENT = Opaque('<absent>')


def _is_map(x):
    return isinstance(x, dict)


def _spec_stanza(doc, path):
    """SPEC, the abstract view: the mapping at `path` of `doc`; the empty mapping when a key on the way is absent or a parent on
    the way is not a mapping.  (A path that ends at a present NON-mapping value is outside the domain: nothing documents it.)"""
    cur = doc
    for k in path:
        if not _is_map(cur) or k not in cur:
            return {}
        cur = cur[k]
    return cur


def _copy_tree(x):
    """a snapshot: containers copied, leaves kept by identity"""
    if isinstance(x, dict):
        return {k: _copy_tree(v) for k, v in x.items()}
    if isinstance(x, list):
        return [_copy_tree(v) for v in x]
    return x


def _same_leaf(a, b):
    return a is b or (not isinstance(a, SV) and not isinstance(b, SV) and type(a) is type(b) and a == b)


def _same_tree(a, b):
    """the same document: same keys at every level (None values and empty mappings included), the very same leaves"""
    if isinstance(a, dict) or isinstance(b, dict):
        return isinstance(a, dict) and isinstance(b, dict) and list(sorted(a)) == list(sorted(b)) and all(_same_tree(a[k], b[k]) for k in a)
    if isinstance(a, list) or isinstance(b, list):
        return isinstance(a, list) and isinstance(b, list) and len(a) == len(b) and all(_same_tree(p, q) for p, q in zip(a, b))
    return _same_leaf(a, b)


def _v11_doc(vc, n, path):
    """The source document for a view at `path`: the stanza present (empty / one key / None + nested + empty-string + empty-mapping
    values), its key absent, its parent absent, or its parent a non-mapping."""
    x, y = vc.str('x'), vc.str('y')
    contents = [lambda: {}, lambda: {'a': x}, lambda: {'a': None, 'b': {'c': y}, 'd': '', 'e': {}}]
    states = [('present', c) for c in contents]
    if n >= 1:
        states += [('key absent', None)]
    if n == 2:
        states += [('parent absent', None)] + [('parent not a mapping', v) for v in (None, 'text', 7, ['l'])]
    state, arg = states[vc.nondet(len(states), f'the stanza at {path}: ' + ' | '.join(s for s, _ in states))]
    if n == 0:
        return state, arg()
    if n == 1:
        doc = {'other': {'o': x}}
        if state == 'present':
            doc[path[0]] = arg()
        return state, doc
    doc = {'spec': {'s': 1}}
    if state == 'parent not a mapping':
        doc[path[0]] = arg
    elif state != 'parent absent':
        doc[path[0]] = {'name': 'n'}
        if state == 'present':
            doc[path[0]][path[1]] = arg()
    return state, doc


def _force_stanza(doc, path, z):
    """in-place change of the source by somebody else: afterwards the stanza exists and has the key 'new'"""
    cur = doc
    for k in path:
        if not _is_map(cur.get(k)):
            cur[k] = {}
        cur = cur[k]
    cur['new'] = z


@harness('V11', targets=[f'{DICTS}.MappingView.__iter__', f'{DICTS}.MappingView.__len__', f'{DICTS}.MappingView.__init__'], props=P_MV,
         clauses=['len.number_of_keys', 'iter.each_key_once', 'dict_of_view_is_the_stanza', 'absent_stanza_is_an_empty_mapping',
                  'live', 'pure'],
         canaries=['canary.always_empty', 'canary.never_empty'],
         assumes=['V11: concrete-structured sources with symbolic leaves: the view at (), (spec) or (metadata, labels) of a plain dict, '
                  'or of a view stacked on {w: that dict} / on an absent stanza; the stanza present (empty, one key, several keys with '
                  'None / nested / empty values), its key absent, its parent absent, its parent a non-mapping (None, str, int, list)'],
         trusted=['dicts.resolve / parse_field run as real code (contract X5d)', 'collections.abc.Mapping mixins (keys/items/__contains__)'])
def V11(vc):
    """
    len(view), iter(view) and what the Mapping protocol derives from them (dict(view), bool(view), `in`) against the abstract
    view A = the mapping at the path of the source now, or {} when the path is absent / runs through a non-mapping
    (docs/kwargs.rst: "behave as empty dicts"; class docstring: fields are "assumed as dicts, even if they are actually not present").
      len.number_of_keys          len(view) == len(A); bool(view) accordingly (an empty-but-present stanza is falsy like {})
      iter.each_key_once          iter(view) is an iterator over exactly A's keys, each once; a second iteration gives the same
      dict_of_view_is_the_stanza  dict(view) has A's keys with the very values of the source -- a None value stays a key with
                                  None, '' stays '', an empty nested mapping stays; `k in view` for each; a foreign key is not in
      absent_stanza_is_an_empty_mapping   absent key / absent parent / non-mapping parent: len 0, no keys, falsy -- no error
      live                        after the source is changed in place by somebody else (the stanza created or grown, or removed)
                                  the same view object shows the new stanza: a view is a resolver, not a snapshot
      pure                        reading does not modify the source: in particular the absent stanza is NOT created
    """
    n = vc.nondet(3, 'len(path)')
    path = [(), ('spec',), ('metadata', 'labels')][n]
    state, doc = _v11_doc(vc, n, path)
    C = _classes(vc)
    kind = vc.nondet(3, 'source: the dict itself | a view stacked on {w: dict} | a view stacked on an absent stanza')
    field = [_OMIT, 'spec', ('metadata', 'labels')][n] if vc.nondet(2, 'path: short spelling | other spelling') == 0 \
        else [None, ['spec'], 'metadata.labels'][n]
    wrapper = {'w': doc} if kind == 1 else {'v': 1}
    src = doc if kind == 0 else _make(C.MV, wrapper, 'w')
    view = _make(C.MV, src, field)
    snap_doc, snap_wrapper = _copy_tree(doc), _copy_tree(wrapper)

    def observe(clauses):
        A = _spec_stanza(doc, path) if kind != 2 else {}

        def readings():
            length = C.MV.__len__(view)
            it = C.MV.__iter__(view)
            first = list(it)
            return length, it, first, list(it), list(C.MV.__iter__(view)), dict(view), bool(view)
        outcome, got = outcome_of(readings)
        if outcome != 'return':         # a view never fails to be measured / iterated: it is a mapping, empty at worst
            for clause in clauses:
                vc.ensure(clause, False, note=f'raised {outcome}: {got}')
            raise PathEnd(f'the view raised {outcome}')
        length, it, first, again, second, as_dict, truth = got
        ok_len = length == len(A) and truth is (len(A) > 0)
        ok_iter = hasattr(it, '__next__') and sorted(first) == sorted(A) and again == [] and second == first
        ok_dict = sorted(as_dict) == sorted(A) and all(_same_tree(as_dict[k], A[k]) for k in A) \
            and all(k in view for k in A) and (state == 'parent not a mapping' or 'no-such-key' not in view)
        for clause, ok in zip(clauses, (ok_len, ok_iter, ok_dict)):
            vc.ensure(clause, ok)
        return A, length

    A, length = observe(['len.number_of_keys', 'iter.each_key_once', 'dict_of_view_is_the_stanza'])
    if state != 'present' or kind == 2:
        vc.ensure('absent_stanza_is_an_empty_mapping', length == 0 and list(view) == [] and not view and dict(view) == {})
    vc.ensure('pure', _same_tree(doc, snap_doc) and _same_tree(wrapper, snap_wrapper))
    vc.canary('canary.always_empty', length == 0)
    vc.canary('canary.never_empty', length > 0)
    change = vc.nondet(3, 'then the source is: left alone | grown in place (stanza created if need be) | emptied of the stanza')
    if change == 0 or kind == 2:
        return ('V11', n, state, kind, length)
    if change == 1:
        _force_stanza(doc, path, vc.str('z'))
    elif n == 0:
        doc.clear()
    else:
        parent = doc
        for k in path[:-1]:
            parent = parent.get(k) if _is_map(parent) else None
        if _is_map(parent):
            parent.pop(path[-1], None)
    A2, length2 = observe(['live', 'live', 'live'])
    return ('V11', n, state, kind, length, change, length2)


# =========================================================================== V12: MutableMappingView.__setitem__
@harness('V12', targets=[f'{DICTS}.MutableMappingView.__setitem__'], props=P_MMV,
         clauses=['setitem.exact', 'setitem.reads_back', 'setitem.none_is_stored_not_dropped', 'setitem.failure_leaves_source_unchanged'],
         canaries=['canary.never_raises', 'canary.unchanged'],
         assumes=['V12: the source is an arbitrary JSON object; the view path has 0..2 arbitrary names; the item is an arbitrary string; '
                  'the value is None or an arbitrary JSON value (also {} and "")'],
         trusted=['dicts.ensure / resolve run as real code (contracts X6d / X5d; spec_ensure / spec_resolve are their specifications)'])
def V12(vc):
    """
    view[item] = value on a MutableMappingView(src, path) -- "a mapping view with values stored and sub-dicts auto-created"
    (class docstring; docs/patches.rst: patch.spec['f'] = v; "setting a field to None deletes it from the resource" -- which
    needs the None to BE in the patch).  Abstract view before: the mapping at path (or empty).  Afterwards:
      setitem.exact      if every parent PRESENT on path is a mapping: the source equals the old source with `value` at
                         path+item, the missing parents (only those) created, every other key at every level as it was --
                         i.e. view' = view + {item: value}, and nothing outside the view changed; no result
      setitem.reads_back then view[item] (V10) gives that value, `item in view` holds
      setitem.none_is_stored_not_dropped   value None: the key is PRESENT afterwards, with null -- not skipped, not removed
      setitem.failure_leaves_source_unchanged   if the assignment raises (a present non-mapping parent cannot hold keys), the
                         source is exactly as before: no half-created parents
    """
    n = vc.nondet(3, 'len(path)')
    keys, field = _draw_path(vc, n, forms=('tuple',))
    item = vc.str('item')
    src = draw_obj(vc, 'src', keys + (item,))
    is_none = vc.nondet(2, 'value: None | an arbitrary JSON value') == 0
    value = None if is_none else draw_doc(vc, 'value')
    C = _classes(vc)
    view = _make(C.MMV, src, field)
    before = jt(src)
    outcome, res = outcome_of(C.MMV.__setitem__, view, item, value)
    after = jt(src)
    full = tuple(keys) + (item,)
    ok, expected = spec_ensure(before, full, jt(value))
    vc.ensure('setitem.exact', Implies(holds(vc, ok), And(outcome == 'return', holds(vc, after == expected))))
    vc.canary('canary.never_raises', outcome == 'return')
    vc.canary('canary.unchanged', holds(vc, after == before))
    if outcome != 'return':
        vc.ensure('setitem.failure_leaves_source_unchanged', holds(vc, after == before))
        return ('setitem', n, outcome)
    found, _, _, at = spec_resolve(after, full)
    if is_none:
        vc.ensure('setitem.none_is_stored_not_dropped', And(res is None, holds(vc, z3.And(found, at == J.JNull))))
    outcome2, got = outcome_of(view.__getitem__, item)
    vc.ensure('setitem.reads_back', And(outcome2 == 'return', holds(vc, jt(got) == jt(value)) if outcome2 == 'return' else False,
                                        item in view))
    return ('setitem', n, outcome, is_none)


# =========================================================================== V13: MutableMappingView.__delitem__
def spec_delete(t, keys, item):
    """the document t with `item` removed from the mapping at `keys`; everything else -- the emptied mapping included -- stays"""
    if not keys:
        return put(t, item, J.JAbsent)
    return put(t, keys[0], spec_delete(sel(t, keys[0]), keys[1:], item))


@harness('V13', targets=[f'{DICTS}.MutableMappingView.__delitem__'], props=P_MMV,
         clauses=['delitem.exact', 'delitem.absent_is_keyerror', 'delitem.reads_back_absent', 'delitem.failure_leaves_source_unchanged'],
         canaries=['canary.never_raises', 'canary.unchanged'],
         assumes=['V13: the source is an arbitrary JSON object; the view path has 0..2 arbitrary names; the item is an arbitrary string'],
         trusted=['dicts.resolve runs as real code (contract X5d)'])
def V13(vc):
    """
    del view[item] on a MutableMappingView(src, path), the MutableMapping protocol (pop / popitem / clear are built on it):
      delitem.exact        the item is present in the view (every step of path+item meets a mapping with the key): afterwards the
                           source equals the old one minus that one key -- view' = view - {item}; the other keys of the stanza,
                           the stanza itself (even when empty now) and everything outside it are as they were; no result
      delitem.absent_is_keyerror   the item -- or the stanza, or a parent -- is absent: KeyError (what pop(k, default) and
                           `del` on an empty dict give), the source unchanged
      delitem.reads_back_absent    after a deletion `item in view` is False and view[item] raises KeyError
      delitem.failure_leaves_source_unchanged   whenever it raises (also: a non-mapping on the way) the source is as before
    """
    n = vc.nondet(3, 'len(path)')
    keys, field = _draw_path(vc, n, forms=('tuple',))
    item = vc.str('item')
    src = draw_obj(vc, 'src', keys + (item,))
    C = _classes(vc)
    view = _make(C.MMV, src, field)
    before = jt(src)
    found, missing, nonmap, _ = spec_resolve(before, tuple(keys) + (item,))
    outcome, res = outcome_of(C.MMV.__delitem__, view, item)
    after = jt(src)
    vc.ensure('delitem.exact', Implies(holds(vc, found), And(outcome == 'return', res is None,
                                                             holds(vc, after == spec_delete(before, tuple(keys), item)))))
    vc.ensure('delitem.absent_is_keyerror', Implies(holds(vc, missing), outcome == 'KeyError'))
    vc.canary('canary.never_raises', outcome == 'return')
    vc.canary('canary.unchanged', holds(vc, after == before))
    if outcome != 'return':
        vc.ensure('delitem.failure_leaves_source_unchanged', holds(vc, after == before))
        return ('delitem', n, outcome)
    outcome2, _ = outcome_of(view.__getitem__, item)
    vc.ensure('delitem.reads_back_absent', outcome2 == 'KeyError' and (item in view) is False)
    return ('delitem', n, outcome)


# =========================================================================== V14: ReplaceableMappingView._replace_with
@harness('V14', targets=[f'{DICTS}.ReplaceableMappingView._replace_with'], props=P_RMV,
         clauses=['views_made_before_follow_the_new_source', 'latest_replacement_wins', 'views_show_the_first_source_until_replaced',
                  'returns_none_and_sources_untouched'],
         canaries=['canary.never_raises', 'canary.always_absent'],
         assumes=['V14: the first and the new source are arbitrary JSON objects (raw bodies of two watch events); the views: the '
                  'replaceable view itself, a sub-view at (k1), a sub-sub-view stacked on that at (k2), a sub-view at (k1, k2); '
                  'k1, k2 and the looked-up item arbitrary strings'],
         trusted=['dicts.resolve runs as real code (contract X5d)', 'MappingView.__init__/__getitem__ by contract V10 (extracted, inlined)'])
def V14(vc):
    """
    body._replace_with(new_raw) -- "a mapping view where the whole source can be replaced atomically.  All derived mapping views
    that use this mapping view as their source will immediately notice the change" (class docstring).  processing.process_resource_event
    re-points the LIVE body of an object's daemons / timers to the raw body of the event at hand; the daemons' kwargs (body, spec,
    meta, status, labels, annotations ...) are views made once, at spawning time, over that live body.
      views_show_the_first_source_until_replaced   before any replacement every view answers from the first source (V10's rules)
      views_made_before_follow_the_new_source      after `_replace_with(new)` the replaceable view, and every sub-view and
                                    sub-sub-view made BEFORE the replacement, answer from `new` for an arbitrary item:
                                    the value when present, KeyError when absent -- nothing of the old source shows through
      latest_replacement_wins       replaced again (back to the first source): the views answer from that one
      returns_none_and_sources_untouched   no result; neither the old nor the new source is modified
    """
    k1, k2 = vc.str('k1'), vc.str('k2')
    item = vc.str('item')
    raw1 = draw_obj(vc, 'raw1', (k1, k2, item))
    raw2 = draw_obj(vc, 'raw2', (k1, k2, item))
    t1, t2 = jt(raw1), jt(raw2)
    C = _classes(vc)
    body = _make(C.RMV, raw1)
    sub = _make(C.MV, body, (k1,))
    subsub = _make(C.MV, sub, (k2,))
    deep = _make(C.MV, body, (k1, k2))
    combos = [(w, 1) for w in range(4)] + [(1, 0), (3, 0), (0, 2), (2, 2)]
    which, phase = combos[vc.nondet(len(combos), 'observed view (the replaceable one | sub-view | stacked sub-sub-view | sub-view with a '
                                                   '2-step path) x moment (before any replacement | after one | after a second one, back '
                                                   'to the first source): every view after one; two views each before / after two')]
    view, path = [(body, ()), (sub, (k1,)), (subsub, (k1, k2)), (deep, (k1, k2))][which]
    results = []
    if phase >= 1:
        results.append(C.RMV._replace_with(body, raw2))
    if phase == 2:
        results.append(C.RMV._replace_with(body, raw1))
    clause = ['views_show_the_first_source_until_replaced', 'views_made_before_follow_the_new_source', 'latest_replacement_wins'][phase]
    outcome, _, _ = _lookup_clauses(vc, clause, view, item, t2 if phase == 1 else t1, path)
    vc.ensure('returns_none_and_sources_untouched', all(r is None for r in results) and holds(vc, z3.And(jt(raw1) == t1, jt(raw2) == t2)))
    vc.canary('canary.never_raises', outcome == 'return')
    vc.canary('canary.always_absent', outcome == 'KeyError')
    return ('replace', which, phase, outcome)


# =========================================================================== patches.Patch: shapes
def _contents(vc):
    """The dict part of a patch: empty | one key with a None value ("delete this field") | an empty-but-present stanza |
    several stanzas with nested mappings, a None, an empty string and a key with dots and a slash."""
    x, y = vc.str('x'), vc.str('y')
    return [('empty', lambda: {}),
            ('a None value', lambda: {'gone': None}),
            ('an empty stanza', lambda: {'status': {}}),
            ('stanzas', lambda: {'metadata': {'labels': {'l': x}, 'annotations': {'kopf.zalando.org/last': None}},
                                 'spec': {'s': y}, 'status': {'t': {'u': ''}}})]


def _pick(vc, options, what):
    i = vc.nondet(len(options), f'{what}: ' + ' | '.join(label for label, _ in options))
    return options[i]


def _fn(name):
    """a transformation function, as far as the patch is concerned: an object kept by identity"""
    return Opaque(name)


def _same_items(xs, ys):
    xs, ys = list(xs), list(ys)
    return len(xs) == len(ys) and all(a is b for a, b in zip(xs, ys))


def _new_patch(C, *a, **kw):
    p = C.Patch.__new__(C.Patch)
    C.Patch.__init__(p, *a, **kw)
    return p


def _prop(C, name, obj):
    cls = C.MetaPatch if name in ('labels', 'annotations') else C.Patch
    return getattr(cls, name).fget(obj)


# =========================================================================== V15: Patch.__init__
@harness('V15', targets=[f'{PATCHES}.Patch.__init__'], props=P_PATCH,
         clauses=['init.fields_copied', 'init.fns_carried_then_given', 'init.original_body_kept', 'init.own_containers',
                  'init.views_on_itself'],
         canaries=['canary.always_empty', 'canary.never_carries_fns'],
         assumes=['V15: src omitted / None / {} / a plain dict / a Patch of the shapes {empty, keys only, fns only, both} (keys: a None '
                  'value, an empty stanza, several nested stanzas); body omitted / None / a Body view / an EMPTY raw dict; fns omitted / '
                  '() / [] / a list / a tuple / a generator'],
         trusted=['MetaPatch / SpecPatch / StatusPatch construction (V18; Spec/StatusPatch.__init__ run as real code)',
                  'nested stanzas of src are shared with the new patch (dict(src) is a shallow copy): independence is claimed for '
                  'the top-level mapping and the fns list only -- at the call sites src is a fresh dict literal or a remaining patch '
                  'that carries fns only'])
def V15(vc):
    """
    Patch(src=None, /, body=None, fns=()) -- processing.process_resource_event / daemons: `Patch(memory.remaining_patch, body=body)`
    carries the not-yet-applied transformations into the next cycle; patching.patch_obj: `Patch(fns=patch.fns)`; admission:
    `Patch(body=body)`; peering / configuration managers: `Patch()` / `Patch({...})`.  Abstract view: (dict, fns, original).
      init.fields_copied            dict(patch) == dict(src or {}): every key of src with its very value -- a None value ("delete
                                    this field"), an empty stanza, nested stanzas are all there; nothing else
      init.fns_carried_then_given   patch.fns == (src.fns if src is a Patch else []) + list(fns), the same objects in that order
                                    -- the transformations of a remaining patch are not lost, the given ones come after
      init.original_body_kept       the `body` given (also an empty one) is what as_json_patch() / patch_obj use as the reference
                                    (`_original`, read by contract A5 and by patching.patch_obj); None when not given
      init.own_containers           the new patch is a new mapping with a new fns list: adding a key / a transformation to it
                                    changes neither src (its keys, its fns) nor the `fns` argument, and later changes of those
                                    do not show in the new patch -- clear() of one never empties the other
      init.views_on_itself          .meta / .metadata / .spec / .status (and .meta.labels) of the new patch write into the NEW
                                    patch's stanzas, creating them when missing; src does not get a new stanza
    """
    from kopf._cogs.structs import bodies, patches
    C = _classes(vc)
    f1, f2, g1, g2, h = _fn('f1'), _fn('f2'), _fn('g1'), _fn('g2'), _fn('h')
    contents = _contents(vc)
    src_kind = vc.nondet(5, 'src: omitted | None | {} | a plain dict | a Patch')
    src_fns, clabel = [], 'empty'
    if src_kind <= 1:
        src = None
    elif src_kind == 2:
        src = {}
    elif src_kind == 3:
        clabel, make = _pick(vc, contents[1:], 'content')
        src = make()
    else:
        clabel, make = _pick(vc, contents, 'content')
        content = make()
        src_fns = [[], [f1], [f1, f2]][vc.nondet(3, 'fns of src: none | one | two')]
        src = patches.Patch(content, fns=list(src_fns))
    # the two keyword arguments are handled independently of each other: every value of each, not the full product
    body_kind, fns_kind = [(0, 0), (1, 1), (2, 2), (3, 3), (2, 4), (3, 5), (0, 3)][vc.nondet(7, 'body (omitted | None | a Body view | an empty '
                                                                                           'raw dict) and fns (omitted | () | [] | a list of one | a tuple of two | a generator of two)')]
    body = [None, None, bodies.Body({'metadata': {'name': 'n'}}), {}][body_kind]
    given = [None, (), [], [g1], (g1, g2), (g for g in (g1, g2))]
    fns_arg = given[fns_kind]
    given_items = [[], [], [], [g1], [g1, g2], [g1, g2]][fns_kind]
    args = () if src_kind == 0 else (src,)
    kw = ({} if body_kind == 0 else {'body': body}) | ({} if fns_kind == 0 else {'fns': fns_arg})
    src_snap = _copy_tree(dict(src)) if src is not None else {}
    p = _new_patch(C, *args, **kw)
    fns = _prop(C, 'fns', p)
    vc.ensure('init.fields_copied', _same_tree(dict(p), src_snap) and len(p) == len(src_snap))
    vc.ensure('init.fns_carried_then_given', type(fns) is list and _same_items(fns, src_fns + given_items))
    vc.ensure('init.original_body_kept', p._original is body)
    if not fns and clabel != 'stanzas':
        # seen through as_json_patch() without an argument (contract A5; all-concrete shapes): an empty patch gives no ops
        # whatever the body; a non-empty one needs the reference body -- the one given here, even an empty one -- else ValueError
        outcome, ops = outcome_of(patches.Patch.as_json_patch, p)
        vc.ensure('init.original_body_kept', (outcome == 'return' and ops == []) if len(src_snap) == 0 else
                  outcome == 'ValueError' if body is None else (outcome == 'return' and type(ops) is list))
    vc.canary('canary.always_empty', not dict(p))
    vc.canary('canary.never_carries_fns', not fns)
    # --- own containers: changes of the new patch do not reach the sources ...
    own = p is not src and (src_kind != 4 or fns is not src.fns) and fns is not fns_arg
    p['added'] = 1
    fns.append(h)
    if src is not None:
        own = own and sorted(src) == sorted(src_snap)
    if src_kind == 4:
        own = own and _same_items(src.fns, src_fns)
    if isinstance(fns_arg, list):
        own = own and _same_items(fns_arg, given_items)
    # ... and later changes of the sources do not reach the new patch
    if src is not None:
        src['later'] = 2
    if src_kind == 4:
        src.fns.append(_fn('later'))
    if isinstance(fns_arg, list):
        fns_arg.append(_fn('later'))
    own = own and sorted(p) == sorted(list(src_snap) + ['added']) and _same_items(_prop(C, 'fns', p), src_fns + given_items + [h])
    vc.ensure('init.own_containers', own)
    # --- the views of the new patch are views of the new patch
    v = vc.str('v')
    src_keys = sorted(src) if src is not None else []
    ok = True
    for name, stanza in (('meta', 'metadata'), ('metadata', 'metadata'), ('spec', 'spec'), ('status', 'status')):
        _prop(C, name, p)[f'via-{name}'] = v
        ok = ok and isinstance(p.get(stanza), dict) and p[stanza].get(f'via-{name}') is v
    _prop(C, 'labels', _prop(C, 'meta', p))['lab'] = None
    ok = ok and 'lab' in p['metadata'].get('labels', {}) and p['metadata']['labels']['lab'] is None
    ok = ok and (src is None or sorted(src) == src_keys)
    vc.ensure('init.views_on_itself', ok)
    return ('init', src_kind, body_kind, fns_kind, len(p), len(fns))


# =========================================================================== V16: Patch.__bool__ / clear / fns
@harness('V16', targets=[f'{PATCHES}.Patch.__bool__', f'{PATCHES}.Patch.clear', f'{PATCHES}.Patch.fns'], props=P_PATCH,
         clauses=['bool.true_iff_fields_or_fns', 'bool.is_pure_and_follows_changes', 'fns.is_the_patch_own_live_list',
                  'clear.empties_fields_and_fns', 'clear.keeps_the_patch_usable', 'clear.touches_nothing_else'],
         canaries=['canary.always_truthy', 'canary.always_falsy'],
         assumes=['V16: patches of the shapes {empty, keys only, fns only, both}; keys: one key with a None value, one empty stanza, '
                  'several nested stanzas; fns: none, one, two; with or without an original body; made directly or from another patch'],
         trusted=['Patch.__init__ by contract V15 (extracted, inlined)'])
def V16(vc):
    """
    The patch as the orchestration sees it (docs/patches.rst; the SymPatch model of c06_processing / c08_patching trusts exactly this):
      bool.true_iff_fields_or_fns     bool(patch) is True iff the dict part has at least one key OR there is at least one
                                      transformation function: an fns-only patch is truthy (the finalizer edits must be sent),
                                      a key whose value is None / {} counts (bool(patch) is not bool of the values), the empty
                                      patch is falsy (nothing is sent); the result is a real bool
      bool.is_pure_and_follows_changes   asking changes nothing; after a key or a function is added / the last one removed, the
                                      answer follows
      fns.is_the_patch_own_live_list  patch.fns is a list, the same object at every access: a function appended to it (docs:
                                      `patch.fns.append(fn)`) is in patch.fns afterwards, makes the patch truthy, and is carried
                                      into Patch(patch) -- it is not appended to a copy
      clear.empties_fields_and_fns    clear() removes every key AND every function (docs: "after the patch is applied, it is
                                      cleared for the next iteration"): falsy afterwards; no result
      clear.keeps_the_patch_usable    the same patch object, its views and its fns keep working afterwards: patch.status[k] = v
                                      and patch.fns.append(fn) land in it as in a new patch
      clear.touches_nothing_else      the original body stays; the patch this one was made from (Patch(other)) keeps its keys and
                                      its functions
    """
    from kopf._cogs.structs import bodies, patches
    C = _classes(vc)
    f1, f2, h = _fn('f1'), _fn('f2'), _fn('h')
    label, make = _pick(vc, _contents(vc), 'content')
    content = make()
    the_fns = [[], [f1], [f1, f2]][vc.nondet(3, 'fns: none | one | two')]
    body = [None, bodies.Body({'metadata': {'name': 'n'}})][vc.nondet(2, 'original body: none | a Body')]
    other = None
    if vc.nondet(2, 'made: directly | from another patch') == 0:
        p = _new_patch(C, content, body=body, fns=list(the_fns))
    else:
        other = patches.Patch(content, fns=list(the_fns))
        p = _new_patch(C, other, body=body)
    snap = _copy_tree(dict(p))
    expected = len(content) > 0 or len(the_fns) > 0
    scenario = vc.nondet(3, 'scenario: bool | fns | clear')
    if scenario == 0:
        r = C.Patch.__bool__(p)
        vc.ensure('bool.true_iff_fields_or_fns', r is expected)
        vc.canary('canary.always_truthy', r is True)
        vc.canary('canary.always_falsy', r is False)
        pure = _same_tree(dict(p), snap) and _same_items(_prop(C, 'fns', p), the_fns)
        change = vc.nondet(3, 'then: a key is added | a function is appended | everything is removed by hand')
        if change == 0:
            p['more'] = None
        elif change == 1:
            _prop(C, 'fns', p).append(h)
        else:
            for k in list(p):
                del p[k]
            del _prop(C, 'fns', p)[:]
        r2 = C.Patch.__bool__(p)
        vc.ensure('bool.is_pure_and_follows_changes', pure and r2 is (change != 2) and (not p) is (change == 2))
        return ('bool', label, len(the_fns), r, change)
    if scenario == 1:
        a, b = _prop(C, 'fns', p), _prop(C, 'fns', p)
        ok = type(a) is list and a is b and _same_items(a, the_fns)
        a.append(h)
        c = _prop(C, 'fns', p)
        ok = ok and _same_items(c, the_fns + [h]) and C.Patch.__bool__(p) is True and _same_tree(dict(p), snap)
        carried = _new_patch(C, p)
        ok = ok and _same_items(_prop(C, 'fns', carried), the_fns + [h])
        vc.ensure('fns.is_the_patch_own_live_list', ok)
        vc.canary('canary.always_truthy', expected)
        vc.canary('canary.always_falsy', not expected)
        return ('fns', label, len(the_fns))
    views = {name: _prop(C, name, p) for name in ('meta', 'spec', 'status')}
    held = _prop(C, 'fns', p)
    r = C.Patch.clear(p)
    now = _prop(C, 'fns', p)
    vc.ensure('clear.empties_fields_and_fns', r is None and len(p) == 0 and list(p) == [] and type(now) is list and len(now) == 0
              and C.Patch.__bool__(p) is False)
    vc.canary('canary.always_truthy', expected)
    vc.canary('canary.always_falsy', not expected)
    vc.ensure('clear.touches_nothing_else', p._original is body and
              (other is None or (_same_tree(dict(other), snap) and _same_items(other.fns, the_fns))))
    v = vc.str('v')
    views['status']['k'] = v
    _prop(C, 'status', p)['k2'] = None
    _prop(C, 'fns', p).append(h)
    usable = sorted(p) == ['status'] and sorted(p['status']) == ['k', 'k2'] and p['status']['k'] is v and p['status']['k2'] is None
    usable = usable and _same_items(_prop(C, 'fns', p), [h]) and C.Patch.__bool__(p) is True
    views['meta']['name'] = v
    views['spec']['f'] = v
    usable = usable and p.get('metadata') == {'name': v} and p.get('spec') == {'f': v}
    vc.ensure('clear.keeps_the_patch_usable', usable)
    return ('clear', label, len(the_fns), other is None)


# =========================================================================== V17: Patch.meta / metadata / spec / status
_KEYS = ['k', 'kopf.zalando.org/touch~dummy', '']


def _values(vc):
    z = vc.str('z')
    return [('None', None), ('an empty string', ''), ('a string', z), ('an empty mapping', {}), ('a nested mapping', {'n': z, 'gone': None})]


def _expect_write(snapshot, path, key, value):
    """SPEC: the document with `value` under `key` in the mapping at `path`; the mappings missing on the way created; the rest as is"""
    out = _copy_tree(snapshot)
    cur = out
    for k in path:
        cur = cur.setdefault(k, {})
    cur[key] = value
    return out


@harness('V17', targets=[f'{PATCHES}.Patch.{n}' for n in ('meta', 'metadata', 'spec', 'status')], props=P_PATCH,
         clauses=['stanza.reads_the_patch_stanza', 'stanza.writes_land_in_the_patch_stanza', 'stanza.same_view_at_every_access',
                  'stanza.meta_is_metadata', 'stanza.of_this_patch_only'],
         canaries=['canary.stanza_always_empty', 'canary.always_none'],
         assumes=['V17: patches with the dict parts of V16 and one transformation function; keys: a plain one, one with dots / slash / tilde, the empty string; values: None, "", '
                  'an arbitrary string, {}, a nested mapping holding a None'],
         trusted=['Patch.__init__ by contract V15; MutableMappingView / MappingView by contracts V10..V13 (extracted, inlined)'])
def V17(vc):
    """
    patch.meta / patch.metadata / patch.spec / patch.status (docs/patches.rst: `patch.spec['greeting'] = 'hello'`,
    `patch.status['state'] = ...`, "setting a field to None deletes it from the resource"): each is a mutable view of the
    stanza of THIS patch with that name -- 'metadata' for meta and metadata, 'spec', 'status'.
      stanza.reads_the_patch_stanza          dict(view) is the stanza of the patch (empty when the patch has none; an
                                             empty-but-present stanza reads as empty too), with the very values
      stanza.writes_land_in_the_patch_stanza view[key] = value: afterwards the WHOLE patch equals the old patch with
                                             patch[stanza][key] = value -- the stanza created if it was missing, its other keys,
                                             the other stanzas and the fns untouched; a None / '' / {} value is stored as such;
                                             a key with dots, slashes or tildes is ONE key (not a path)
      stanza.same_view_at_every_access       what was written through the property once is read through it at the next access
      stanza.meta_is_metadata                .meta and .metadata are two names of one stanza: written through one, read through
                                             the other; spec / status writes do not show in metadata and vice versa
      stanza.of_this_patch_only              the views of one patch never write into (or read from) another patch
    """
    C = _classes(vc)
    f1 = _fn('f1')
    label, make = _pick(vc, _contents(vc), 'content')
    the_fns = [f1]
    p = _new_patch(C, make(), fns=list(the_fns))
    q = _new_patch(C, make())
    name = ['meta', 'metadata', 'spec', 'status'][vc.nondet(4, 'property: meta | metadata | spec | status')]
    stanza = 'metadata' if name in ('meta', 'metadata') else name
    view = _prop(C, name, p)
    snap, snap_q = _copy_tree(dict(p)), _copy_tree(dict(q))
    was = snap.get(stanza, {})
    vc.ensure('stanza.reads_the_patch_stanza', isinstance(view, C.MMV) and _same_tree(dict(view), was) and len(view) == len(was))
    vc.canary('canary.stanza_always_empty', len(view) == 0)
    key = _KEYS[vc.nondet(len(_KEYS), 'key: plain | with dots, slash, tilde | empty')]
    vlabel, value = _pick(vc, _values(vc), 'value')
    view[key] = value
    vc.ensure('stanza.writes_land_in_the_patch_stanza', _same_tree(dict(p), _expect_write(snap, (stanza,), key, value))
              and _same_items(_prop(C, 'fns', p), the_fns))
    vc.canary('canary.always_none', value is None)
    again = _prop(C, name, p)
    default = Opaque('default')
    vc.ensure('stanza.same_view_at_every_access', key in again and _same_tree(again.get(key, default), value))
    alias = {'meta': 'metadata', 'metadata': 'meta'}
    others = [n for n in ('metadata', 'spec', 'status') if n != stanza]
    if name in alias:
        vc.ensure('stanza.meta_is_metadata', _same_tree(_prop(C, alias[name], p).get(key, default), value))
    vc.ensure('stanza.meta_is_metadata', all(_same_tree(dict(_prop(C, n, p)), snap.get(n, {})) for n in others))
    vc.ensure('stanza.of_this_patch_only', _same_tree(dict(q), snap_q) and all(key not in _prop(C, n, q) or key in snap_q.get(s, {})
                                                                               for n, s in (('meta', 'metadata'), ('spec', 'spec'), ('status', 'status'))))
    return ('stanza', label, name, key, vlabel)


# =========================================================================== V18: MetaPatch.__init__ / labels / annotations
@harness('V18', targets=[f'{PATCHES}.MetaPatch.__init__', f'{PATCHES}.MetaPatch.labels', f'{PATCHES}.MetaPatch.annotations'], props=P_META,
         clauses=['metapatch_is_the_metadata_view', 'substanza.reads_metadata_substanza', 'substanza.writes_land_in_metadata_substanza',
                  'substanza.delete_removes_only_that_key', 'substanza.same_view_at_every_access'],
         canaries=['canary.always_empty', 'canary.delete_always_fails'],
         assumes=['V18: the patch has no metadata / an empty metadata / metadata with an EMPTY labels mapping only / metadata with labels '
                  '(an empty-string value), annotations (a None value, a key with dots and a slash) and a name; plus other stanzas; keys '
                  'and values as in V17 (strings, "", None)'],
         trusted=['MutableMappingView / MappingView by contracts V10..V13 (extracted, inlined); Patch is a dict'])
def V18(vc):
    """
    MetaPatch(patch) and its .labels / .annotations (tips-and-tricks.rst: `patch.metadata.annotations['...'] = 'yes'`; the
    diff-base and progress storages write `patch.metadata.annotations[key] = value / None`): views of patch['metadata'],
    patch['metadata']['labels'], patch['metadata']['annotations'] of the patch given -- live, creating what is missing on a write.
      metapatch_is_the_metadata_view              dict(meta) is patch['metadata'] (or empty); meta[key] = value lands in
                                                  patch['metadata'][key], the whole patch otherwise as before
      substanza.reads_metadata_substanza          dict(meta.labels) is patch['metadata']['labels'] and dict(meta.annotations) is
                                                  patch['metadata']['annotations'] -- each its own, or empty when absent
      substanza.writes_land_in_metadata_substanza view[key] = value: the whole patch afterwards is the old one with
                                                  patch['metadata'][<labels|annotations>][key] = value: 'metadata' and the
                                                  sub-stanza created only if missing, the OTHER sub-stanza, name, spec, status
                                                  untouched; None and '' are stored; 'a.b/c' is one key
      substanza.delete_removes_only_that_key      del view[key]: a present key (also one holding None) goes, the rest of the patch
                                                  stays; an absent key / absent sub-stanza: KeyError, the patch unchanged
      substanza.same_view_at_every_access         written through .labels once, read through .labels at the next access
    """
    C = _classes(vc)
    x = vc.str('x')
    metas = [('no metadata', None), ('empty metadata', lambda: {}), ('empty labels only', lambda: {'labels': {}}),
             ('filled', lambda: {'labels': {'l': '', 'm': x}, 'annotations': {'kopf.zalando.org/last': None, 'k': x}, 'name': 'n'})]
    mlabel, mk = _pick(vc, metas, 'metadata')
    p = _new_patch(C, {'spec': {'s': x}, 'status': {}})
    if mk is not None:
        p['metadata'] = mk()
    meta = C.MetaPatch.__new__(C.MetaPatch)
    C.MetaPatch.__init__(meta, p)
    snap = _copy_tree(dict(p))
    md = snap.get('metadata', {})
    sub = ['labels', 'annotations'][vc.nondet(2, 'sub-stanza: labels | annotations')]
    other = 'annotations' if sub == 'labels' else 'labels'
    view = _prop(C, sub, meta)
    vc.ensure('metapatch_is_the_metadata_view', isinstance(meta, C.MMV) and _same_tree(dict(meta), md))
    vc.ensure('substanza.reads_metadata_substanza', isinstance(view, C.MMV) and _same_tree(dict(view), md.get(sub, {}))
              and _same_tree(dict(_prop(C, other, meta)), md.get(other, {})) and _same_tree(dict(p), snap))
    vc.canary('canary.always_empty', len(view) == 0)
    op = vc.nondet(3, 'operation: write through the sub-stanza view | write through the meta view itself | delete')
    default = Opaque('default')
    if op == 2:
        key = ['k', 'kopf.zalando.org/last', 'l', 'absent'][vc.nondet(4, 'key: k | kopf.zalando.org/last | l | absent')]
        present = key in md.get(sub, {})
        outcome, _ = outcome_of(view.__delitem__, key)
        vc.canary('canary.delete_always_fails', outcome != 'return')
        if present:
            expected = _copy_tree(snap)
            del expected['metadata'][sub][key]
            vc.ensure('substanza.delete_removes_only_that_key', outcome == 'return' and _same_tree(dict(p), expected) and key not in view)
        else:
            vc.ensure('substanza.delete_removes_only_that_key', outcome == 'KeyError' and _same_tree(dict(p), snap))
        return ('delete', mlabel, sub, key, outcome)
    key = _KEYS[vc.nondet(len(_KEYS), 'key: plain | with dots, slash, tilde | empty')]
    vlabel, value = _pick(vc, _values(vc)[:3], 'value')
    if op == 1:
        meta[key] = value
        vc.ensure('metapatch_is_the_metadata_view', _same_tree(dict(p), _expect_write(snap, ('metadata',), key, value))
                  and key in meta and _same_tree(meta.get(key, default), value))
        return ('write-meta', mlabel, key, vlabel)
    view[key] = value
    vc.ensure('substanza.writes_land_in_metadata_substanza', _same_tree(dict(p), _expect_write(snap, ('metadata', sub), key, value)))
    again = _prop(C, sub, meta)
    vc.ensure('substanza.same_view_at_every_access', key in again and _same_tree(again.get(key, default), value)
              and _same_tree(dict(_prop(C, other, meta)), md.get(other, {})))
    return ('write', mlabel, sub, key, vlabel)


# =========================================================================== V14b: bodies.Body as a replaceable view
@harness('V14b', targets=['kopf._cogs.structs.bodies.Body', 'kopf._cogs.structs.bodies.Meta'], props=P_RMV,
         clauses=['body_views_follow_every_replacement', 'replacement_is_unconditional'],
         canaries=['canary.views_never_change'],
         trusted=['the real bodies.Body / Meta / Spec / Status classes run natively on concrete raw bodies with symbolic leaf values'],
         assumes=['V14b: raw bodies of the enumerated shapes (metadata with/without resourceVersion, annotations, labels; spec; status); '
                  'resourceVersions from {absent, "5", "9", "10", "99999", "100000", "abc"} in every order'])
def V14b(vc):
    """
    bodies.Body is the ReplaceableMappingView the framework keeps per object with daemons/timers (`live_fresh_body`) and refreshes
    with `_replace_with(raw_body)` at EVERY event; the same object is then the body of the change handlers (C07: the barrier is
    cleared by version EQUALITY, assuming the processor serves exactly that event's body), of cause detection (C03-C05: the
    stored last-handled state is read through body.metadata.annotations) and of the daemons (C09, C10).
      body_views_follow_every_replacement   after _replace_with(new): the body, body.metadata / body.meta, .metadata.annotations,
                                            .metadata.labels, .spec and .status -- views made BEFORE the replacement -- all show
                                            `new`, whatever they were built over (C03-8/C04-8/C05-8: views bound to the raw dict);
      replacement_is_unconditional          whatever the resourceVersions of the old and the new source are -- absent, equal,
                                            "older" (a re-listing may legitimately go back), longer or shorter strings (C07-8:
                                            '10' < '9' as strings).
    """
    from kopf._cogs.structs import bodies
    versions = [None, '5', '9', '10', '99999', '100000', 'abc']
    v_old = versions[vc.nondet(len(versions), 'resourceVersion of the first source')]
    v_new = versions[vc.nondet(len(versions), 'resourceVersion of the new source')]

    def raw(tag, version, full):
        meta = {'name': 'n', 'uid': f'uid-{tag}'}
        if version is not None:
            meta['resourceVersion'] = version
        if full:
            meta['annotations'] = {'kopf.zalando.org/last-handled-configuration': vc.str(f'{tag}.last-handled'), 'a': vc.str(f'{tag}.a')}
            meta['labels'] = {'l': vc.str(f'{tag}.l')}
        d = {'metadata': meta, 'spec': {'x': vc.str(f'{tag}.x')}}
        if full:
            d['status'] = {'s': vc.str(f'{tag}.s')}
        return d
    first = raw('old', v_old, vc.nondet(2, 'first source: full / bare') == 0)
    new = raw('new', v_new, vc.nondet(2, 'new source: full / bare') == 0)
    body = bodies.Body(first)
    views = dict(meta=body.meta, metadata=body.metadata, annotations=body.metadata.annotations, labels=body.metadata.labels,
                 spec=body.spec, status=body.status)
    r = body._replace_with(new)

    def shows(view, src):
        return dict(view) == dict(src)
    ok = (r is None and dict(body) == new and shows(views['meta'], new['metadata']) and shows(views['metadata'], new['metadata'])
          and shows(views['annotations'], new['metadata'].get('annotations', {})) and shows(views['labels'], new['metadata'].get('labels', {}))
          and shows(views['spec'], new['spec']) and shows(views['status'], new.get('status', {}))
          and body.metadata.get('resourceVersion') == v_new and body.meta.annotations.get('a') is new['metadata'].get('annotations', {}).get('a'))
    vc.ensure('body_views_follow_every_replacement', ok)
    vc.ensure('replacement_is_unconditional', body.get('metadata') is new['metadata'] and body.metadata.get('uid') == 'uid-new')
    vc.canary('canary.views_never_change', views['metadata'].get('uid') == 'uid-old')
    return ('replaced', v_old, v_new)
