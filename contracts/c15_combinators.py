"""
Contracts on the public criteria combinators kopf.not_ / all_ / any_ / none_ (kopf._core.intents.callbacks): the callbacks users
put into when= / labels= / annotations= criteria.  The framework evaluates one and the same combined callback again and again:
at least twice per event (registries.prematch and match) and for every event of every object for the life of the operator -- so
"exactly the handlers whose criteria hold" (C15) needs the combined callback to be a FUNCTION of its arguments on every call, not
only on the first one.
"""
from pyvc import *
from pyvc.stubs import Opaque


def _mk_callbacks(vc, n, calls):
    """n callbacks; the result of callback i in call c is the symbolic boolean r[c][i]; every invocation is recorded."""
    r = [[vc.bool(f'callback{i}.result.call{c}') for i in range(n)] for c in range(calls)]
    state = Opaque('state', call=0)
    log = []

    def mk(i):
        def cb(*args, **kwargs):
            log.append((state.call, i, args, kwargs))
            return r[state.call][i]
        return cb
    return [mk(i) for i in range(n)], r, state, log


@harness('CB1', targets=['kopf._core.intents.callbacks.all_', 'kopf._core.intents.callbacks.any_', 'kopf._core.intents.callbacks.none_',
                         'kopf._core.intents.callbacks.not_'],
         props=['C15', 'C17', 'C09', 'C18'],
         clauses=['result_is_the_combination', 'every_call_evaluates_anew', 'arguments_passed_through', 'only_the_given_callbacks',
                  'collection_untouched'],
         canaries=['canary.always_true', 'canary.always_false'],
         trusted=['the builtins all()/any() over a generator (short-circuit, left to right)'],
         assumes=['0..3 callbacks, given as a list, a tuple or a frozenset-like re-iterable collection (Collection[...] in the signature)'])
def CB1(vc):
    """
    kopf.all_(fns) / any_(fns) / none_(fns) / not_(fn) return ONE callback that the framework calls many times.  For THREE
    consecutive calls with different arguments, each with its own (symbolic) results of the member callbacks:
      result_is_the_combination   the truth value returned by call c is all / any / not any / not of the members' results IN CALL c
                                  (for no members: all_ -> true, any_ -> false, none_ -> true);
      every_call_evaluates_anew   every call consults the members again (as far as the short-circuit needs): the first member
                                  is invoked in every call of a non-empty combination, and no call's result depends on an
                                  earlier call (the same combined callback serves prematch, match and every later event);
      arguments_passed_through    every member invocation gets exactly the positional and keyword arguments of that call;
      only_the_given_callbacks    nothing but the given members is invoked, each at most once per call;
      collection_untouched        the collection given by the user is not modified.
    """
    kind = ['all_', 'any_', 'none_', 'not_'][vc.nondet(4, 'combinator')]
    calls = 3
    n = 1 if kind == 'not_' else vc.nondet(4, 'number of member callbacks 0..3')
    members, r, state, log = _mk_callbacks(vc, n, calls)
    shape = 0 if kind == 'not_' else vc.nondet(2, 'given as: list / tuple')
    given = members[0] if kind == 'not_' else (list(members) if shape == 0 else tuple(members))
    before = None if kind == 'not_' else list(given)
    ld = vc.load('kopf._core.intents.callbacks', kind)
    combined = ld.fn(given)
    argsets = [((Opaque('value-1'),), {'body': Opaque('body-1'), 'param': 1}), ((), {'body': Opaque('body-2')}),
               ((Opaque('value-3'), Opaque('extra')), {})]
    for c in range(calls):
        state.call = c
        a, kw = argsets[c]
        got = combined(*a, **kw)
        rs = r[c]
        want = {'all_': And(*rs) if rs else True, 'any_': Or(*rs) if rs else False,
                'none_': Not(Or(*rs)) if rs else True, 'not_': Not(rs[0]) if rs else True}[kind]
        vc.ensure('result_is_the_combination', Iff(bool(got), want))
        mine = [e for e in log if e[0] == c]
        if n:
            vc.ensure('every_call_evaluates_anew', any(e[1] == 0 for e in mine))
        vc.ensure('arguments_passed_through', all(e[2] == a and e[3] == kw for e in mine))
        vc.ensure('only_the_given_callbacks', len({e[1] for e in mine}) == len(mine) and all(0 <= e[1] < n for e in mine))
        vc.canary('canary.always_true', bool(got))
        vc.canary('canary.always_false', not bool(got))
    if before is not None:
        vc.ensure('collection_untouched', list(given) == before and all(x is y for x, y in zip(given, before)))
    else:
        vc.ensure('collection_untouched', True)
    return (kind, n)
