"""
Fifth wave (builder build-patches): DEDUCTIVE contracts for functions that so far had only the bounded stand-ins A5
(contracts/c18_admission.py) and E3 (contracts/c04_essence.py).

  patches.py   A5r D  Patch._apply_patch     modular proof of the RECURSIVE merge against its own contract (RFC 7386 at a path)
               A5j D  Patch.as_json_patch    diff of (body as is) vs (deep copy + merge by contract A5r + fns in order)
  diffs.py     E3w D  diff / reduce          thin wrappers over diff_iter / reduce_iter (contract E3d)
  handlers.py  E3a D  ResourceHandler.adjust_cause (+ the base execution.Handler.adjust_cause)
"""
import collections.abc
import copy
import dataclasses
import types

import z3

from pyvc import *
from pyvc.stubs import Opaque, NullLogger
from pyvc.values import J

from contracts.w2_storage import (DICTS, EMPTY_OBJ, contract_dicts, draw_doc, draw_keys, draw_obj, holds, jt, outcome_of, put,
                                  sel, spec_ensure, spec_remove)

PATCHES = 'kopf._cogs.structs.patches'
DIFFS = 'kopf._cogs.structs.diffs'
P_A5 = ['C18', 'C06', 'C08', 'C03', 'C13', 'C16']
P_E3 = ['C04', 'C15', 'C03', 'C14', 'C17', 'C18', 'C05']


# =========================================================================== A5r: Patch._apply_patch
# ---- the specification: RFC 7386 (JSON merge patch), section 2, AT A PATH of a document; written from the RFC as formulas over
# the document term.  `value` is concrete-structured (None / a real dict / a leaf), so the recursion is over its structure.
def at(t, path):
    """The value at the path; <absent> when a key or a parent is missing (or a parent is not a mapping)."""
    cur = t
    for k in path:
        cur = z3.If(J.is_JObj(cur), sel(cur, k), J.JAbsent)
    return cur


def spec_del(t, keys):
    """`remove the name/value pair` (RFC 7386): the key at the path is gone; nothing else; nothing to do when a parent is missing."""
    k = keys[0]
    if len(keys) == 1:
        return z3.If(J.is_JObj(t), put(t, k, J.JAbsent), t)
    child = sel(t, k)
    return z3.If(z3.And(J.is_JObj(t), J.is_JObj(child)), put(t, k, spec_del(child, keys[1:])), t)


def spec_set(t, path, v):
    return spec_ensure(t, path, v)[1]


def merge_at(t, path, value):
    """MergePatch(Target = the value at `path` of t, Patch = value) of RFC 7386, put back at the path."""
    if value is None:
        return spec_del(t, path)
    if isinstance(value, dict):
        if path:    # "if Target is not an Object: Target = {}"
            t = z3.If(J.is_JObj(at(t, path)), t, spec_set(t, path, EMPTY_OBJ))
        for k, v in value.items():
            t = merge_at(t, path + (k,), v)
        return t
    return spec_set(t, path, jt(value))


def norm(t, path, value):
    """Normal form "up to the presence of empty mappings" (the reading of A5): along the paths the patch names, innermost first, a
    mapping that is empty -- or missing below an empty parent -- is dropped together with the parents emptied thereby (what
    dicts.remove does, X7d).  Nothing else of the document is touched."""
    if isinstance(value, dict):
        for k, v in value.items():
            t = norm(t, path + (k,), v)
    if not path:
        return t
    here = at(t, path)
    return z3.If(z3.Or(J.is_JAbsent(here), here == EMPTY_OBJ), spec_remove(t, path)[1], t)


def wf_parents(t, path):
    """Every PROPER prefix of the path is a mapping or missing (never a present non-mapping); the document is a mapping."""
    return z3.And(J.is_JObj(t), *[z3.Or(J.is_JAbsent(at(t, path[:i])), J.is_JObj(at(t, path[:i]))) for i in range(1, len(path))])


# ---- the same, natively on plain dicts: the implementation of the sub-tree contract in the concrete re-run
_ABS = object()


def py_at(d, path):
    for k in path:
        if not isinstance(d, dict) or k not in d:
            return _ABS
        d = d[k]
    return d


def py_set(d, path, v):
    for k in path[:-1]:
        d = d.setdefault(k, {})
    d[path[-1]] = v


def py_merge_at(d, path, value):
    if value is None:
        parent = py_at(d, path[:-1])
        if isinstance(parent, dict):
            parent.pop(path[-1], None)
    elif isinstance(value, dict):
        if path and not isinstance(py_at(d, path), dict):
            py_set(d, path, {})
        for k, v in value.items():
            py_merge_at(d, path + (k,), v)
    else:
        py_set(d, path, copy.deepcopy(value))


def py_norm(d, path, value):
    if isinstance(value, dict):
        for k, v in value.items():
            py_norm(d, path + (k,), v)
    if path and (py_at(d, path) is _ABS or (isinstance(py_at(d, path), dict) and not py_at(d, path))):
        for i in range(len(path), 0, -1):       # the key, then every parent that is an empty mapping now, innermost first
            parent = py_at(d, path[:i - 1])
            if not isinstance(parent, dict):
                continue
            if i == len(path) or (isinstance(parent.get(path[i - 1]), dict) and not parent[path[i - 1]]):
                parent.pop(path[i - 1], None)
            else:
                break


A5R_SUBVALUES = ['none', 'zero', 'leaf', 'empty', 'nested']


def _a5r_subvalue(vc, name, kinds=A5R_SUBVALUES):
    kind = kinds[vc.nondet(len(kinds), f'{name}: ' + ' | '.join(kinds))]
    if kind == 'none':
        return None
    if kind == 'zero':
        return 0
    if kind == 'leaf':
        return _draw_leaf(vc, name)
    if kind == 'empty':
        return {}
    if kind == 'nested1':
        return {'gone': None, 'kept': 0}
    return {'gone': None, 'kept': 0, 'deep': {'gone': None}}


def _draw_leaf(vc, name):
    """An arbitrary JSON value that is neither null nor a mapping: a string, a number, a boolean, a list of anything."""
    leaf = draw_doc(vc, name)
    if vc.concrete:
        vc.assume(leaf is not None and not isinstance(leaf, dict), 'a leaf')
    else:
        vc.assume(z3.Not(z3.Or(J.is_JObj(leaf.term), J.is_JNull(leaf.term))), 'a leaf')
    return leaf


def _has_marker(value):
    return isinstance(value, dict) and any(v is None or _has_marker(v) for v in value.values())


def _marker_paths(value, path=()):
    for k, v in (value.items() if isinstance(value, dict) else ()):
        if v is None:
            yield path + (k,)
        else:
            yield from _marker_paths(v, path + (k,))


@harness('A5r', targets=[f'{PATCHES}.Patch._apply_patch'], props=P_A5,
         clauses=['none_removes_the_key', 'leaf_sets_the_value', 'mapping_merges_key_by_key', 'no_deletion_marker_survives',
                  'frame', 'never_raises', 'recursion.precondition', 'recursion.descends_once_per_key'],
         canaries=['canary.body_unchanged', 'canary.never_descends', 'canary.always_descends'],
         trusted=['dicts.resolve / ensure / remove by contract (X5d / X6d / X7d)'],
         assumes=['A5r: body is an ARBITRARY JSON object (vc.json: any depth). DOMAIN (cut to the 30 s budget; the rest: A5rm, bounded A5): '
                  'at the ROOT path () (the entry call of as_json_patch): value = {} | a one-key mapping {ka: None / 0 / arbitrary leaf / {} / '
                  'a mapping with None markers at two depths} | a two-key mapping {ka: None / 0 / {}, kb: None / arbitrary leaf}; at a path of '
                  'ONE arbitrary name: value = None | 0 / False / "" / [] / [None] | an arbitrary JSON leaf (string, number, boolean, list) | {}. '
                  'Paths of length >= 2 (where dicts.remove drops emptied parents) are NOT covered deductively (the proof did not fit the '
                  'time budget: > 150 s); proper prefixes of the path are mappings or missing (clause recursion.precondition re-establishes it)',
                  'A5r: MODULAR treatment of the recursion: the call self._apply_patch(body, path + (key,), val) is replaced by a stub '
                  'that applies the CONTRACT to the sub-tree (the RFC 7386 merge of val at path + (key,), in one of two representatives '
                  'of "up to empty mappings": all kept, or all dropped along the patched paths); termination by structural descent: '
                  'val is a strict sub-tree of value (clause recursion.descends_once_per_key)'])
def A5r(vc):
    return _a5r(vc, 'flat')


def _a5r(vc, part):
    """
    Patch._apply_patch(body, path, value) against its own contract (C18 / C08: the requested mutations are faithfully reflected;
    RFC 7386, which patches.py cites), for ONE level with the recursive calls by contract:
        body afterwards  ==  the old body with MergePatch(the value at `path`, value) at `path`, up to the presence of empty
        mappings along the patched paths (A5's reading), as a WHOLE-document equality:
      none_removes_the_key       value None: the key at the path is gone (an absent key / absent parent stays absent);
      leaf_sets_the_value        any other non-mapping (0, False, '', [], lists, strings, numbers): the value is at the path, the
                                 missing parents created;
      mapping_merges_key_by_key  a mapping: what is at the path becomes a mapping (an absent or non-mapping target is FIRST replaced
                                 by an empty one) into which every key of the patch is merged by the contract itself;
      no_deletion_marker_survives  wherever the patch has a None, the result has no null at that place (seeded C18-1 / C18-2:
                                 a branch grafted as a whole kept its markers);
      frame                      keys not named by the patch keep their values at every level (part of the whole-document equality;
                                 stated once more for an arbitrary sibling of the first step);
      never_raises               no KeyError / TypeError for any of the above;
      recursion.*                the recursive calls: once per key of the mapping, with path + (key,) and that key's value, on the
                                 same body, and in a state where the callee's precondition holds.
    """
    if part == 'flat':
        n = vc.nondet(2, 'len(path)')
    else:
        n = 1
    path = draw_keys(vc, n, 'p')
    other = vc.str('other-key')
    body = draw_obj(vc, 'body', path + (other, 'ka', 'kb', 'gone', 'kept', 'deep'))
    vc.assume(holds(vc, wf_parents(jt(body), path)), 'proper prefixes of the path are mappings or missing')
    kinds = ['None', 'falsy leaf', 'leaf', '{}', 'mapping/1', 'mapping/2']
    if part == 'flat':
        # below a path: None / leaves / {} (no descent); at the root: the mappings (the entry call of as_json_patch)
        kinds = kinds[3:] if n == 0 else kinds[:4]
        kind = kinds[vc.nondet(len(kinds), 'value: ' + ' | '.join(kinds))]
    else:
        kind = 'mapping/1'
    if kind == 'None':
        value = None
    elif kind == 'falsy leaf':
        value = [0, False, '', [], [None]][vc.nondet(5, 'value: 0 | False | "" | [] | [None]')]
    elif kind == 'leaf':
        value = _draw_leaf(vc, 'value')
    elif kind == '{}':
        value = {}
    elif kind == 'mapping/1':
        value = {'ka': _a5r_subvalue(vc, 'value[ka]', A5R_SUBVALUES if part == 'flat' else ['none', 'leaf', 'nested1'])}
    else:
        value = {'ka': _a5r_subvalue(vc, 'value[ka]', ['none', 'zero', 'empty']), 'kb': _a5r_subvalue(vc, 'value[kb]', ['none', 'leaf'])}
    if n == 0 and not isinstance(value, dict):
        vc.assume(False, 'the root is only ever patched with a mapping (as_json_patch passes dict(self))')
    before = jt(body)
    calls = []

    def by_contract(body_arg, sub_path, val):
        """The contract of _apply_patch for the sub-tree, applied to the body."""
        sub_path = tuple(sub_path)
        vc.ensure('recursion.precondition', body_arg is body)
        vc.ensure('recursion.precondition', holds(vc, wf_parents(jt(body), sub_path)))
        calls.append((sub_path, val))
        pruned = vc.nondet(2, 'sub-tree result: empty mappings kept | dropped')
        if vc.concrete:
            py_merge_at(body, sub_path, val)
            if pruned:
                py_norm(body, sub_path, val)
        else:
            t = merge_at(jt(body), sub_path, val)
            if pruned:
                t = norm(t, sub_path, val)
            body._write(z3.simplify(t))
    vc.used('patches.Patch._apply_patch', 'A5r')
    me = types.SimpleNamespace(_apply_patch=by_contract)
    ld = vc.load(PATCHES, 'Patch._apply_patch', stubs=contract_dicts(vc))
    outcome, _ = outcome_of(ld.fn, me, body, path, value)
    after = jt(body)

    vc.ensure('never_raises', outcome == 'return')
    expected = merge_at(before, path, value)
    exact = holds(vc, norm(after, path, value) == norm(expected, path, value))
    clause = {'None': 'none_removes_the_key', '{}': 'mapping_merges_key_by_key', 'mapping/1': 'mapping_merges_key_by_key',
              'mapping/2': 'mapping_merges_key_by_key'}.get(kind, 'leaf_sets_the_value')
    vc.ensure(clause, And(outcome == 'return', exact))
    if kind == 'None':
        vc.ensure('none_removes_the_key', holds(vc, J.is_JAbsent(at(after, path))))
    elif clause == 'leaf_sets_the_value':
        vc.ensure('leaf_sets_the_value', holds(vc, at(after, path) == jt(value)))
    else:
        here = at(after, path)
        vc.ensure('mapping_merges_key_by_key', holds(vc, z3.Or(J.is_JObj(here), J.is_JAbsent(here))))
        for marker in _marker_paths(value):
            vc.ensure('no_deletion_marker_survives', holds(vc, z3.Not(J.is_JNull(at(after, path + marker)))))
    # frame: an arbitrary sibling of the first step (for the root: a key the patch does not name) keeps its value
    first = path[0] if path else None
    named = [first] if path else list(value)
    differs = z3.And(*[jt(other) != jt(k) for k in named]) if named else z3.BoolVal(True)
    vc.ensure('frame', holds(vc, z3.Implies(differs, sel(after, other) == sel(before, other))))
    if isinstance(value, dict):
        want = [(path + (k,), v) for k, v in value.items()]
        ok = outcome != 'return' or (len(calls) == len(want) and all(
            sum(1 for p, v in calls if len(p) == len(q) and v is w
                and all(a is b or (isinstance(a, str) and isinstance(b, str) and a == b) for a, b in zip(p, q))) == 1
            for q, w in want))
        vc.ensure('recursion.descends_once_per_key', ok)
    else:
        vc.ensure('recursion.descends_once_per_key', len(calls) == 0)
    vc.canary('canary.body_unchanged', holds(vc, after == before))
    vc.canary('canary.never_descends', len(calls) == 0)
    vc.canary('canary.always_descends', len(calls) > 0)
    return ('A5r', n, kind, outcome, len(calls))


@harness('A5rm', targets=[f'{PATCHES}.Patch._apply_patch'], props=P_A5,
         clauses=['mapping_merges_key_by_key', 'no_deletion_marker_survives', 'frame', 'never_raises', 'recursion.precondition',
                  'recursion.descends_once_per_key'],
         canaries=['canary.body_unchanged', 'canary.never_descends'],
         trusted=['dicts.resolve / ensure / remove by contract (X5d / X6d / X7d)'],
         assumes=['A5rm: as A5r, for a path of ONE arbitrary name and a patch mapping of one key (the nested step of the recursion: '
                  'the target at the path is absent / null / a leaf / a mapping with or without the key)'])
def A5rm(vc):
    """The second half of A5r (split for the time budget): a one-key mapping merged BELOW a path -- where an absent or
    non-mapping target is first replaced by an empty mapping and the seeded C18-1 / C18-2 grafted the branch with its markers."""
    return _a5r(vc, 'nested')


# =========================================================================== A5j: Patch.as_json_patch
def _same(a, b):
    """Type-exact deep equality (1 is not True, 0 is not False, 2 is not 2.0); symbolic leaves by identity."""
    if isinstance(a, SV) or isinstance(b, SV):
        return a is b
    if type(a) is not type(b):
        return False
    if isinstance(a, dict):
        return list(a) == list(b) and all(_same(a[k], b[k]) for k in a)
    if isinstance(a, list):
        return len(a) == len(b) and all(_same(x, y) for x, y in zip(a, b))
    return a == b


def _clone(x, memo=None):
    """copy.deepcopy by contract (trusted): new containers at every level, immutable leaves (and proxies) as they are."""
    if isinstance(x, dict):
        return {k: _clone(v) for k, v in x.items()}
    if isinstance(x, list):
        return [_clone(v) for v in x]
    return x


def _containers(x, out=None):
    out = [] if out is None else out
    if isinstance(x, (dict, list)):
        out.append(id(x))
        for v in (x.values() if isinstance(x, dict) else x):
            _containers(v, out)
    return out


@harness('A5j', targets=[f'{PATCHES}.Patch.as_json_patch'], props=P_A5,
         clauses=['empty_patch_no_ops', 'reference_body_required', 'reference_is_argument_else_original',
                  'diff_of_as_is_vs_merged_then_fns_in_order', 'ops_are_the_library_diff', 'reference_not_mutated'],
         canaries=['canary.never_raises', 'canary.always_empty'],
         trusted=['jsonpatch.JsonPatch.from_diff(src, dst).patch: the RFC 6902 operations turning src into dst (third party, F-C18-3; '
                  'bounded A5)', 'copy.deepcopy: an equal document sharing no container with its argument',
                  'Patch.__bool__ / fns / __init__ run as real code (contracts V15 / V16)'],
         assumes=['A5j: patch shapes {empty, keys only, fns only, both}; the reference body: the argument (None / {} / a raw dict / a '
                  'Body view) and/or the original body of the constructor (None / a Body); bodies are concrete-structured with a symbolic '
                  'leaf, the int 1 and nested mappings; fns: 0..2 transformations that do not commute, one of which turns 1 into True '
                  'and changes a nested mapping; Patch._apply_patch by contract A5r (reference merge, empty mappings kept or dropped)'])
def A5j(vc):
    """
    Patch.as_json_patch([body]) (C18: the requested mutations are faithfully reflected in the JSON patch of the response):
      empty_patch_no_ops       a patch with neither keys nor fns gives [] (with or without a reference body);
      reference_body_required  otherwise, without any reference body: ValueError;
      reference_is_argument_else_original  the reference is the argument when one is given (also an EMPTY one), else the original
                               body passed to the constructor;
      diff_of_as_is_vs_merged_then_fns_in_order  the library diff is asked exactly once, for (the reference body as it is) ->
                               (a copy of it, merge-patched with all keys of the patch [_apply_patch at the root, by contract
                               A5r], then transformed by every fn once, IN ORDER, after the merge);
      ops_are_the_library_diff  what is returned is the library's operation list for that pair -- always: no shortcut on a Python
                               `==` of the two documents (1 == True, yet they differ in JSON);
      reference_not_mutated    neither the argument nor the original body is changed at any depth (the work is done on a deep copy).
    """
    from kopf._cogs.structs import bodies, patches
    leaf = _draw_leaf(vc, 'leaf')

    def make_body():
        return {'metadata': {'labels': {'a': 'x'}, 'finalizers': ['f']}, 'spec': {'n': 1, 'leaf': leaf}, 'flag': 1}
    trace = []

    def fn_a(b):
        trace.append(('fn', 'a', id(b)))
        b['flag'] = True if b.get('flag') == 1 and b.get('flag') is not True else 'twice'
        b.setdefault('metadata', {}).setdefault('labels', {})['by-a'] = 'yes'

    def fn_b(b):
        trace.append(('fn', 'b', id(b)))
        b['flag'] = 'b-after-' + repr(b.get('flag'))
    fns_alts = [[], [fn_a], [fn_a, fn_b], [fn_b, fn_a]]
    fns = fns_alts[vc.nondet(len(fns_alts), 'fns: none | a | a,b | b,a')]
    keys_alts = [{}, {'spec': {'n': None, 'm': 2}, 'status': {'s': None}}, {'flag': None}]
    keys = keys_alts[vc.nondet(len(keys_alts), 'keys: none | spec+status | flag=None')]
    arg_kind = vc.nondet(4, 'argument: None | {} | raw dict | Body')
    arg_raw = [None, {}, make_body(), make_body()][arg_kind]
    arg = bodies.Body(arg_raw) if arg_kind == 3 else arg_raw
    orig_kind = vc.nondet(2, 'original: None | Body')
    orig_raw = make_body() if orig_kind else None
    if orig_raw is not None:
        orig_raw['spec']['n'] = 7          # tell the two references apart
    original = bodies.Body(orig_raw) if orig_raw is not None else None
    snap_arg, snap_orig = _clone(arg_raw), _clone(orig_raw)

    merges = []

    class P(patches.Patch):
        def _apply_patch(self, body, path, value):      # by contract A5r
            trace.append(('merge', id(body)))
            merges.append((tuple(path), _clone(value)))
            py_merge_at(body, tuple(path), value)
            if vc.nondet(2, 'merge result: empty mappings kept | dropped'):
                py_norm(body, tuple(path), value)
    vc.used('patches.Patch._apply_patch', 'A5r')
    patch = P(_clone(keys), body=original, fns=fns)
    ops_token = [Opaque('op')]
    diffs_asked = []

    def from_diff(src, dst, *a, **kw):
        trace.append(('diff', id(dst)))
        diffs_asked.append((_clone(src), _clone(dst), _containers(src), _containers(dst)))
        return types.SimpleNamespace(patch=ops_token)
    ld = vc.load(PATCHES, 'Patch.as_json_patch',
                 stubs={'copy.deepcopy': _clone, 'jsonpatch.JsonPatch': types.SimpleNamespace(from_diff=from_diff)})
    outcome, ops = outcome_of(ld.fn, patch, arg) if vc.nondet(2, 'argument passed | omitted') == 0 or arg is not None \
        else outcome_of(ld.fn, patch)
    empty = not keys and not fns
    ref_raw, ref_snap = (arg_raw, snap_arg) if arg is not None else (orig_raw, snap_orig)
    vc.canary('canary.never_raises', outcome == 'return')
    vc.canary('canary.always_empty', outcome == 'return' and ops == [])
    vc.ensure('reference_not_mutated', _same(arg_raw, snap_arg) and _same(orig_raw, snap_orig))
    if empty:
        vc.ensure('empty_patch_no_ops', outcome == 'return' and ops == [] and not diffs_asked)
        return ('A5j', 'empty', outcome)
    if ref_raw is None:
        vc.ensure('reference_body_required', outcome == 'ValueError' and not diffs_asked)
        return ('A5j', 'no reference', outcome)
    expected = _clone(ref_snap)
    py_merge_at(expected, (), keys)
    for fn in fns:
        fn(expected)
    del trace[-len(fns) or len(trace):]
    asked = diffs_asked[0] if len(diffs_asked) == 1 else None
    vc.ensure('reference_is_argument_else_original', outcome == 'return' and asked is not None and _same(asked[0], ref_snap))
    pruned = _clone(expected)
    py_norm(pruned, (), keys)
    vc.ensure('diff_of_as_is_vs_merged_then_fns_in_order',
              asked is not None and (_same(asked[1], expected) or _same(asked[1], pruned)))
    work = [e for e in trace if e[0] != 'diff']
    vc.ensure('diff_of_as_is_vs_merged_then_fns_in_order',
              asked is not None and [e[:-1] for e in trace] == [('merge',)] + [('fn', f.__name__[-1]) for f in fns] + [('diff',)]
              and len({e[-1] for e in work}) == 1 and len(merges) == 1 and merges[0][0] == () and _same(merges[0][1], keys))
    vc.ensure('reference_not_mutated', asked is not None and not (set(asked[3]) & set(_containers(arg_raw) + _containers(orig_raw))))
    vc.ensure('ops_are_the_library_diff', outcome == 'return' and ops is ops_token)
    return ('A5j', len(keys), len(fns), outcome)


# =========================================================================== E3w: diffs.diff / diffs.reduce
@harness('E3w', targets=[f'{DIFFS}.diff', f'{DIFFS}.reduce'], props=P_E3,
         clauses=['diff.arguments_passed_on', 'diff.exactly_the_yielded_items_in_order', 'reduce.arguments_passed_on',
                  'reduce.exactly_the_yielded_items_in_order', 'reduce.empty_path_is_the_diff_itself', 'result_is_a_diff_of_diffitems'],
         canaries=['canary.always_empty', 'canary.never_empty'],
         trusted=['Diff.__init__ / __eq__ / __iter__ / __len__ and DiffItem (NamedTuple) run as real code'],
         assumes=['E3w: diff_iter / reduce_iter by contract E3d, seen from the wrapper: a ONE-SHOT iterator of 0..3 items (DiffItems or '
                  'plain 4-tuples) over opaque values; for reduce_iter with an empty path: the items of the diff as they are'])
def E3w(vc):
    """
    diffs.diff(a, b, path, scope=) and diffs.reduce(d, path) are thin wrappers (C04: diffs are exact):
      *.arguments_passed_on      the iterator is asked once, for exactly the given a / b / path / scope (default: the root, FULL)
                                 resp. the given diff and path;
      *.exactly_the_yielded_items_in_order  the result holds exactly the items the iterator yields, in that order;
      result_is_a_diff_of_diffitems  it is a Diff whose items are DiffItems (also when the iterator yields plain tuples);
      reduce.empty_path_is_the_diff_itself  reduce(d, ()) == d.
    """
    from kopf._cogs.structs import diffs
    which = vc.nondet(2, 'diff | reduce')
    n = vc.nondet(4, '#items')
    ops = [diffs.DiffOperation.ADD, diffs.DiffOperation.CHANGE, diffs.DiffOperation.REMOVE]
    raw = [(ops[i % 3], (f'f{i}',), Opaque(f'old{i}'), None if i == 1 else Opaque(f'new{i}')) for i in range(n)]
    as_tuples = vc.nondet(2, 'yields DiffItems | plain tuples')
    asked = []

    def iterator(*a, **kw):
        asked.append((a, kw))
        for item in raw:
            yield item if as_tuples else diffs.DiffItem(*item)
    a, b = Opaque('a'), Opaque('b')
    if which == 0:
        ld = vc.load(DIFFS, 'diff', stubs={'diff_iter': iterator})
        vc.used('diffs.diff_iter', 'E3d')
        how = vc.nondet(3, 'defaults | path and scope | scope only')
        path = ('spec', 'x') if how == 1 else ()
        scope = resolve(vc.fin('scope', [diffs.DiffScope.LEFT, diffs.DiffScope.RIGHT, diffs.DiffScope.FULL])) if how else diffs.DiffScope.FULL
        got = ld.fn(a, b) if how == 0 else ld.fn(a, b, path, scope=scope) if how == 1 else ld.fn(a, b, scope=scope)
        ok = len(asked) == 1
        if ok:
            (pa, kw), names = asked[0], ('a', 'b', 'path')
            args = dict(zip(names, pa), **kw)
            ok = (set(args) <= {'a', 'b', 'path', 'scope'} and args.get('a') is a and args.get('b') is b
                  and args.get('path', ()) == path and args.get('scope', diffs.DiffScope.FULL) is scope)
        vc.ensure('diff.arguments_passed_on', ok)
        name = 'diff'
    else:
        src_items = [diffs.DiffItem(*r) for r in raw]
        d = diffs.Diff(src_items)
        path = [(), ('spec',), ('f0', 'deeper')][vc.nondet(3, 'path: () | (spec,) | (f0, deeper)')]
        if path:        # by contract E3d: some other items (here: a sub-sequence with shortened fields) -- only their passing-on matters
            raw = [(o, f[1:], old, new) for o, f, old, new in raw[:2]]
        ld = vc.load(DIFFS, 'reduce', stubs={'reduce_iter': iterator})
        vc.used('diffs.reduce_iter', 'E3d')
        got = ld.fn(d, path)
        ok = len(asked) == 1 and not asked[0][1] and len(asked[0][0]) == 2 and asked[0][0][0] is d and asked[0][0][1] == path
        vc.ensure('reduce.arguments_passed_on', ok)
        if not path:
            vc.ensure('reduce.empty_path_is_the_diff_itself', got == d and tuple(got) == tuple(src_items))
        name = 'reduce'
    items = list(got)
    vc.ensure('result_is_a_diff_of_diffitems', isinstance(got, diffs.Diff) and all(type(i) is diffs.DiffItem for i in items))
    vc.ensure(f'{name}.exactly_the_yielded_items_in_order',
              len(items) == len(raw) and all(i.operation is r[0] and i.field == r[1] and i.old is r[2] and i.new is r[3]
                                             for i, r in zip(items, raw)) and len(got) == len(raw))
    vc.canary('canary.always_empty', len(items) == 0)
    vc.canary('canary.never_empty', len(items) > 0)
    return ('E3w', name, len(items))


# =========================================================================== E3a: ResourceHandler.adjust_cause
@harness('E3a', targets=['kopf._core.intents.handlers.ResourceHandler.adjust_cause', 'kopf._core.actions.execution.Handler.adjust_cause'],
         props=P_E3,
         clauses=['no_field_same_cause', 'other_causes_same_cause', 'old_new_diff_reduced_to_the_field', 'everything_else_unchanged',
                  'given_cause_not_modified', 'base_handler_same_cause'],
         canaries=['canary.always_same_cause', 'canary.never_same_cause'],
         trusted=['dataclasses.replace on the frozen cause dataclass (CPython)'],
         assumes=['E3a: the handler is a ChangingHandler / WatchingHandler with field None or a non-empty path of 1..2 names (kopf.on '
                  'stores `parse_field(field) or None`); the cause is a ChangingCause (old / new: None, {} or a mapping; diff: empty or '
                  'not; initial False/True) or a WatchingCause; dicts.resolve by contract X5d and diffs.reduce by contract E3w/E3d '
                  '(opaque results, the calls recorded)'])
def E3a(vc):
    """
    ResourceHandler.adjust_cause(cause) (docs/handlers: a field handler gets old / new / diff of ITS field; C04, C15):
      no_field_same_cause        a handler without a field gets the very cause;
      other_causes_same_cause    a cause that is not a change (watching) is handed on as it is;
      old_new_diff_reduced_to_the_field  otherwise old = resolve(cause.old, field, None), new = resolve(cause.new, field, None),
                                 diff = reduce(cause.diff, field) -- each from its OWN source, with the handler's field;
      everything_else_unchanged  every other field of the cause (body, patch, memo, reason, initial, logger, ...) is the same object,
                                 the class is the same;
      given_cause_not_modified   the cause passed in keeps its own old / new / diff;
      base_handler_same_cause    execution.Handler.adjust_cause (activities, plain handlers) returns the cause itself.
    """
    from kopf._core.actions import execution
    from kopf._core.intents import causes, handlers
    from kopf._cogs.structs import diffs
    field = [None, ('spec',), ('spec', 'f')][vc.nondet(3, 'field: None | (spec,) | (spec, f)')]
    common = dict(id='h', fn=Opaque('fn'), param=None, errors=None, timeout=None, retries=None, backoff=None, selector=None,
                  labels=None, annotations=None, when=None, field=field, value=None)
    basics = dict(logger=NullLogger(), indices=Opaque('indices'), memo=Opaque('memo'), resource=Opaque('resource'),
                  patch=Opaque('patch'), body=Opaque('body'))
    cause_kind = vc.nondet(2, 'cause: changing | watching')
    if cause_kind == 0:
        old = [None, {}, {'spec': {'f': 0}}][vc.nondet(3, 'old: None | {} | mapping')]
        new = [None, {}, {'spec': {'f': False}}][vc.nondet(3, 'new: None | {} | mapping')]
        diff = [diffs.EMPTY, diffs.Diff([(diffs.DiffOperation.CHANGE, ('spec', 'f'), 0, False)])][vc.nondet(2, 'diff: empty | one item')]
        cause = causes.ChangingCause(**basics, initial=vc.fin('initial', [False, True]),
                                     reason=vc.fin('reason', [causes.Reason.UPDATE, causes.Reason.CREATE]), diff=diff, old=old, new=new)
    else:
        cause = causes.WatchingCause(**basics, type=None, event=Opaque('event'))
    calls = []

    def resolve_(d, f, default=Ellipsis):
        token = Opaque(f'resolved#{len(calls)}')
        calls.append(('resolve', d, f, default, token))
        return token

    def reduce_(d, f):
        token = Opaque(f'reduced#{len(calls)}')
        calls.append(('reduce', d, f, None, token))
        return token
    vc.used('dicts.resolve', 'X5d'); vc.used('diffs.reduce', 'E3w')
    if vc.nondet(2, 'ResourceHandler | base Handler') == 1:
        h = execution.Handler(**{k: v for k, v in common.items() if k in ('id', 'fn', 'param', 'errors', 'timeout', 'retries', 'backoff')})
        ld = vc.load('kopf._core.actions.execution', 'Handler.adjust_cause')
        got = ld.fn(h, cause)
        vc.ensure('base_handler_same_cause', got is cause)
        return ('E3a', 'base')
    extra = dict(reason=None, initial=None, deleted=None, requires_finalizer=None, field_needs_change=None, old=None, new=None)
    h = handlers.ChangingHandler(**common, **extra) if cause_kind == 0 else handlers.WatchingHandler(**common)
    before = {f.name: getattr(cause, f.name) for f in dataclasses.fields(cause)}
    ld = vc.load('kopf._core.intents.handlers', 'ResourceHandler.adjust_cause', stubs={'dicts.resolve': resolve_, 'diffs.reduce': reduce_})
    got = ld.fn(h, cause)
    vc.canary('canary.always_same_cause', got is cause)
    vc.canary('canary.never_same_cause', got is not cause)
    vc.ensure('given_cause_not_modified', all(getattr(cause, k) is v for k, v in before.items()))
    if field is None:
        vc.ensure('no_field_same_cause', got is cause and not calls)
        return ('E3a', 'no field', cause_kind)
    if cause_kind == 1:
        vc.ensure('other_causes_same_cause', got is cause)
        return ('E3a', 'watching')

    def result_of(kind, source):
        hits = [c for c in calls if c[0] == kind and c[1] is source and tuple(c[2]) == field and (kind == 'reduce' or c[3] is None)]
        return hits[-1][4] if hits else Ellipsis
    # old and new may be the SAME object (None / None): then either call's result serves either side
    def among(kind, source, value):
        return any(c[0] == kind and c[1] is source and tuple(c[2]) == field and (kind == 'reduce' or c[3] is None) and c[4] is value
                   for c in calls)
    vc.ensure('old_new_diff_reduced_to_the_field',
              among('resolve', before['old'], got.old) and among('resolve', before['new'], got.new)
              and among('reduce', before['diff'], got.diff) and (got.old is not got.new))
    vc.ensure('everything_else_unchanged', type(got) is type(cause) and all(
        getattr(got, k) is v for k, v in before.items() if k not in ('old', 'new', 'diff')))
    return ('E3a', 'reduced', len(calls))
