"""
Fifth wave (builder build-patches): DEDUCTIVE contracts for functions that so far had only the bounded stand-ins A5
(contracts/c18_admission.py) and E3 (contracts/c04_essence.py).

  patches.py   A5r D  Patch._apply_patch     modular proof of the RECURSIVE merge against its own contract (RFC 7386 at a path)
               A5j D  Patch.as_json_patch    diff of (body as is) vs (deep copy + merge by contract A5r + fns in order)
  diffs.py     E3w D  diff / reduce          thin wrappers over diff_iter / reduce_iter (contract E3d)
  handlers.py  E3a D  ResourceHandler.adjust_cause (+ the base execution.Handler.adjust_cause)
"""
import collections.abc
import copy
import dataclasses
import types

import z3

from pyvc import *
from pyvc.stubs import Opaque, NullLogger
from pyvc.values import J

from contracts.w2_storage import (DICTS, EMPTY_OBJ, contract_dicts, draw_doc, draw_keys, draw_obj, holds, jt, outcome_of, put,
                                  sel, spec_ensure, spec_remove)

PATCHES = 'kopf._cogs.structs.patches'
DIFFS = 'kopf._cogs.structs.diffs'
P_A5 = ['C18', 'C06', 'C08', 'C03', 'C13', 'C16']
P_E3 = ['C04', 'C15', 'C03', 'C14', 'C17', 'C18', 'C05']


# =========================================================================== A5r: Patch._apply_patch
# ---- the specification: RFC 7386 (JSON merge patch), section 2, AT A PATH of a document; written from the RFC as formulas over
# the document term.  `value` is concrete-structured (None / a real dict / a leaf), so the recursion is over its structure.
def at(t, path):
    """The value at the path; <absent> when a key or a parent is missing (or a parent is not a mapping)."""
    cur = t
    for k in path:
        cur = z3.If(J.is_JObj(cur), sel(cur, k), J.JAbsent)
    return cur


def spec_del(t, keys):
    """`remove the name/value pair` (RFC 7386): the key at the path is gone; nothing else; nothing to do when a parent is missing."""
    k = keys[0]
    if len(keys) == 1:
        return z3.If(J.is_JObj(t), put(t, k, J.JAbsent), t)
    child = sel(t, k)
    return z3.If(z3.And(J.is_JObj(t), J.is_JObj(child)), put(t, k, spec_del(child, keys[1:])), t)


def spec_set(t, path, v):
    return spec_ensure(t, path, v)[1]


def merge_at(t, path, value):
    """MergePatch(Target = the value at `path` of t, Patch = value) of RFC 7386, put back at the path."""
    if value is None:
        return spec_del(t, path)
    if isinstance(value, dict):
        if path:    # "if Target is not an Object: Target = {}"
            t = z3.If(J.is_JObj(at(t, path)), t, spec_set(t, path, EMPTY_OBJ))
        for k, v in value.items():
            t = merge_at(t, path + (k,), v)
        return t
    return spec_set(t, path, jt(value))


def norm(t, path, value):
    """Normal form "up to the presence of empty mappings" (the reading of A5): along the paths the patch names, innermost first, a
    mapping that is empty -- or missing below an empty parent -- is dropped together with the parents emptied thereby (what
    dicts.remove does, X7d).  Nothing else of the document is touched."""
    if isinstance(value, dict):
        for k, v in value.items():
            t = norm(t, path + (k,), v)
    if not path:
        return t
    here = at(t, path)
    return z3.If(z3.Or(J.is_JAbsent(here), here == EMPTY_OBJ), spec_remove(t, path)[1], t)


def wf_parents(t, path):
    """Every PROPER prefix of the path is a mapping or missing (never a present non-mapping); the document is a mapping."""
    return z3.And(J.is_JObj(t), *[z3.Or(J.is_JAbsent(at(t, path[:i])), J.is_JObj(at(t, path[:i]))) for i in range(1, len(path))])


# ---- the same, natively on plain dicts: the implementation of the sub-tree contract in the concrete re-run
_ABS = object()


def py_at(d, path):
    for k in path:
        if not isinstance(d, dict) or k not in d:
            return _ABS
        d = d[k]
    return d


def py_set(d, path, v):
    for k in path[:-1]:
        d = d.setdefault(k, {})
    d[path[-1]] = v


def py_merge_at(d, path, value):
    if value is None:
        parent = py_at(d, path[:-1])
        if isinstance(parent, dict):
            parent.pop(path[-1], None)
    elif isinstance(value, dict):
        if path and not isinstance(py_at(d, path), dict):
            py_set(d, path, {})
        for k, v in value.items():
            py_merge_at(d, path + (k,), v)
    else:
        py_set(d, path, copy.deepcopy(value))


def py_norm(d, path, value):
    if isinstance(value, dict):
        for k, v in value.items():
            py_norm(d, path + (k,), v)
    if path and (py_at(d, path) is _ABS or (isinstance(py_at(d, path), dict) and not py_at(d, path))):
        for i in range(len(path), 0, -1):       # the key, then every parent that is an empty mapping now, innermost first
            parent = py_at(d, path[:i - 1])
            if not isinstance(parent, dict):
                continue
            if i == len(path) or (isinstance(parent.get(path[i - 1]), dict) and not parent[path[i - 1]]):
                parent.pop(path[i - 1], None)
            else:
                break


A5R_SUBVALUES = ['none', 'zero', 'leaf', 'empty', 'nested']


def _a5r_subvalue(vc, name, kinds=A5R_SUBVALUES):
    kind = kinds[vc.nondet(len(kinds), f'{name}: ' + ' | '.join(kinds))]
    if kind == 'none':
        return None
    if kind == 'zero':
        return 0
    if kind == 'leaf':
        return _draw_leaf(vc, name)
    if kind == 'empty':
        return {}
    if kind == 'nested1':
        return {'gone': None, 'kept': 0}
    return {'gone': None, 'kept': 0, 'deep': {'gone': None}}


def _draw_leaf(vc, name):
    """An arbitrary JSON value that is neither null nor a mapping: a string, a number, a boolean, a list of anything."""
    leaf = draw_doc(vc, name)
    if vc.concrete:
        vc.assume(leaf is not None and not isinstance(leaf, dict), 'a leaf')
    else:
        vc.assume(z3.Not(z3.Or(J.is_JObj(leaf.term), J.is_JNull(leaf.term))), 'a leaf')
    return leaf


def _has_marker(value):
    return isinstance(value, dict) and any(v is None or _has_marker(v) for v in value.values())


def _marker_paths(value, path=()):
    for k, v in (value.items() if isinstance(value, dict) else ()):
        if v is None:
            yield path + (k,)
        else:
            yield from _marker_paths(v, path + (k,))


@harness('A5r', targets=[f'{PATCHES}.Patch._apply_patch'], props=P_A5,
         clauses=['none_removes_the_key', 'leaf_sets_the_value', 'mapping_merges_key_by_key', 'no_deletion_marker_survives',
                  'frame', 'never_raises', 'recursion.precondition', 'recursion.descends_once_per_key'],
         canaries=['canary.body_unchanged', 'canary.never_descends', 'canary.always_descends'],
         trusted=['dicts.resolve / ensure / remove by contract (X5d / X6d / X7d)'],
         assumes=['A5r: body is an ARBITRARY JSON object (vc.json: any depth); path: 0..2 arbitrary names whose proper prefixes are '
                  'mappings or missing in the body (true at the entry call as_json_patch makes with path (), re-established at '
                  'every recursive call: clause recursion.precondition); value: None | 0 / False / "" / [] / [None] | an arbitrary '
                  'JSON leaf (string, number, boolean, list) | a mapping of 0..2 keys (names ka, kb) whose values are None, 0, an '
                  'arbitrary leaf, {} or a nested mapping with None markers at two depths',
                  'A5r: MODULAR treatment of the recursion: the call self._apply_patch(body, path + (key,), val) is replaced by a stub '
                  'that applies the CONTRACT to the sub-tree (the RFC 7386 merge of val at path + (key,), in one of two representatives '
                  'of "up to empty mappings": all kept, or all dropped along the patched paths); termination by structural descent: '
                  'val is a strict sub-tree of value (clause recursion.descends_once_per_key)'])
def A5r(vc):
    return _a5r(vc, 'flat')


def _a5r(vc, part):
    """
    Patch._apply_patch(body, path, value) against its own contract (C18 / C08: the requested mutations are faithfully reflected;
    RFC 7386, which patches.py cites), for ONE level with the recursive calls by contract:
        body afterwards  ==  the old body with MergePatch(the value at `path`, value) at `path`, up to the presence of empty
        mappings along the patched paths (A5's reading), as a WHOLE-document equality:
      none_removes_the_key       value None: the key at the path is gone (an absent key / absent parent stays absent);
      leaf_sets_the_value        any other non-mapping (0, False, '', [], lists, strings, numbers): the value is at the path, the
                                 missing parents created;
      mapping_merges_key_by_key  a mapping: what is at the path becomes a mapping (an absent or non-mapping target is FIRST replaced
                                 by an empty one) into which every key of the patch is merged by the contract itself;
      no_deletion_marker_survives  wherever the patch has a None, the result has no null at that place (seeded C18-1 / C18-2:
                                 a branch grafted as a whole kept its markers);
      frame                      keys not named by the patch keep their values at every level (part of the whole-document equality;
                                 stated once more for an arbitrary sibling of the first step);
      never_raises               no KeyError / TypeError for any of the above;
      recursion.*                the recursive calls: once per key of the mapping, with path + (key,) and that key's value, on the
                                 same body, and in a state where the callee's precondition holds.
    """
    if part == 'flat':
        n = vc.nondet(2, 'len(path)')
    else:
        n = 1
    path = draw_keys(vc, n, 'p')
    other = vc.str('other-key')
    body = draw_obj(vc, 'body', path + (other, 'ka', 'kb', 'gone', 'kept', 'deep'))
    vc.assume(holds(vc, wf_parents(jt(body), path)), 'proper prefixes of the path are mappings or missing')
    kinds = ['None', 'falsy leaf', 'leaf', '{}', 'mapping/1', 'mapping/2']
    if part == 'flat':
        # below a path: None / leaves / {} (no descent); at the root: the mappings (the entry call of as_json_patch)
        kinds = kinds[3:] if n == 0 else kinds[:4]
        kind = kinds[vc.nondet(len(kinds), 'value: ' + ' | '.join(kinds))]
    else:
        kind = 'mapping/1'
    if kind == 'None':
        value = None
    elif kind == 'falsy leaf':
        value = [0, False, '', [], [None]][vc.nondet(5, 'value: 0 | False | "" | [] | [None]')]
    elif kind == 'leaf':
        value = _draw_leaf(vc, 'value')
    elif kind == '{}':
        value = {}
    elif kind == 'mapping/1':
        value = {'ka': _a5r_subvalue(vc, 'value[ka]', A5R_SUBVALUES if part == 'flat' else ['none', 'leaf', 'nested1'])}
    else:
        value = {'ka': _a5r_subvalue(vc, 'value[ka]', ['none', 'zero', 'empty']), 'kb': _a5r_subvalue(vc, 'value[kb]', ['none', 'leaf'])}
    if n == 0 and not isinstance(value, dict):
        vc.assume(False, 'the root is only ever patched with a mapping (as_json_patch passes dict(self))')
    before = jt(body)
    calls = []

    def by_contract(body_arg, sub_path, val):
        """The contract of _apply_patch for the sub-tree, applied to the body."""
        sub_path = tuple(sub_path)
        vc.ensure('recursion.precondition', body_arg is body)
        vc.ensure('recursion.precondition', holds(vc, wf_parents(jt(body), sub_path)))
        calls.append((sub_path, val))
        pruned = vc.nondet(2, 'sub-tree result: empty mappings kept | dropped')
        if vc.concrete:
            py_merge_at(body, sub_path, val)
            if pruned:
                py_norm(body, sub_path, val)
        else:
            t = merge_at(jt(body), sub_path, val)
            if pruned:
                t = norm(t, sub_path, val)
            body._write(z3.simplify(t))
    vc.used('patches.Patch._apply_patch', 'A5r')
    me = types.SimpleNamespace(_apply_patch=by_contract)
    ld = vc.load(PATCHES, 'Patch._apply_patch', stubs=contract_dicts(vc))
    outcome, _ = outcome_of(ld.fn, me, body, path, value)
    after = jt(body)

    vc.ensure('never_raises', outcome == 'return')
    expected = merge_at(before, path, value)
    exact = holds(vc, norm(after, path, value) == norm(expected, path, value))
    clause = {'None': 'none_removes_the_key', '{}': 'mapping_merges_key_by_key', 'mapping/1': 'mapping_merges_key_by_key',
              'mapping/2': 'mapping_merges_key_by_key'}.get(kind, 'leaf_sets_the_value')
    vc.ensure(clause, And(outcome == 'return', exact))
    if kind == 'None':
        vc.ensure('none_removes_the_key', holds(vc, J.is_JAbsent(at(after, path))))
    elif clause == 'leaf_sets_the_value':
        vc.ensure('leaf_sets_the_value', holds(vc, at(after, path) == jt(value)))
    else:
        here = at(after, path)
        vc.ensure('mapping_merges_key_by_key', holds(vc, z3.Or(J.is_JObj(here), J.is_JAbsent(here))))
        for marker in _marker_paths(value):
            vc.ensure('no_deletion_marker_survives', holds(vc, z3.Not(J.is_JNull(at(after, path + marker)))))
    # frame: an arbitrary sibling of the first step (for the root: a key the patch does not name) keeps its value
    first = path[0] if path else None
    named = [first] if path else list(value)
    differs = z3.And(*[jt(other) != jt(k) for k in named]) if named else z3.BoolVal(True)
    vc.ensure('frame', holds(vc, z3.Implies(differs, sel(after, other) == sel(before, other))))
    if isinstance(value, dict):
        want = [(path + (k,), v) for k, v in value.items()]
        ok = outcome != 'return' or (len(calls) == len(want) and all(
            sum(1 for p, v in calls if len(p) == len(q) and v is w
                and all(a is b or (isinstance(a, str) and isinstance(b, str) and a == b) for a, b in zip(p, q))) == 1
            for q, w in want))
        vc.ensure('recursion.descends_once_per_key', ok)
    else:
        vc.ensure('recursion.descends_once_per_key', len(calls) == 0)
    vc.canary('canary.body_unchanged', holds(vc, after == before))
    vc.canary('canary.never_descends', len(calls) == 0)
    vc.canary('canary.always_descends', len(calls) > 0)
    return ('A5r', n, kind, outcome, len(calls))


@harness('A5rm', targets=[f'{PATCHES}.Patch._apply_patch'], props=P_A5,
         clauses=['mapping_merges_key_by_key', 'no_deletion_marker_survives', 'frame', 'never_raises', 'recursion.precondition',
                  'recursion.descends_once_per_key'],
         canaries=['canary.body_unchanged', 'canary.never_descends'],
         trusted=['dicts.resolve / ensure / remove by contract (X5d / X6d / X7d)'],
         assumes=['A5rm: as A5r, for a path of ONE arbitrary name and a patch mapping of one key (the nested step of the recursion: '
                  'the target at the path is absent / null / a leaf / a mapping with or without the key)'])
def A5rm(vc):
    """The second half of A5r (split for the time budget): a one-key mapping merged BELOW a path -- where an absent or
    non-mapping target is first replaced by an empty mapping and the seeded C18-1 / C18-2 grafted the branch with its markers."""
    return _a5r(vc, 'nested')
