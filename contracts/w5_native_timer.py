"""Round-11 contract: daemons._timer once more, structure-independent (`sizes_only=True`).

D5i/D5s/D5x/D5d/D5o (c10_timers.py) cut the three loops of `_timer` by loop contracts anchored to their header lines and stub
`progression.State`, `patches.Patch`, `aiotime.sleep` by the names the body spells: a restructured timer (the waits moved into a
helper coroutine, the loops merged, the blank state hoisted) leaves them undecided.  D5n runs the REAL `_timer` natively --
together with whatever it calls: the real `aiotime.sleep`, the real `progression.State` / `HandlerState` / `deliver_results`, the
real `patches.Patch`, a real `TimerHandler` made by the public decorator `kopf.on.timer`, a real `DaemonCause` -- over CONCRETE
times on a ghost clock.  Only what leads OUT of the timer is replaced (module attributes, in this harness' own forked process):
`execution.execute_handlers_once` (records the run, takes the run's duration, answers with an enumerated outcome),
`application.patch_and_check` (records; hands back a remaining patch), and the name `asyncio` in `daemons`, `progression` and
`aiotime` (the running loop's time is the ghost clock; `wait_for(event.wait(), timeout)` -- the one primitive every sleep ends in
-- suspends and then either times out or is woken by the stopper; a bare `asyncio.sleep` is an un-interruptible sleep).  Every
clause is stated over the recorded run start/end times, the states and patches handed to the collaborators and the moment of
return.  Exhaustive for the enumerated grid, labelled B, never counted as proved (C09/C10/C11 keep their deductive D5*)."""
import asyncio
import copy
import inspect
import types

from pyvc import *
from pyvc.stubs import NullLogger

from kopf._cogs.aiokits import aiotime
from kopf._cogs.structs import bodies, ephemera, patches, references
from kopf._core.actions import application, execution, progression
from kopf._core.engines import daemons
from kopf._core.intents import causes, registries

from contracts.w5_native import patched, _not_ours

T0 = 1000.0                 # the ghost loop time at which the timer task starts
HID = 't'
BACKOFF = 1.5
TEMP_DELAY = 2.5
N_RUNS = 3                  # a scenario is bounded to its first three runs: after that the stopper is set at the next suspension
MAX_SLEEPS = 12             # ... or after that many sleeps (an idle-only timer of an unchanged object sleeps forever)

_CUR = {}
_LD = {}


class _Spin(RuntimeError):
    """the timer polls its clock/stopper thousands of times without a single suspension point: it freezes the event loop"""


class _Overrun(BaseException):
    """the timer goes on starting runs although the stopper has been set for long: the scenario is cut here"""


async def _t_execute(*a, **kw):
    return await _CUR['execute'](*a, **kw)


async def _t_patch_and_check(*a, **kw):
    return await _CUR['patch_and_check'](*a, **kw)


class _FakeLoop:
    def time(self):
        _CUR['poll']()
        return _CUR['clock'][0]


class _FakeAsyncio:
    """`asyncio` as seen by daemons / progression / aiotime: the loop time is the ghost clock, timed waits run on it."""
    def __getattr__(self, name):
        return getattr(asyncio, name)

    def get_running_loop(self):
        return _FakeLoop()
    get_event_loop = get_running_loop

    async def wait_for(self, aw, timeout=None):
        return await _CUR['wait_for'](aw, timeout)

    async def sleep(self, delay, result=None):
        await _CUR['wait_for'](None, delay)
        return result


_FAKE_ASYNCIO = _FakeAsyncio()


class _StopEvent:
    """stopper.async_event: an asyncio.Event as far as the timer may use one (is_set / wait / set)."""
    def __init__(self):
        self.flag = False

    def is_set(self):
        _CUR['poll']()
        return self.flag

    def set(self):
        self.flag = True

    async def wait(self):
        # awaited bare (not under a timed wait): returns when the stopper is set -- the harness sets it
        return await _CUR['wait_for'](self, None)


class _Stopper:
    """stoppers.DaemonStopper (aioenums.FlagSetter) as the timer sees it."""
    def __init__(self):
        self.async_event = _StopEvent()
        self.reason = None
        self.when = None

    def is_set(self, reason=None):
        _CUR['poll']()
        return self.async_event.flag

    def set(self, reason=None):
        self.when = self.when if self.when is not None else _CUR['clock'][0]
        self.reason = reason if reason is not None else self.reason
        self.async_event.set()


def _configs():
    """the grid of timer settings x run duration (pruned; stated in `assumes`)"""
    out = [(0, False, None, None, 0.5)]
    for sharp in (False, True):
        for dur in (0.5, 3.0, 4.0):
            for idle in (None, 4.0):
                out.append((3.0, sharp, idle, None, dur))
        for idle in (None, 4.0):
            out.append((3.0, sharp, idle, 2.0, 0.5))
        out.append((3.0, sharp, None, 900.0, 0.5))
    for idle in (None, 4.0):
        for init in (None, 2.0):
            out.append((700.0, False, idle, init, 0.5))
        out.append((700.0, True, idle, None, 0.5))
    for idle, init in ((None, None), (None, 2.0), (None, 900.0), (4.0, None), (4.0, 2.0)):
        out.append((None, False, idle, init, 0.5))
    return out


CONFIGS = _configs()
KINDS = ['success', 'temporary', 'arbitrary', 'permanent']
_SCHEDULE = ['no_self_overlap', 'first_run_not_before_initial_delay', 'next_run_one_interval_after_the_previous_end', 'sharp_grid',
             'after_error_the_delay', 'idle_respected', 'fresh_state_per_run']


def _eq(a, b):
    return abs(a - b) < 1e-6


@harness('D5n', targets=['kopf._core.engines.daemons._timer'], props=['C13', 'C20', 'C08', 'C03'], sizes_only=True,
         prop_clauses={'C13': ['stops_when_asked', 'no_self_overlap', 'idle_respected'],
                       'C20': ['stops_when_asked', 'no_self_overlap'],
                       'C08': ['patch_carried'],
                       'C03': _SCHEDULE + ['stops_when_asked', 'patch_carried', 'permanent_failure_ends_the_timer']},
         clauses=_SCHEDULE + ['stops_when_asked', 'patch_carried', 'permanent_failure_ends_the_timer'],
         canaries=['canary.never_runs', 'canary.never_woken_from_a_sleep', 'canary.every_run_succeeds', 'canary.never_idles',
                   'canary.nothing_carried'],
         trusted=['execution.execute_handlers_once by contract X2 (here: records the call, lasts the run duration, answers {id: Outcome} of '
                  'the enumerated kind: success with a result / TemporaryError(delay=2.5) / an arbitrary error with delay=backoff (1.5) / '
                  'PermanentError; the handler writes one field into cause.patch while it runs)',
                  'application.patch_and_check by contract A2 (here: records; takes no ghost time; the remaining patch is None or carries '
                  'one transformation function, alternating)',
                  'asyncio.wait_for(event.wait(), timeout) / asyncio.sleep: timed waits on the ghost clock (woken only by that event); '
                  'asyncio.get_running_loop().time() is the ghost clock (in daemons, progression and aiotime)',
                  'aiotime.sleep (T1), progression.State / HandlerState / deliver_results (G3, G4), patches.Patch, kopf.on.timer (R15), '
                  'causes.DaemonCause: run as real code',
                  'the stopper: is_set() / async_event (is_set, wait) / set(reason) of aioenums.FlagSetter'],
         assumes=['the timer task starts at loop time 1000; (interval, sharp) in {(None,-), (0,False), (3,False), (3,True), (700,False), (700,True)}; '
                  'idle in {None, 4} with idle_reset_time = 999 at the start; initial_delay in {None, 2, 900}; run duration 0.5 s, and for '
                  'interval 3 also 3 s and 4 s (equal to / longer than the interval); timeout=10 and retries=2 exactly when an initial_delay '
                  'is given, backoff=1.5 (pruned grid of 31 combinations: see _configs)',
                  'outcome of run 1: success / TemporaryError / arbitrary error / PermanentError; of run 2: success / TemporaryError; run 3 succeeds',
                  'the stopper is set (once, by another task): in the middle of sleep 1 or 2, in the middle of run 1 or 2, or else at the first '
                  'suspension after run 3 has ended (or after 12 sleeps)',
                  'idle_reset_time is moved (to the then current time) never / in the middle of sleep 1 or 2 / in the middle of run 1',
                  'patch_and_check takes no loop time'])
def D5n(vc):
    """
    The real _timer, whatever its inner structure, on a ghost clock.  Over the recorded runs (start_n, end_n) of the handler:
      no_self_overlap          a run starts only when the previous one has ended (and its results have been sent);
      first_run_not_before_initial_delay   start_1 >= task start + initial_delay (also for delays above 600 s), and exactly then
                               unless idling postpones it ("timers are invoked immediately ... unless idling is declared");
      next_run_one_interval_after_the_previous_end   non-sharp, after a finished run: start_{n+1} >= end_n + interval, and exactly
                               then unless idling postpones it (also for intervals above 600 s and for interval 0); a timer with an
                               interval does not end by itself;
      sharp_grid               sharp, after a successful run: start_{n+1} is the point of the grid start_n + k*interval (k >= 1) at
                               which or right after which the run ended, unless idling postpones it;
      after_error_the_delay    after TemporaryError(delay=d) the next run starts d after the end, after an arbitrary error the
                               handler's backoff after the end -- not after the interval, not on the grid; the retry does come;
      idle_respected           at every start  now - memory.idle_reset_time >= idle, for the idle_reset_time of that very moment;
      fresh_state_per_run      the run after a FINISHED one gets a state whose `started` stamp is not older than the end of that
                               run and whose retry count is 0 (timeout / runtime / retries are per cycle of retries); the run after a
                               FAILED one gets the state of that cycle: started unchanged, retries one more; always for [handler];
      stops_when_asked         once the stopper is set no run starts; every sleep waits on the stopper's event; the function
                               returns, without an error, at the moment the stopper is set or -- if a run was in flight -- when
                               that run has ended and its patch is sent; it never polls without suspending;
      patch_carried            after every run exactly one patch_and_check, with cause.patch, the cause's body and resource and the
                               settings; the patch holds exactly what the run produced (its result under status.<id>, the fields the
                               handler wrote) plus what the previous patch_and_check handed back as remaining (its transformation
                               functions) -- nothing lost, nothing sent twice.
    """
    import kopf
    cfg = CONFIGS[vc.nondet(len(CONFIGS), 'timer settings x run duration')]
    interval, sharp, idle, init, dur = cfg
    script = [KINDS[vc.nondet(4, 'run 1: success / temporary / arbitrary / permanent')],
              KINDS[vc.nondet(2, 'run 2: success / temporary')], 'success']
    stop_plan = [None, ('sleep', 1), ('sleep', 2), ('run', 1), ('run', 2)][vc.nondet(5, 'the stopper is set: late / sleep 1 / sleep 2 / run 1 / run 2')]
    idle_plan = None
    if idle is not None:
        idle_plan = [None, ('sleep', 1), ('sleep', 2), ('run', 1)][vc.nondet(4, 'idle_reset_time moves: never / sleep 1 / sleep 2 / run 1')]

    # ---- the real collaborators
    reg = registries.OperatorRegistry()

    def fn(**_):
        return None
    kw = dict(registry=reg, id=HID, backoff=BACKOFF, interval=interval, sharp=sharp if interval else None, idle=idle, initial_delay=init)
    if init is not None:
        kw.update(timeout=10, retries=2)
    kopf.on.timer('kopfexamples', **kw)(fn)
    handler = reg._spawning.get_all_handlers()[0]
    settings = kopf.OperatorSettings()
    resource = references.Resource('kopf.dev', 'v1', 'kopfexamples', namespaced=True)
    body = bodies.Body({'metadata': {'namespace': 'ns', 'name': 'obj', 'uid': 'uid1'}, 'spec': {'x': 1}})
    stopper = _Stopper()
    cause = causes.DaemonCause(logger=NullLogger(), indices={},
                               memo=ephemera.Memo(), resource=resource, patch=patches.Patch(body=body), body=body, stopper=stopper)
    memory = daemons.DaemonsMemory(idle_reset_time=T0 - 1.0)

    clock = [T0]
    g = types.SimpleNamespace(running=False, polls=0, stop_pending=False, spun=False)
    runs, sleeps, pcalls, rlog = [], [], [], [(T0, memory.idle_reset_time)]

    def poll():
        g.polls += 1
        if g.polls > 3000:
            g.spun = True
            raise _Spin('no suspension point between 3000 polls of the clock / the stopper')

    def suspended():
        g.polls = 0

    def set_stop():
        if stopper.when is None:
            stopper.set(reason='asked')

    def move_idle():
        memory.idle_reset_time = clock[0]
        rlog.append((clock[0], clock[0]))

    async def execute(*a, **kw):
        n = len(runs) + 1
        st = kw.get('state')
        rec = dict(n=n, start=clock[0], stop_set=stopper.async_event.flag, overlap=g.running, sent=len(pcalls), state=st,
                   handlers=kw.get('handlers'), frame_ok=(kw.get('cause') is cause and kw.get('settings') is settings),
                   R=memory.idle_reset_time, stamp=None, retries=None, end=None)
        try:
            hs = st[handler.id]
            rec['stamp'] = (hs.started - st.basetime).total_seconds()
            rec['retries'] = hs.retries
        except Exception:
            pass
        runs.append(rec)
        if sum(1 for r in runs if r['stop_set']) >= 2 or len(runs) > 2 * N_RUNS:
            raise _Overrun('runs keep starting after the stopper was set')
        g.running = True
        await suspend(f'run{n}')
        suspended()
        cause.patch.setdefault('metadata', {}).setdefault('annotations', {})[f'written-in-run-{n}'] = 'x'   # the handler's `patch` kwarg
        clock[0] += dur / 2
        if stop_plan == ('run', n) or g.stop_pending:
            set_stop()
        if idle_plan == ('run', n):
            move_idle()
        clock[0] = rec['start'] + dur
        rec['end'] = clock[0]
        g.running = False
        if n >= N_RUNS:
            g.stop_pending = True
        kind = script[min(n, len(script)) - 1]
        rec['kind'] = kind
        if kind == 'success':
            o = execution.Outcome(final=True, result={'n': n})
        elif kind == 'temporary':
            o = execution.Outcome(final=False, exception=execution.TemporaryError('later', delay=TEMP_DELAY), delay=TEMP_DELAY)
        elif kind == 'arbitrary':
            o = execution.Outcome(final=False, exception=ValueError('boom'), delay=handler.backoff)
        else:
            o = execution.Outcome(final=True, exception=execution.PermanentError('never'))
        return {handler.id: o}

    async def patch_and_check(*a, **kw):
        p = kw.get('patch')
        j = len(pcalls) + 1
        rec = dict(j=j, at=clock[0], after_run=len(runs), running=g.running, patch=p, is_cause_patch=p is cause.patch,
                   content=copy.deepcopy(dict(p)) if isinstance(p, dict) else None, fns=list(getattr(p, 'fns', ())),
                   frame_ok=(kw.get('settings') is settings and kw.get('resource') is resource and kw.get('body') is body),
                   remaining=None)
        pcalls.append(rec)
        await suspend(f'patch_and_check{j}')
        suspended()
        if j % 2 == 1:
            def carried(raw, j=j):
                return None
            rec['remaining'] = patches.Patch(body=body, fns=[carried])
        return (None, rec['remaining'])

    async def wait_for(aw, timeout):
        ev = stopper.async_event
        ours = aw is ev
        if inspect.iscoroutine(aw):
            ours = aw.cr_code is _StopEvent.wait.__code__ and aw.cr_frame is not None and aw.cr_frame.f_locals.get('self') is ev
            aw.close()
        elif aw is not None and aw is not ev:
            if hasattr(aw, 'cancel'):
                aw.cancel()
        k = len(sleeps) + 1
        rec = dict(k=k, at=clock[0], timeout=timeout, ours=ours, woken=False, end=None)
        sleeps.append(rec)
        if ours and ev.flag:
            rec.update(woken=True, end=clock[0])
            return True
        if timeout is not None and timeout <= 0:
            rec['end'] = clock[0]
            raise asyncio.TimeoutError()
        if k >= MAX_SLEEPS:
            g.stop_pending = True
        await suspend(f'sleep{k}')
        suspended()
        span = timeout if timeout is not None else 2.0
        clock[0] = rec['at'] + span / 2
        if stop_plan == ('sleep', k) or g.stop_pending or timeout is None:
            set_stop()
            if ours:
                rec.update(woken=True, end=clock[0])
                return True
        if idle_plan == ('sleep', k):
            move_idle()
        if timeout is None:
            raise _Spin('a wait without a deadline for something that is not the stopper')
        clock[0] = rec['at'] + span
        rec['end'] = clock[0]
        raise asyncio.TimeoutError()

    _CUR.update(execute=execute, patch_and_check=patch_and_check, wait_for=wait_for, clock=clock, poll=poll)
    escaped, returned_at = None, None
    with patched(daemons, asyncio=_FAKE_ASYNCIO), patched(progression, asyncio=_FAKE_ASYNCIO), patched(aiotime, asyncio=_FAKE_ASYNCIO), \
            patched(execution, execute_handlers_once=_t_execute), patched(application, patch_and_check=_t_patch_and_check):
        if 'ld' not in _LD:
            _LD['ld'] = vc.load('kopf._core.engines.daemons', '_timer')
        else:
            vc.loaded.append(_LD['ld'])
        ld = _LD['ld']
        try:
            vc.drive(ld.fn(settings=settings, handler=handler, memory=memory, cause=cause), lambda site: None)
            returned_at = clock[0]
        except BaseException as e:
            if _not_ours(e):
                raise
            escaped = e

    # ================================================================ the clauses, over the records only
    stop_at = stopper.when
    I = interval                 # the DECLARED settings (what was given to kopf.on.timer), not what the handler object ended up with
    is_sharp = bool(sharp) and bool(interval)
    legit = [r for r in runs if not r['stop_set']]

    def idle_floor(r):
        return r['R'] + idle if idle is not None else None

    def prompt(r, cands):
        """the run started exactly at one of the scheduled moments, or -- idling -- exactly when the idle time was over"""
        f = idle_floor(r)
        return any(_eq(r['start'], c if f is None else max(c, f)) for c in cands)

    # ---- no_self_overlap
    vc.ensure('no_self_overlap', not any(r['overlap'] for r in runs))
    for a, b in zip(runs, runs[1:]):
        vc.ensure('no_self_overlap', a['end'] is not None and b['start'] >= a['end'] and b['sent'] >= a['n'])

    # ---- first run
    first_due = T0 + (init or 0)
    if legit and legit[0]['n'] == 1:
        r = legit[0]
        vc.ensure('first_run_not_before_initial_delay', r['start'] >= first_due - 1e-6)
        vc.ensure('first_run_not_before_initial_delay', prompt(r, [first_due]))
    if not runs:
        # no run at all: only because the stopper came first
        vc.ensure('first_run_not_before_initial_delay', stop_at is not None and escaped is None)

    # ---- the schedule between consecutive runs
    for a, b in zip(runs, runs[1:]):
        if b['stop_set'] or a['end'] is None:
            continue
        failed = a['kind'] in ('temporary', 'arbitrary')
        if failed:
            d = TEMP_DELAY if a['kind'] == 'temporary' else BACKOFF
            vc.ensure('after_error_the_delay', b['start'] >= a['end'] + d - 1e-6 and prompt(b, [a['end'] + d]))
        elif I is not None and not is_sharp:
            vc.ensure('next_run_one_interval_after_the_previous_end', b['start'] >= a['end'] + I - 1e-6)
            if a['kind'] == 'success':
                vc.ensure('next_run_one_interval_after_the_previous_end', prompt(b, [a['end'] + I]))
        elif I is not None and is_sharp:
            grid = [a['start'] + k * I for k in range(1, 8) if a['end'] - 1e-6 <= a['start'] + k * I <= a['end'] + I + 1e-6]
            vc.ensure('sharp_grid', b['start'] >= min(grid) - 1e-6)
            if a['kind'] == 'success':
                vc.ensure('sharp_grid', prompt(b, grid))
    if runs and returned_at is not None and stop_at is None:
        last = runs[-1]
        if last.get('kind') in ('temporary', 'arbitrary'):
            vc.ensure('after_error_the_delay', False)               # a failed run is retried: the timer does not give up by itself
        elif I is not None and last.get('kind') != 'permanent':
            vc.ensure('sharp_grid' if is_sharp else 'next_run_one_interval_after_the_previous_end', False)
    # C11 / docs/timers.rst: "For kopf.PermanentError, the timer stops forever and is not retried": no run follows one that failed for good
    for a, b in zip(runs, runs[1:]):
        vc.ensure('permanent_failure_ends_the_timer', a.get('kind') != 'permanent')
    if runs and runs[-1].get('kind') == 'permanent' and runs[-1]['end'] is not None and escaped is None and (stop_at is None or stop_at > runs[-1]['end']):
        vc.ensure('permanent_failure_ends_the_timer', returned_at is not None and _eq(returned_at, runs[-1]['end']))
    if I is not None and not is_sharp and escaped is not None:
        vc.ensure('next_run_one_interval_after_the_previous_end', False)
    if I is not None and is_sharp and escaped is not None:
        vc.ensure('sharp_grid', False)

    # ---- idling
    if idle is not None:
        for r in runs:
            vc.ensure('idle_respected', r['start'] - r['R'] >= idle - 1e-6)
            vc.canary('canary.never_idles', not _eq(r['start'], r['R'] + idle))

    # ---- the state of every run
    for r in runs:
        vc.ensure('fresh_state_per_run', list(r['handlers'] or ()) == [handler] and r['frame_ok'] and r['stamp'] is not None)
    for a, b in zip(runs, runs[1:]):
        if a['end'] is None or a['stamp'] is None or b['stamp'] is None:
            continue
        if a['kind'] in ('temporary', 'arbitrary'):
            vc.ensure('fresh_state_per_run', _eq(b['stamp'], a['stamp']) and b['retries'] == a['retries'] + 1)
        else:
            vc.ensure('fresh_state_per_run', b['stamp'] >= a['end'] - 1e-6 and b['retries'] == 0)
    if runs and runs[0]['stamp'] is not None:
        vc.ensure('fresh_state_per_run', runs[0]['retries'] == 0)

    # ---- stopping
    vc.ensure('stops_when_asked', escaped is None and not g.spun)
    vc.ensure('stops_when_asked', not any(r['stop_set'] for r in runs))
    vc.ensure('stops_when_asked', all(s['ours'] for s in sleeps))
    if escaped is None:
        if stop_at is not None:
            in_flight = [r['end'] for r in runs if r['start'] <= stop_at and r['end'] is not None and r['end'] >= stop_at]
            vc.ensure('stops_when_asked', _eq(returned_at, max([stop_at] + in_flight)))
        else:
            # it ended by itself: only a one-shot timer (neither interval nor idle) after a finished run may
            # ... or any timer after a run that failed for good
            vc.ensure('stops_when_asked', bool(runs) and (runs[-1].get('kind') == 'permanent'
                                                          or (runs[-1].get('kind') == 'success' and I is None and idle is None)))
    vc.canary('canary.never_woken_from_a_sleep', not any(s['woken'] for s in sleeps))

    # ---- the patch
    vc.ensure('patch_carried', all(p['frame_ok'] and p['is_cause_patch'] and not p['running'] for p in pcalls))
    vc.ensure('patch_carried', [p['after_run'] for p in pcalls] == [r['n'] for r in runs if r['end'] is not None])
    prev = None
    for p, r in zip(pcalls, runs):
        want = {'metadata': {'annotations': {f"written-in-run-{r['n']}": 'x'}}}
        if r.get('kind') == 'success':
            want['status'] = {HID: {'n': r['n']}}
        vc.ensure('patch_carried', p['content'] == want)
        vc.ensure('patch_carried', p['fns'] == (list(prev['remaining'].fns) if prev is not None and prev['remaining'] is not None else []))
        vc.canary('canary.nothing_carried', not p['fns'])
        prev = p
    if pcalls and escaped is None:
        last = pcalls[-1]
        # what the last patch_and_check handed back stays with the cause (the object's next cycle sends it)
        vc.ensure('patch_carried', list(getattr(cause.patch, 'fns', ())) == (list(last['remaining'].fns) if last['remaining'] is not None else [])
                  and dict(cause.patch) == {})

    vc.canary('canary.never_runs', not runs)
    vc.canary('canary.every_run_succeeds', all(r.get('kind') == 'success' for r in runs))
    return ('timer', cfg, tuple(script), stop_plan, idle_plan, tuple((r['start'], r['end']) for r in runs), len(sleeps), returned_at,
            type(escaped).__name__)

