"""Contracts (work in progress, builder w3-causes) for the kwargs every callback receives:
kopf._core.intents.causes (detect_watching/spawning_cause, ChangingCause.deleted, the *_kwargs builders),
kopf._core.actions.invocation (Kwargable, context, is_async_fn), kopf._cogs.structs.bodies (the views, the two
reference builders) and queueing.get_version.   Harness ids: KC1..KC14."""
import z3

from pyvc import *
from pyvc.stubs import Opaque, NullLogger
from pyvc.values import J, to_json_term


# =============================================================================================== JSON helpers
def _sel(t, *path):
    """the J term at `path` below the J term `t` (JAbsent when a parent is not an object: fields() of a non-object is
    unconstrained, so callers guard with is_JObj where it matters)"""
    for k in path:
        t = z3.Select(J.fields(t), z3.StringVal(k) if isinstance(k, str) else k.term)
    return t


FIELD_NAMES = ('metadata', 'spec', 'status', 'labels', 'annotations', 'uid', 'name', 'namespace', 'creationTimestamp',
               'deletionTimestamp', 'apiVersion', 'kind', 'resourceVersion', 'object', 'type')


def _concretize(x, keys=()):
    """Concrete JSON from a solver model: <absent> markers are dropped; a model object whose *default* is a value
    ('every other key' -> v, an artefact of the array encoding) is materialised at the keys the harness can look at
    (the well-known field names and the drawn symbolic keys), so that the replay sees what the model says."""
    from pyvc.values import Absent
    if isinstance(x, dict):
        out = {k: _concretize(v, keys) for k, v in x.items() if not isinstance(v, Absent) and k != '<every-other-key>'}
        if '<every-other-key>' in x:
            for k in tuple(FIELD_NAMES) + tuple(keys):
                if k not in x:
                    out[k] = _concretize(x['<every-other-key>'], keys)
        return out
    if isinstance(x, list):
        # (a list element cannot be "absent": the encoding's marker inside a list stands for an unknown element -> null)
        return [None if isinstance(v, Absent) else _concretize(v, keys) for v in x]
    return x


STANZAS = (('metadata',), ('spec',), ('status',), ('metadata', 'labels'), ('metadata', 'annotations'))


def draw_raw(vc, name='raw', keys=()):
    """
    A raw object body as the API delivers it: an arbitrary JSON object whose `metadata`, `spec`, `status`,
    `metadata.labels`, `metadata.annotations` are JSON objects when present (Kubernetes guarantees much more);
    every field, including `metadata` itself, may be absent; leaves are arbitrary JSON (incl. null, '' and {}).
    """
    raw = vc.json(name)
    if vc.concrete:
        raw = _concretize(raw, keys)
        if not isinstance(raw, dict):
            raw = {}
        return raw
    t = raw.term
    vc.assume(J.is_JObj(t), f'{name} is an object')
    md = _sel(t, 'metadata')
    vc.assume(z3.Or(J.is_JAbsent(md), J.is_JObj(md)), 'metadata is an object if present')
    for p in STANZAS[1:]:
        parent_ok = J.is_JObj(md) if len(p) == 2 else z3.BoolVal(True)
        x = _sel(t, *p)
        vc.assume(z3.Implies(parent_ok, z3.Or(J.is_JAbsent(x), J.is_JObj(x))), f'{".".join(p)} is an object if present')
    return raw


def jget(raw, *path):
    """SPEC: the value at `path` of a raw body as Python sees it: ('absent',) | ('value', v) -- as a pair
    (is_present: bool/SBool, value: the SJson view / concrete value); null is a present value None."""
    if isinstance(raw, SJson):
        t = raw.term
        present = z3.BoolVal(True)
        for k in path:
            present = z3.And(present, J.is_JObj(t))
            t = _sel(t, k)
        present = z3.And(present, z3.Not(J.is_JAbsent(t)))
        return SBool(present), t
    cur = raw
    for k in path:
        if not isinstance(cur, dict) or k not in cur:
            return False, None
        cur = cur[k]
    return True, cur


def _unchanged(raw, before):
    return SBool(raw.term == before) if isinstance(raw, SJson) else repr(raw) == before


def _snapshot(raw):
    return raw.term if isinstance(raw, SJson) else repr(raw)


def same_field(got, raw, *path):
    """SPEC: `got` is what `raw.get(...)...get(last)` denotes: the value at path, or None when absent (null is None too)."""
    present, v = jget(raw, *path)
    if isinstance(raw, SJson):
        want = z3.If(present.term, v, J.JNull)
        return SBool(to_json_term(got) == want)
    return got == (v if present else None)


# =============================================================================================== bodies: the views
BODIES = 'kopf._cogs.structs.bodies'


def make_view(vc, cls_name, *args):
    """Construct a bodies.<cls_name> through its EXTRACTED __init__ (super().__init__ is MappingView.__init__, inlined;
    the nested Meta/Spec/Status of a Body are constructed through their extracted __init__ too)."""
    from kopf._cogs.structs import bodies, dicts
    me = object.__new__(getattr(bodies, cls_name))
    stubs = {'super': lambda: Opaque('super()', __init__=lambda *a: dicts.MappingView.__init__(me, *a))}
    if cls_name == 'Body':
        for sub in ('Meta', 'Spec', 'Status'):
            stubs[sub] = (lambda sub: lambda src: make_view(vc, sub, src))(sub)
    vc.load(BODIES, f'{cls_name}.__init__', stubs=stubs).fn(me, *args)
    return me


def prop(vc, obj, qualname):
    return vc.load(BODIES, qualname).fn(obj)


_MISSING = Opaque('default')


def view_shows(view, raw, path, k):
    """SPEC (docs/kwargs.rst): the view is equivalent to raw[path...] when that exists, and behaves as an empty dict
    when it does not -- observed through .get(k, default) for an arbitrary key k."""
    got = view.get(k, _MISSING)
    present, v = jget(raw, *path, k)
    if isinstance(raw, SJson):
        if got is _MISSING:
            return Not(present)
        return And(present, SBool(to_json_term(got) == v))
    return (got is _MISSING and not present) or (present and got == v)


@harness('KC9', targets=[f'{BODIES}.{n}' for n in (
            'Body.__init__', 'Body.metadata', 'Body.meta', 'Body.spec', 'Body.status', 'Meta.__init__', 'Meta.labels',
            'Meta.annotations', 'Meta.uid', 'Meta.name', 'Meta.namespace', 'Meta.creation_timestamp',
            'Meta.deletion_timestamp', 'Spec.__init__', 'Status.__init__')],
         props=['C15', 'C05', 'C09', 'C04', 'C06', 'C07', 'C08', 'C16', 'C18', 'C03', 'C02', 'C14'],
         prop_clauses={'C03': ['live'], 'C02': ['live'], 'C14': ['live']},
         clauses=['stanza_views', 'identity_fields', 'live'], canaries=['canary.uid_always_present'],
         trusted=['dicts.MappingView/ReplaceableMappingView/resolve run as real code (inlined): a view (src, path) reads src[path...] on every access'])
def KC9(vc):
    """
    The body views a callback receives (docs/kwargs.rst "Body parts"), for an ARBITRARY raw JSON object:
      stanza_views     body.spec / body.status / body.metadata (== body.meta) / .metadata.labels / .metadata.annotations
                       are equivalent to raw['spec'] ... raw['metadata']['annotations'] when those exist and behave as
                       empty dicts when they do not (for an arbitrary key: .get(key, default));
      identity_fields  metadata.uid / name / namespace / creation_timestamp / deletion_timestamp are the respective
                       fields of raw['metadata'], or None when not present (no KeyError);
      live             the views are LIVE: after the body's source is replaced (Body._replace_with, as the daemons' fresh
                       body is, processing.py), the same view objects show the new object -- a callback sees the body at hand.
    """
    k = vc.str('key')
    raw = draw_raw(vc, 'raw', keys=[k])
    raw2 = draw_raw(vc, 'raw2', keys=[k])
    body = make_view(vc, 'Body', raw)
    meta = prop(vc, body, 'Body.metadata')
    views = {('metadata',): meta, ('spec',): prop(vc, body, 'Body.spec'), ('status',): prop(vc, body, 'Body.status'),
             ('metadata', 'labels'): prop(vc, meta, 'Meta.labels'), ('metadata', 'annotations'): prop(vc, meta, 'Meta.annotations')}
    alias = prop(vc, body, 'Body.meta')
    FIELDS = (('Meta.uid', 'uid'), ('Meta.name', 'name'), ('Meta.namespace', 'namespace'),
              ('Meta.creation_timestamp', 'creationTimestamp'), ('Meta.deletion_timestamp', 'deletionTimestamp'))
    which = vc.nondet(len(STANZAS) + 1 + len(FIELDS), 'observation')
    phase = vc.nondet(2, 'before / after the source is replaced')
    clause = 'stanza_views' if which <= len(STANZAS) else 'identity_fields'
    if phase == 1:
        body._replace_with(raw2)
        raw, clause = raw2, 'live'
    if which < len(STANZAS):
        p = STANZAS[which]
        vc.ensure(clause, view_shows(views[p], raw, p, k))
        out = ('stanza', p)
    elif which == len(STANZAS):
        vc.ensure(clause, view_shows(alias, raw, ('metadata',), k))
        out = ('alias',)
    else:
        qual, fld = FIELDS[which - len(STANZAS) - 1]
        got = prop(vc, meta, qual)
        vc.ensure(clause, same_field(got, raw, 'metadata', fld))
        if fld == 'uid':
            vc.canary('canary.uid_always_present', got is not None)
        out = ('field', fld)
    return out + (phase,)


# =============================================================================================== bodies: references
REF_SOURCES = {'apiVersion': ('apiVersion',), 'kind': ('kind',), 'name': ('metadata', 'name'), 'uid': ('metadata', 'uid'),
               'namespace': ('metadata', 'namespace')}
OTHERS = ('absent', 'null', 'empty string', 'non-empty string')
REF_DOMAIN = ('the body is a JSON object {apiVersion?, kind?, spec?, metadata?: {name?, uid?, namespace?, labels?}} in which ONE of '
              'the identifying fields (every one in turn) is absent or ARBITRARY JSON -- null, empty/non-empty string, any '
              'other kind -- while the others are, all alike, absent / null / "" / arbitrary non-empty strings (the '
              'fields are read independently; the full product of field states is beyond the quick budget); metadata '
              'itself absent or an object; given as a bodies.Body view or as the plain dict')


def _json_value(vc, name):
    """an arbitrary PRESENT JSON value as Python sees it: None for null, else the (symbolic) value"""
    v = vc.json(name)
    if isinstance(v, SJson):
        vc.assume(Not(v.is_absent()), 'a present value')
        if v.is_null():
            return None
        return v
    return _concretize(v)


def draw_ref_body(vc, names):
    """The body domain REF_DOMAIN over the identifying fields `names`; returns (raw dict, focus name)."""
    focus = names[vc.nondet(len(names), 'the field that is arbitrary JSON')]
    others = OTHERS[vc.nondet(len(OTHERS), 'the other fields are all: absent / null / empty / non-empty strings')]
    raw, md = {'spec': {'field': 'value'}}, {'labels': {}}
    for name in names:
        path = REF_SOURCES[name]
        tgt = raw if len(path) == 1 else md
        if name == focus:
            if vc.nondet(2, f'{name}: absent / present') == 1:
                tgt[path[-1]] = _json_value(vc, name)
        elif others == 'null':
            tgt[path[-1]] = None
        elif others == 'empty string':
            tgt[path[-1]] = ''
        elif others == 'non-empty string':
            tgt[path[-1]] = x = vc.str(name)
            vc.assume(x != '', 'non-empty')
    if vc.nondet(2, 'metadata: an object / absent') == 0:
        raw['metadata'] = md
    return raw, focus


def _field(raw, path):
    """SPEC: (present, value) of the field at `path` of a concrete-structured body"""
    cur = raw
    for k in path:
        if not isinstance(cur, dict) or k not in cur:
            return False, None
        cur = cur[k]
    return True, cur


def _truthy(v):
    return v.truth() if isinstance(v, SV) else bool(v)


def _frozen(raw):
    return {k: (_frozen(v) if isinstance(v, dict) else v) for k, v in raw.items()}


def _same_doc(a, b):
    return a.keys() == b.keys() and all(_same_doc(a[k], b[k]) if isinstance(b[k], dict) else a[k] is b[k] for k in b)


def call_total(vc, clause, fn, *a, **kw):
    """Run the target; an exception (other than the engine's own) refutes `clause` ("never raises") and ends the path."""
    try:
        r = fn(*a, **kw)
    except Exception as e:
        if isinstance(e, Unsupported):
            raise
        vc.ensure(clause, False, note=f'raised {type(e).__name__}: {e}')
        raise PathEnd(f'the target raised {type(e).__name__}')
    vc.ensure(clause, True)
    return r


def check_ref_fields(vc, ref, raw, names):
    """SPEC shared by the two reference builders: a key, when there, carries the body's field (the very value, never
    null); a field with a non-empty value is there; an absent or null field is omitted.  (Whether a present-but-EMPTY
    value such as '' is sent or omitted is not documented: either is accepted.)"""
    for key in names:
        present, v = _field(raw, REF_SOURCES[key])
        vc.ensure('empty_fields_omitted', Implies(key in ref, And(present, v is not None)))
        vc.ensure('fields_from_the_body', Implies(And(present, _truthy(v)), key in ref))
        if key in ref:
            vc.ensure('fields_from_the_body', And(present, Or(ref[key] is v, Eq(ref[key], v))))


def _as_body(vc, raw):
    """the two kinds of objects the call sites pass: a bodies.Body view (the `body` kwarg) or the plain dict itself"""
    from kopf._cogs.structs import bodies
    return raw if vc.nondet(2, 'a Body view / the raw dict') == 1 else bodies.Body(raw)


@harness('KC11', targets=f'{BODIES}.build_object_reference', props=['C12', 'C20', 'C15'],
         clauses=['total', 'fields_from_the_body', 'empty_fields_omitted', 'nothing_else', 'pure'], canaries=['canary.namespace_always_there'],
         assumes=[REF_DOMAIN], trusted=['bodies.Body/dicts.MappingView run as real code (inlined; contract KC9)'])
def KC11(vc):
    """
    build_object_reference(body) -- the involvedObject of the Kubernetes events the framework posts:
    apiVersion/kind are the body's, name/uid/namespace are its metadata's, whenever they have a (non-empty) value
    (fields_from_the_body); a field that is absent or null is omitted, not sent as null ("some fields can be absent: e.g.
    namespace for cluster resources, apiVersion for kind: Node"; a body without metadata included) (empty_fields_omitted;
    whether an EMPTY value is sent or omitted is left open); there are no other keys
    (nothing_else); the body is not modified (pure); no exception for any such body (total).
    """
    raw, focus = draw_ref_body(vc, tuple(REF_SOURCES))
    before = _frozen(raw)
    body = _as_body(vc, raw)
    ref = call_total(vc, 'total', vc.load(BODIES, 'build_object_reference').fn, body)
    vc.ensure('total', isinstance(ref, dict))
    check_ref_fields(vc, ref, raw, tuple(REF_SOURCES))
    vc.ensure('nothing_else', set(ref) <= set(REF_SOURCES))
    vc.ensure('pure', _same_doc(raw, before))
    if focus == 'namespace':
        vc.canary('canary.namespace_always_there', 'namespace' in ref)
    return ('ref', sorted(ref))


OWNER_FIELDS = ('apiVersion', 'kind', 'name', 'uid')
_OMIT = Opaque('argument omitted')


@harness('KC12', targets=f'{BODIES}.build_owner_reference', props=['C15'],
         clauses=['total', 'controller_and_blocking_default_to_true', 'flags_as_given', 'fields_from_the_body', 'empty_fields_omitted',
                  'nothing_else', 'pure'],
         canaries=['canary.always_a_controller', 'canary.uid_always_there'],
         assumes=[REF_DOMAIN], trusted=['bodies.Body/dicts.MappingView run as real code (inlined; contract KC9)'])
def KC12(vc):
    """
    build_owner_reference(body, controller=, block_owner_deletion=) (docs/hierarchies.rst "Owner references": "The owner
    is a dict containing the fields apiVersion, kind, metadata.name, and metadata.uid (other fields are ignored)";
    "controller / block_owner_deletion: both of the above are True by default"):
      controller_and_blocking_default_to_true   without the keyword arguments the reference says controller: true,
                                                blockOwnerDeletion: true;
      flags_as_given     with them, it carries exactly the given booleans; None means "do not say" (key omitted, not null);
      fields_from_the_body / empty_fields_omitted   apiVersion, kind from the body, name, uid from its metadata; absent or
                         null fields are omitted (as for KC11);
      nothing_else       no other keys (an ownerReference has no namespace!);  pure: the owner is not modified;  total.
    """
    ld = vc.load(BODIES, 'build_owner_reference')
    if vc.nondet(2, 'scenario: the flags / the fields') == 0:
        raw = {'apiVersion': vc.str('apiVersion'), 'kind': vc.str('kind'), 'metadata': {'name': vc.str('name'), 'uid': vc.str('uid'),
                                                                                      'namespace': vc.str('namespace')}}
        args = {}
        for arg in ('controller', 'block_owner_deletion'):
            a = [_OMIT, None, True, False][vc.nondet(4, f'{arg}: omitted / None / True / False')]
            if a is not _OMIT:
                args[arg] = a
        ref = call_total(vc, 'total', ld.fn, _as_body(vc, raw), **args)
        for arg, key in (('controller', 'controller'), ('block_owner_deletion', 'blockOwnerDeletion')):
            if arg not in args:
                vc.ensure('controller_and_blocking_default_to_true', ref.get(key) is True)
            elif args[arg] is None:
                vc.ensure('flags_as_given', key not in ref)
            else:
                vc.ensure('flags_as_given', ref.get(key) is args[arg])
        vc.ensure('nothing_else', set(ref) <= set(OWNER_FIELDS) | {'controller', 'blockOwnerDeletion'})
        vc.canary('canary.always_a_controller', ref.get('controller') is True)
        return ('flags', sorted(ref))
    raw, focus = draw_ref_body(vc, OWNER_FIELDS)
    before = _frozen(raw)
    ref = call_total(vc, 'total', ld.fn, _as_body(vc, raw))
    vc.ensure('total', isinstance(ref, dict))
    vc.ensure('controller_and_blocking_default_to_true', ref.get('controller') is True and ref.get('blockOwnerDeletion') is True)
    check_ref_fields(vc, ref, raw, OWNER_FIELDS)
    vc.ensure('nothing_else', set(ref) <= set(OWNER_FIELDS) | {'controller', 'blockOwnerDeletion'})
    vc.ensure('pure', _same_doc(raw, before))
    if focus == 'uid':
        vc.canary('canary.uid_always_there', 'uid' in ref)
    return ('fields', sorted(ref))


# =============================================================================================== queueing.get_version
@harness('KC13', targets='kopf._core.reactor.queueing.get_version', props=['C07', 'C01', 'C02', 'C03', 'C05', 'C06', 'C11', 'C14'],
         clauses=['total', 'version_of_the_event', 'none_for_end_of_stream', 'pure'], canaries=['canary.always_versioned'])
def KC13(vc):
    """
    queueing.get_version(raw_event) -- what the worker compares with the resourceVersion returned by its own PATCH (C07):
    for a watch event (an arbitrary JSON object whose `object` and `object.metadata`, when present, are objects) it is
    exactly event['object']['metadata']['resourceVersion'], and None when that (or any parent) is absent or null -- never
    an exception, never some other field; for the end-of-stream marker it is None; the event is not modified.
    """
    from kopf._core.reactor import queueing
    ld = vc.load('kopf._core.reactor.queueing', 'get_version')
    if vc.nondet(2, 'an event / the end-of-stream marker') == 1:
        got = call_total(vc, 'total', ld.fn, queueing.EOS.token)
        vc.ensure('none_for_end_of_stream', got is None)
        return ('eos',)
    ev = vc.json('event')
    if isinstance(ev, SJson):
        obj = _sel(ev.term, 'object')
        md = _sel(obj, 'metadata')
        vc.assume(J.is_JObj(ev.term), 'the event is an object')
        vc.assume(z3.Or(J.is_JAbsent(obj), J.is_JObj(obj)), 'event.object is an object if present')
        vc.assume(z3.Implies(J.is_JObj(obj), z3.Or(J.is_JAbsent(md), J.is_JObj(md))), 'object.metadata is an object if present')
    else:
        ev = _concretize(ev)
    before = _snapshot(ev)
    got = call_total(vc, 'total', ld.fn, ev)
    vc.ensure('version_of_the_event', same_field(got, ev, 'object', 'metadata', 'resourceVersion'))
    vc.ensure('pure', _unchanged(ev, before))
    vc.canary('canary.always_versioned', got is not None)
    return ('event', got)


# =============================================================================================== causes: detection
CAUSES = 'kopf._core.intents.causes'
COMMON = ('resource', 'indices', 'logger', 'patch', 'memo')


def common_kwargs():
    return {name: Opaque(name) for name in COMMON}


def passed_through(cause, given):
    return all(getattr(cause, name, None) is value for name, value in given.items())


@harness('KC1', targets=[f'{CAUSES}.detect_watching_cause', f'{CAUSES}.detect_spawning_cause'], props=['C05', 'C15', 'C09', 'C10', 'C06'],
         clauses=['total', 'kind_of_cause', 'event_and_type', 'reset_flag', 'passes_through', 'pure'],
         canaries=['canary.type_is_always_added', 'canary.never_reset'])
def KC1(vc):
    """
    The two trivial detectors: every event yields a WatchingCause that carries the raw event itself, ITS type (every type
    of the watch protocol incl. None of the initial listing) and the body/resource/indices/logger/patch/memo it was given;
    a SpawningCause carries the body, the reset flag (essential change: resets the idle timers) and the rest likewise --
    nothing is swapped, dropped or defaulted, the event is not modified.
    """
    from kopf._core.intents import causes
    given = common_kwargs()
    given['body'] = Opaque('body')
    if vc.nondet(2, 'watching / spawning') == 0:
        etype = vc.fin('event.type', [None, 'ADDED', 'MODIFIED', 'DELETED', 'BOOKMARK'])
        obj = Opaque('raw object')
        raw_event = {'type': etype, 'object': obj}
        res = call_total(vc, 'total', vc.load(CAUSES, 'detect_watching_cause').fn, raw_event=raw_event, **given)
        vc.ensure('kind_of_cause', type(res) is causes.WatchingCause)
        vc.ensure('event_and_type', res.event is raw_event and Eq(res.type, etype))
        vc.ensure('passes_through', passed_through(res, given))
        vc.ensure('pure', len(raw_event) == 2 and raw_event['type'] is etype and raw_event['object'] is obj)
        vc.canary('canary.type_is_always_added', Eq(res.type, 'ADDED'))
        return ('watching', res.type)
    reset = vc.bool('reset')
    res = call_total(vc, 'total', vc.load(CAUSES, 'detect_spawning_cause').fn, reset=reset, **given)
    vc.ensure('kind_of_cause', type(res) is causes.SpawningCause)
    vc.ensure('reset_flag', Eq(res.reset, reset))
    vc.ensure('passes_through', passed_through(res, given))
    vc.canary('canary.never_reset', Not(res.reset))
    return ('spawning', res.reset)


def spec_ongoing(raw):
    """SPEC (C05): the object is marked for deletion == metadata.deletionTimestamp is present and not null."""
    present, v = jget(raw, 'metadata', 'deletionTimestamp')
    if isinstance(raw, SJson):
        return And(present, SBool(z3.Not(J.is_JNull(v))))
    return bool(present) and v is not None


@harness('KC2', targets=f'{CAUSES}.ChangingCause.deleted', props=['C05', 'C14', 'C15', 'C06'],
         clauses=['total', 'deleted_iff_marked_for_deletion', 'pure'], canaries=['canary.never_deleted'],
         trusted=['bodies.Body (KC9) and finalizers.is_deletion_ongoing (K2: the same predicate) run as real code (inlined)'])
def KC2(vc):
    """
    ChangingCause.deleted -- what selects/skips the @on.resume handlers on objects being deleted (deleted= option; C14),
    and must agree with the DELETE/FREE classification of the same body (C05): over an arbitrary JSON body,
    deleted <=> the cause's OWN body (not old/new) carries a non-null metadata.deletionTimestamp; no exception for bodies
    without metadata; nothing is modified.
    """
    from kopf._cogs.structs import bodies
    raw = draw_raw(vc)
    before = _snapshot(raw)
    essence = {'metadata': {'deletionTimestamp': ['absent', None, 'a time'][vc.nondet(3, 'old/new essences say: absent / null / marked')]}}
    if essence['metadata']['deletionTimestamp'] == 'absent':
        essence = {'spec': {}}
    cause = Opaque('cause', body=bodies.Body(raw), old=essence, new=dict(essence), patch={}, reason='resume', initial=True)
    got = call_total(vc, 'total', vc.load(CAUSES, 'ChangingCause.deleted').fn, cause)
    vc.ensure('deleted_iff_marked_for_deletion', Iff(got, spec_ongoing(raw)))
    vc.ensure('pure', _unchanged(raw, before))
    vc.canary('canary.never_deleted', Not(got))
    return ('deleted', got)


# =============================================================================================== causes: the kwargs
EXECUTION = 'kopf._core.actions.execution'
INVOCATION = 'kopf._core.actions.invocation'

# docs/kwargs.rst (+ the callback protocols of kopf/_core/intents/callbacks.py): which names a callback of each kind
# receives, and which part of the cause each is.  `RES`: the same-named record of the cause; the body parts: see below.
RES = ('resource', 'body', 'logger', 'patch', 'memo')
DOCUMENTED = {
    'ActivityCause': ('settings', 'logger', 'memo'),
    'ResourceCause': RES,
    'IndexingCause': RES,
    'WatchingCause': RES + ('event', 'type'),
    'SpawningCause': RES,
    'ChangingCause': RES + ('reason', 'old', 'new', 'diff'),
    'DaemonCause': RES,
    'WebhookCause': RES + ('dryrun', 'warnings', 'subresource', 'userinfo', 'headers', 'sslpeer'),
}
RESOURCE_CAUSES = tuple(k for k in DOCUMENTED if k != 'ActivityCause')
VIEW_PARTS = {'spec': ('spec',), 'meta': ('metadata',), 'status': ('status',), 'labels': ('metadata', 'labels'),
              'annotations': ('metadata', 'annotations')}
FIELD_PARTS = {'uid': ('metadata', 'uid'), 'name': ('metadata', 'name'), 'namespace': ('metadata', 'namespace')}
# record fields the framework keeps to itself (not in docs/kwargs.rst): a *_kwargs builder MAY drop them
INTERNAL = {'WebhookCause': ('reason', 'webhook'), 'SpawningCause': ('reset',), 'ChangingCause': ('initial',), 'DaemonCause': ('stopper',)}
SHAPES = ('full', 'cluster-scoped, bare', 'no metadata', 'nulls and empty stanzas')


def draw_shaped_raw(vc, tag=''):
    """A raw body of one of the SHAPES; the identifying fields and the label/annotation/spec/status values are arbitrary
    strings (possibly empty), each its own symbolic value."""
    shape = SHAPES[vc.nondet(len(SHAPES), f'shape of the body{tag}')]
    s = lambda n: vc.str(n + tag)
    if shape == 'full':
        return {'metadata': {'uid': s('uid'), 'name': s('name'), 'namespace': s('namespace'), 'labels': {'l': s('label')},
                             'annotations': {'a': s('annotation')}}, 'spec': {'f': s('spec.f')}, 'status': {'g': s('status.g')}}
    if shape == 'cluster-scoped, bare':
        return {'metadata': {'uid': s('uid'), 'name': s('name')}}
    if shape == 'no metadata':
        return {'kind': 'Something'}
    return {'metadata': {'uid': None, 'name': None, 'namespace': None, 'labels': {}, 'annotations': {}}, 'spec': {}, 'status': {}}


def full_raw(vc, tag):
    s = lambda n: vc.str(n + tag)
    return {'metadata': {'uid': s('uid'), 'name': s('name'), 'namespace': s('namespace'), 'labels': {'l': s('label'), 'l2': ''},
                         'annotations': {'a': s('annotation')}}, 'spec': {'f': s('spec.f')}, 'status': {'g': s('status.g')}}


class IndicesView(__import__('collections').abc.Mapping):
    """ephemera.Indices by contract: a read-only mapping index-name -> index (like indexing.OperatorIndices)"""
    def __init__(self, d): self._d = dict(d)
    def __len__(self): return len(self._d)
    def __iter__(self): return iter(self._d)
    def __getitem__(self, k): return self._d[k]


INDEX_SETS = ((), ('by_label',), ('by_label', 'labels'), ('body', 'stopped', 'by_label'))


def draw_indices(vc):
    """no indices / one / some named like framework kwargs ('labels'; 'body', 'stopped': the operator's index wins)"""
    names = INDEX_SETS[vc.nondet(len(INDEX_SETS), 'declared indices')]
    return IndicesView({n: Opaque(f'index:{n}') for n in names})


def make_cause(vc, clsname, *, body=None, indices=None):
    """A REAL instance of causes.<clsname>: every field its own opaque record, except those given."""
    import dataclasses
    from kopf._core.intents import causes
    cls = getattr(causes, clsname) if hasattr(causes, clsname) else None
    if clsname == 'Cause':
        from kopf._core.actions import execution
        cls = execution.Cause
    vals = {f.name: Opaque(f'record:{f.name}') for f in dataclasses.fields(cls)}
    if 'body' in vals and body is not None:
        vals['body'] = body
    if 'indices' in vals:
        vals['indices'] = indices if indices is not None else IndicesView({})
    if 'warnings' in vals:
        vals['warnings'] = []
    if 'stopper' in vals:
        vals['stopper'] = Opaque('stopper', sync_waiter=Opaque('stopper.sync_waiter'), async_waiter=Opaque('stopper.async_waiter'))
    return cls(**vals)


def record_kwargs(cause, without=()):
    """CONTRACT of the lower builders, as a dict: every record (dataclass field) of the cause under its own name"""
    import dataclasses
    return {f.name: getattr(cause, f.name) for f in dataclasses.fields(cause) if f.name not in without}


def parent_stub(**attrs):
    """`super()` inside an extracted builder: the base class's builder BY CONTRACT -- what it promises (the given
    entries) plus, possibly, entries the contract does not speak about (the marker entry)"""
    attrs = {k: dict(v, **{'<more>': Opaque('an entry the parent added')}) for k, v in attrs.items()}
    return (lambda: Opaque('super()', **attrs)), attrs


def kept(kw, parent, except_=()):
    return all(k in kw and kw[k] is v for k, v in parent.items() if k not in except_)


def parts_bound(kw, raw, skip=()):
    """SPEC (docs/kwargs.rst "Body parts"): spec/meta/status/labels/annotations show raw's stanzas (as empty dicts when
    absent); uid/name/namespace are metadata's fields, None when not there."""
    conds = []
    for name, path in VIEW_PARTS.items():
        if name in skip:
            continue
        present, v = _field(raw, path)
        want = v if present else {}
        view = kw.get(name)
        if view is None or set(view) != set(want) or len(view) != len(want) or view.get('no-such-key', _MISSING) is not _MISSING:
            return False
        conds += [Eq(view[k], want[k]) if not isinstance(want[k], dict) else dict(view[k]) == want[k] for k in want]
    for name, path in FIELD_PARTS.items():
        if name in skip:
            continue
        present, v = _field(raw, path)
        if name not in kw:
            return False
        conds.append(kw[name] is None if (not present or v is None) else Eq(kw[name], v))
    return And(True, *conds)


@harness('KC3', targets=[f'{EXECUTION}.Cause._kwargs', f'{CAUSES}.BaseCause._kwargs', f'{CAUSES}.BaseCause._super_kwargs'],
         props=['C05', 'C15', 'C17', 'C09', 'C18', 'C04', 'C08', 'C10'],
         clauses=['total', 'every_record_offered', 'parent_kwargs_kept', 'no_global_indices_kwarg', 'each_index_under_its_name'],
         canaries=['canary.no_indices_declared'])
def KC3(vc):
    """
    The two lowest kwargs builders and the index kwargs, for a real instance of EVERY cause class:
      every_record_offered     execution.Cause._kwargs: each record (dataclass field) of the cause -- logger, memo, resource,
                               body, patch, event, type, reason, old, new, diff, dryrun, warnings, userinfo, ... --
                               under its own name, bound to that very object (what the upper builders and, in the end, the
                               documented kwargs rest on);
      parent_kwargs_kept / no_global_indices_kwarg   BaseCause._kwargs: the same, minus `indices` ("There is no global
                               structure to access all indices at once", docs/kwargs.rst "In-memory indices");
      each_index_under_its_name   BaseCause._super_kwargs: "Each index is exposed in kwargs under its name": exactly the
                               declared indices (none, one, several, some named like framework kwargs), each its own.
    """
    classes = ('Cause', 'BaseCause') + tuple(DOCUMENTED)
    clsname = classes[vc.nondet(len(classes), 'class of the cause')]
    which = vc.nondet(3, 'Cause._kwargs / BaseCause._kwargs / BaseCause._super_kwargs')
    if which > 0 and clsname == 'Cause':
        clsname = 'BaseCause'
    indices = draw_indices(vc)
    cause = make_cause(vc, clsname, indices=indices)
    if which == 0:
        kw = call_total(vc, 'total', vc.load(EXECUTION, 'Cause._kwargs').fn, cause)
        vc.ensure('every_record_offered', isinstance(kw, dict) and kept(kw, record_kwargs(cause)))
        out = sorted(kw)
    elif which == 1:
        sup, parent = parent_stub(_kwargs=record_kwargs(cause))
        vc.used('execution.Cause._kwargs', 'KC3')
        kw = call_total(vc, 'total', vc.load(CAUSES, 'BaseCause._kwargs', stubs={'super': sup}).fn, cause)
        vc.ensure('parent_kwargs_kept', isinstance(kw, dict) and kept(kw, parent['_kwargs'], except_=('indices',)))
        vc.ensure('no_global_indices_kwarg', 'indices' not in kw)
        out = sorted(kw)
    else:
        kw = call_total(vc, 'total', vc.load(CAUSES, 'BaseCause._super_kwargs').fn, cause)
        vc.ensure('each_index_under_its_name', isinstance(kw, dict) and set(kw) == set(indices) and all(kw[n] is indices[n] for n in indices))
        vc.canary('canary.no_indices_declared', not kw)
        out = sorted(kw)
    return (clsname, which, out)


@harness('KC4', targets=f'{CAUSES}.ResourceCause._kwargs', props=['C15', 'C05', 'C09', 'C18', 'C17', 'C04', 'C08', 'C10', 'C03', 'C02', 'C14'],
         prop_clauses={'C03': ['views_are_live'], 'C02': ['views_are_live'], 'C14': ['views_are_live']},
         clauses=['total', 'parent_kwargs_kept', 'body_parts_of_the_body_at_hand', 'views_are_live'],
         canaries=['canary.always_namespaced'],
         trusted=['bodies.Body and its views run as real code (inlined): contract KC9 (arbitrary JSON bodies)'],
         assumes=['bodies of the SHAPES full / cluster-scoped bare / without metadata / null fields and empty stanzas, with '
                  'arbitrary (possibly empty) strings as values; the general reading behaviour of the views over arbitrary JSON is KC9'])
def KC4(vc):
    """
    ResourceCause._kwargs -- docs/kwargs.rst "Body parts", for every resource cause class: on top of the parent's kwargs
    (all kept: resource, body, logger, patch, memo, ...), `spec`, `meta`, `status` "are live-views into body['spec'],
    body['metadata'], body['status']"; `labels`, `annotations` "are equivalents of body['metadata']['labels'] / ['annotations']
    when they exist. If they do not, these two behave as empty dicts"; `namespace`, `name`, `uid` "are aliases for the
    respective fields in body['metadata']. If the values are not present ... None" -- all of THE cause's body, none
    swapped (body_parts_of_the_body_at_hand); the five views keep showing the body after its source is replaced, as the
    daemons' body is on every event (views_are_live).
    """
    from kopf._cogs.structs import bodies
    clsname = RESOURCE_CAUSES[vc.nondet(len(RESOURCE_CAUSES), 'class of the cause')]
    raw = draw_shaped_raw(vc)
    cause = make_cause(vc, clsname, body=bodies.Body(raw))
    sup, parent = parent_stub(_kwargs=record_kwargs(cause, without=('indices',)))
    vc.used('causes.BaseCause._kwargs', 'KC3')
    kw = call_total(vc, 'total', vc.load(CAUSES, 'ResourceCause._kwargs', stubs={'super': sup}).fn, cause)
    vc.ensure('parent_kwargs_kept', isinstance(kw, dict) and kept(kw, parent['_kwargs']))
    vc.ensure('body_parts_of_the_body_at_hand', parts_bound(kw, raw))
    vc.canary('canary.always_namespaced', kw.get('namespace') is not None)
    raw2 = full_raw(vc, '!later')
    cause.body._replace_with(raw2)
    later = dict(kw, **{n: (_field(raw2, p)[1]) for n, p in FIELD_PARTS.items()})   # (uid/name/namespace are plain values)
    vc.ensure('views_are_live', parts_bound(later, raw2))
    return (clsname, sorted(kw))


@harness('KC5', targets=[f'{CAUSES}.WebhookCause._kwargs', f'{CAUSES}.SpawningCause._kwargs', f'{CAUSES}.ChangingCause._kwargs',
                         f'{CAUSES}.DaemonCause._kwargs'], props=['C18', 'C09', 'C05', 'C15', 'C04', 'C10', 'C14'],
         clauses=['total', 'parent_kwargs_kept', 'webhook_type_not_passed_as_reason'], canaries=['canary.nothing_hidden'])
def KC5(vc):
    """
    The builders of the four specialised causes only take the framework's own bookkeeping records away (webhook id and
    type, `reset`, `initial`, `stopper`): EVERYTHING else the parent offers -- the documented kwargs: resource, body and
    its parts, logger, patch, memo, reason/old/new/diff, dryrun/warnings/subresource/userinfo/headers/sslpeer -- stays,
    bound to the same objects (parent_kwargs_kept); and an admission handler does not get the webhook type under the
    name `reason`, which docs/kwargs.rst defines as "the type of change detected (creation, update, deletion, resuming)"
    (webhook_type_not_passed_as_reason).
    """
    clsname = tuple(INTERNAL)[vc.nondet(len(INTERNAL), 'class of the cause')]
    cause = make_cause(vc, clsname)
    below = dict(record_kwargs(cause, without=('indices',)), **{n: Opaque(f'part:{n}') for n in tuple(VIEW_PARTS) + tuple(FIELD_PARTS)})
    sup, parent = parent_stub(_kwargs=below)
    vc.used('causes.ResourceCause._kwargs', 'KC4')
    kw = call_total(vc, 'total', vc.load(CAUSES, f'{clsname}._kwargs', stubs={'super': sup}).fn, cause)
    vc.ensure('parent_kwargs_kept', isinstance(kw, dict) and kept(kw, parent['_kwargs'], except_=INTERNAL[clsname]))
    if clsname == 'WebhookCause':
        vc.ensure('webhook_type_not_passed_as_reason', 'reason' not in kw)
    vc.canary('canary.nothing_hidden', len(kw) == len(parent['_kwargs']))
    return (clsname, sorted(kw))


@harness('KC6', targets=[f'{CAUSES}.DaemonCause._sync_kwargs', f'{CAUSES}.DaemonCause._async_kwargs'], props=['C09', 'C15', 'C06', 'C13'],
         clauses=['total', 'parent_kwargs_kept', 'stopped_is_the_waiter_of_its_kind'], canaries=['canary.sync_gets_the_async_waiter'])
def KC6(vc):
    """
    DaemonCause._sync_kwargs/_async_kwargs (docs/kwargs.rst "Stop-flag", docs/daemons.rst): a daemon gets, on top of all
    other kwargs, `stopped` -- for a SYNC daemon (run in a thread: `while not stopped: stopped.wait(10)`) the stopper's
    synchronous waiter, for an ASYNC one (`await stopped.wait(10)`) its asynchronous waiter; of THIS daemon's stopper.
    """
    flavour = ('sync', 'async')[vc.nondet(2, 'sync / async')]
    cause = make_cause(vc, 'DaemonCause')
    below = {'body': cause.body, 'patch': cause.patch, 'logger': cause.logger, 'memo': cause.memo, 'spec': Opaque('part:spec')}
    other = {'stopped': Opaque('wrong: the other flavour'), 'other': Opaque('other')}
    sup, parent = parent_stub(**{f'_{flavour}_kwargs': below, f'_{"async" if flavour == "sync" else "sync"}_kwargs': other, '_kwargs': below})
    vc.used('invocation.Kwargable._sync_kwargs/_async_kwargs', 'KC7')
    kw = call_total(vc, 'total', vc.load(CAUSES, f'DaemonCause._{flavour}_kwargs', stubs={'super': sup}).fn, cause)
    vc.ensure('parent_kwargs_kept', isinstance(kw, dict) and kept(kw, parent[f'_{flavour}_kwargs']))
    vc.ensure('stopped_is_the_waiter_of_its_kind', kw.get('stopped') is getattr(cause.stopper, f'{flavour}_waiter'))
    vc.canary('canary.sync_gets_the_async_waiter', kw.get('stopped') is cause.stopper.async_waiter)
    return (flavour, sorted(kw))


FLAVOURS = {'kwargs': '_kwargs', 'sync_kwargs': '_sync_kwargs', 'async_kwargs': '_async_kwargs'}


@harness('KC7', targets=[f'{INVOCATION}.Kwargable.{n}' for n in ('_kwargs', '_sync_kwargs', '_async_kwargs', '_super_kwargs',
                                                                  'kwargs', 'sync_kwargs', 'async_kwargs')],
         props=['C15', 'C09', 'C11', 'C17', 'C18', 'C04', 'C08', 'C10'],
         clauses=['total', 'own_kwargs_of_the_asked_flavour', 'indices_win', 'defaults'], canaries=['canary.no_clash'])
def KC7(vc):
    """
    invocation.Kwargable -- what invoke() (X6) and the filter callbacks take from a cause:
      own_kwargs_of_the_asked_flavour   .kwargs / .sync_kwargs / .async_kwargs carry every entry of the cause's
                         _kwargs / _sync_kwargs / _async_kwargs respectively (a sync function gets the sync set, an async
                         one the async set -- `stopped` of daemons differs) plus every entry of _super_kwargs (the indices);
      indices_win        where both have a name, the index wins ("Indices overwrite any other kwargs, even the existing
                         ones ... for forwards & backwards compatibility", BaseCause; docs/kwargs.rst: "Each index is
                         exposed in kwargs under its name");  nothing else is in the result;
      defaults           a plain Kwargable has no kwargs and no indices, and its sync/async sets are its _kwargs.
    """
    which = vc.nondet(2, 'the merging properties / the defaults')
    if which == 1:
        name = ('_kwargs', '_super_kwargs', '_sync_kwargs', '_async_kwargs')[vc.nondet(4, 'which default')]
        own = {'a': Opaque('a')}
        me = Opaque('kwargable', _kwargs=own, _sync_kwargs={'wrong': 1}, _async_kwargs={'wrong': 2}, _super_kwargs={'wrong': 3})
        got = call_total(vc, 'total', vc.load(INVOCATION, f'Kwargable.{name}').fn, me)
        vc.ensure('defaults', got == {} if name in ('_kwargs', '_super_kwargs') else (got == own and got['a'] is own['a']))
        return ('default', name)
    flavour = tuple(FLAVOURS)[vc.nondet(3, 'kwargs / sync_kwargs / async_kwargs')]
    clash = vc.nondet(2, 'an index named like a kwarg: no / yes') == 1
    sets = {attr: {'body': Opaque(f'{attr}:body'), 'stopped': Opaque(f'{attr}:stopped'), attr: Opaque(f'only in {attr}')}
            for attr in FLAVOURS.values()}
    idx = {'by_label': Opaque('index:by_label')}
    if clash:
        idx['body'] = Opaque('index:body')
    if vc.nondet(2, 'indices: some / none') == 1:
        idx = {}
    me = Opaque('kwargable', _super_kwargs=idx, **sets)
    got = call_total(vc, 'total', vc.load(INVOCATION, f'Kwargable.{flavour}').fn, me)
    own = sets[FLAVOURS[flavour]]
    vc.ensure('own_kwargs_of_the_asked_flavour', isinstance(got, dict) and all(k in got and (got[k] is v or k in idx) for k, v in own.items())
              and set(got) == set(own) | set(idx))
    vc.ensure('indices_win', all(k in got and got[k] is v for k, v in idx.items()))
    vc.canary('canary.no_clash', all(got.get(k) is v for k, v in own.items()))
    return (flavour, clash, sorted(got))


CONCRETE_CAUSES = ('ActivityCause', 'IndexingCause', 'WatchingCause', 'SpawningCause', 'ChangingCause', 'DaemonCause', 'WebhookCause')


@harness('KC8', targets=[f'{INVOCATION}.Kwargable.{n}' for n in FLAVOURS], props=['C15', 'C05', 'C09', 'C18', 'C17', 'C11', 'C04', 'C08', 'C10'],
         clauses=['total', 'documented_kwargs', 'body_parts_of_the_body_at_hand', 'each_index_under_its_name_and_wins',
                  'stopped_for_daemons', 'not_for_this_kind'],
         canaries=['canary.framework_kwarg_never_shadowed', 'canary.never_stopped'],
         trusted=['the _kwargs/_sync_kwargs/_async_kwargs/_super_kwargs builders of causes.py and execution.py run as real code, '
                  'through the real class hierarchy (their own contracts: KC3-KC6)', 'bodies.Body views: KC9'],
         assumes=['bodies of the four SHAPES (see KC4); 0-3 declared indices, some named like framework kwargs'])
def KC8(vc):
    """
    INTEGRATION of KC3-KC7 through the REAL class hierarchy (the modular contracts take each `super()` by contract; here
    the real method resolution is exercised): for a real instance of every concrete cause class, what a callback gets --
    .kwargs (filters, lifecycles, delays), .sync_kwargs / .async_kwargs (handlers; invoke, X6) -- against docs/kwargs.rst:
      documented_kwargs   the names documented for this kind of handler (activity: settings, logger, memo; every
                          resource handler: resource, body, logger, patch, memo; watching: + event, type; changing:
                          + reason, old, new, diff; admission: + dryrun, warnings (the very list: it is mutable), subresource,
                          userinfo, headers, sslpeer) are there, each bound to that record of the cause;
      body_parts_of_the_body_at_hand   spec, meta, status, labels, annotations, uid, name, namespace as in KC4;
      each_index_under_its_name_and_wins   every declared index under its name, also over a framework kwarg of that name;
      stopped_for_daemons sync flavour: the stopper's sync waiter, async flavour: its async waiter;
      not_for_this_kind   no `indices` kwarg; `settings` only for activities ("passed to activity handlers (but not to
                          resource handlers)"); no webhook type under the name `reason`; no `stopped` for non-daemons.
    """
    from kopf._cogs.structs import bodies
    clsname = CONCRETE_CAUSES[vc.nondet(len(CONCRETE_CAUSES), 'class of the cause')]
    flavour = tuple(FLAVOURS)[vc.nondet(3, 'kwargs / sync_kwargs / async_kwargs')]
    indices = draw_indices(vc)
    raw = draw_shaped_raw(vc) if clsname != 'ActivityCause' else None
    cause = make_cause(vc, clsname, body=None if raw is None else bodies.Body(raw), indices=indices)
    kw = call_total(vc, 'total', vc.load(INVOCATION, f'Kwargable.{flavour}').fn, cause)
    vc.ensure('total', isinstance(kw, dict))
    mine = {n: v for n, v in kw.items() if n not in indices}          # (what is not shadowed by an index)
    vc.ensure('each_index_under_its_name_and_wins', all(n in kw and kw[n] is indices[n] for n in indices))
    vc.ensure('documented_kwargs', all((n in mine and mine[n] is getattr(cause, n, _MISSING)) or n in indices for n in DOCUMENTED[clsname]))
    if raw is not None:
        # (a body part shadowed by a same-named index is the operator's own doing: the others are judged)
        vc.ensure('body_parts_of_the_body_at_hand', parts_bound(kw, raw, skip=tuple(indices)))
    if clsname == 'DaemonCause' and flavour != 'kwargs' and 'stopped' not in indices:
        vc.ensure('stopped_for_daemons', kw.get('stopped') is getattr(cause.stopper, flavour.replace('_kwargs', '_waiter')))
        vc.canary('canary.never_stopped', 'stopped' not in kw)
    else:
        vc.ensure('stopped_for_daemons', clsname == 'DaemonCause' or 'stopped' not in mine)
    vc.ensure('not_for_this_kind', 'indices' not in mine and ('settings' in mine) == (clsname == 'ActivityCause')
              and (clsname != 'WebhookCause' or 'reason' not in mine))
    if 'body' in DOCUMENTED[clsname]:
        vc.canary('canary.framework_kwarg_never_shadowed', kw.get('body') is getattr(cause, 'body', _MISSING))
    return (clsname, flavour, sorted(kw))


# =============================================================================================== invocation.is_async_fn
def _returns_awaitable(fn):
    """ORACLE, independent of `inspect`: what invoke() needs to know -- does calling fn give something to await?
    (the sample functions take no required arguments and have no effects; a coroutine is closed unstarted)"""
    import inspect
    r = fn()
    aw = inspect.isawaitable(r)
    if hasattr(r, 'close'):
        r.close()
    return aw


class _Sample:
    def sync_method(self, **_): return 1
    async def async_method(self, **_): return 1


def _plain_functions():
    def sync_fn(**_): return 1
    async def async_fn(**_): return 1
    return {'def': sync_fn, 'async def': async_fn, 'lambda': (lambda **_: 1), 'bound method': _Sample().sync_method,
            'bound async method': _Sample().async_method, 'builtin': dict}


def _wrap(kind, inner):
    """one layer over `inner`: a partial; a decorated (functools.wraps) sync wrapper, which passes the result through;
    a decorated `async def` wrapper that awaits the wrapped coroutine function ('awaiter'); a decorated universal
    `async def` wrapper that works for both kinds of wrapped functions (awaits the result if there is something to await)"""
    import functools
    import inspect
    if kind == 'partial':
        return functools.partial(inner, extra=1)
    if kind == 'wrapper':
        @functools.wraps(inner)
        def wrapper(*a, **kw):
            return inner(*a, **kw)
        return wrapper
    if kind == 'awaiter':
        @functools.wraps(inner)
        async def awaiter(*a, **kw):
            return await inner(*a, **kw)
        return awaiter

    @functools.wraps(inner)
    async def async_wrapper(*a, **kw):
        r = inner(*a, **kw)
        return (await r) if inspect.isawaitable(r) else r
    return async_wrapper


LAYERS = ('partial', 'wrapper', 'async wrapper', 'awaiter')


@harness('KC10', targets=f'{INVOCATION}.is_async_fn', props=['C11', 'C09', 'C20', 'C02', 'C10', 'C17', 'C18'],
         clauses=['total', 'none_is_not_async', 'plain_functions', 'partials_and_wrappers_are_transparent', 'awaitable_iff_async'],
         canaries=['canary.everything_is_sync', 'canary.never_recurses'],
         assumes=['handlers are functions, lambdas, bound methods, classes/builtins, or functools.partial objects / decorated '
                  '(functools.wraps) sync or async wrappers of such ("Both sync & async functions are supported, so as their '
                  'partials. Also, decorated wrappers and lambdas are recognized"); a sync function does not return an awaitable',
                  'scenario "chains": wrapper chains of depth <= 3 over 6 kinds of plain functions (the recursion runs for real)'],
         trusted=['inspect.iscoroutinefunction (stdlib) on plain functions -- checked here against actually calling them'])
def KC10(vc):
    """
    invocation.is_async_fn decides "await fn(**kwargs) in the loop" vs "run fn in the executor's thread" (invoke, X6):
      none_is_not_async   None (no function) is not async;
      plain_functions     a function / lambda / bound method / class is async iff calling it yields an awaitable;
      partials_and_wrappers_are_transparent   (induction step, the recursive call taken by contract -- any depth) a
                          functools.partial is what its .func is, a decorated SYNC wrapper (__wrapped__) is what the wrapped
                          function is: the recursion asks about exactly that object, once, and passes the answer on; a
                          decorated `async def` wrapper is async whatever it wraps (calling it gives a coroutine);
      awaitable_iff_async (the recursion for real, chains of depth <= 3) is_async_fn(fn) <=> fn(...) returns an awaitable.
    Precondition (stated, not checked): a decorator keeps the kind of the function.  An `async def` wrapper decorated with
    functools.wraps over a SYNC function is classified as sync (__wrapped__ is followed before the wrapper itself is looked at):
    invoke() then runs it in a thread and nobody awaits the coroutine.  That is a defect of kopf, but none of the 20 properties
    constrains which functions count as async, so it is a side observation (DESIGN.md section 7,
    findings/side-observation-async-wrapper-of-sync-fn.py), not a finding of a property.
    """
    import functools
    ld = vc.load(INVOCATION, 'is_async_fn')
    scenario = vc.nondet(3, 'None & plain functions / one layer by contract / chains for real')
    plain = _plain_functions()
    if scenario == 0:
        kind = (None,) + tuple(plain)
        kind = kind[vc.nondet(len(kind), 'the function')]
        fn = None if kind is None else plain[kind]
        got = call_total(vc, 'total', ld.fn, fn)
        if fn is None:
            vc.ensure('none_is_not_async', got is False)
        else:
            vc.ensure('plain_functions', got is _returns_awaitable(fn))
        vc.canary('canary.everything_is_sync', got is False)
        return ('plain', kind, got)
    if scenario == 1:
        layer = LAYERS[vc.nondet(len(LAYERS), 'the outer layer')]
        inner_kind = tuple(plain)[vc.nondet(len(plain), 'the inner function')]
        inner = plain[inner_kind]
        if vc.nondet(2, 'the inner function is itself: plain / a partial') == 1 and layer != 'partial':
            inner = functools.partial(inner)        # (functools.partial flattens partial-of-partial by itself)
        answer = vc.bool('is_async_fn(inner), by contract')
        if layer == 'awaiter':
            vc.assume(answer, 'an awaiter awaits what it wraps: a coroutine function')
        asked = []

        def recursive_call(x):
            asked.append(x)
            return answer
        ld.ns['is_async_fn'] = recursive_call           # the recursive call, by contract (induction hypothesis)
        vc.used('invocation.is_async_fn (recursive call)', 'KC10')
        fn = _wrap(layer, inner)
        got = call_total(vc, 'total', ld.fn, fn)
        if layer in ('partial', 'wrapper'):
            vc.ensure('partials_and_wrappers_are_transparent', len(asked) == 1 and asked[0] is inner)
            vc.ensure('partials_and_wrappers_are_transparent', Iff(got, answer))
        else:
            if layer == 'async wrapper':
                vc.assume(answer, 'precondition: a decorator keeps the kind of the function (an `async def` wrapper wraps a coroutine function)')
            vc.ensure('partials_and_wrappers_are_transparent', Iff(got, True))
        vc.canary('canary.never_recurses', not asked)
        vc.canary('canary.everything_is_sync', Not(got))
        return ('layer', layer, inner_kind, got)
    base_kind = tuple(plain)[vc.nondet(len(plain), 'the innermost function')]
    fn = plain[base_kind]
    is_async = _returns_awaitable(fn)
    depth = vc.nondet(4, 'depth of the chain: 0..3')
    chain = []
    for i in range(depth):
        # precondition: a decorator keeps the kind of the function -- an awaiter / an `async def` wrapper only over a
        # coroutine function (see the docstring for what happens otherwise: outside the 20 properties)
        options = LAYERS if is_async else [l for l in LAYERS[:3] if l != 'async wrapper']
        layer = options[vc.nondet(len(options), f'layer {i + 1}')]
        chain.append(layer)
        is_async = is_async or layer == 'async wrapper'
        fn = _wrap(layer, fn)
    got = call_total(vc, 'total', ld.fn, fn)
    vc.ensure('awaitable_iff_async', got is is_async and got is _returns_awaitable(fn))
    vc.canary('canary.everything_is_sync', got is False)
    return ('chain', base_kind, tuple(chain), got)


# =============================================================================================== invocation.context
class _Boom(Exception):
    pass


@harness('KC14', targets=f'{INVOCATION}.context', props=['C11', 'C02', 'C09'],
         clauses=['set_in_order_before_the_body', 'restored_in_reverse_after_the_body', 'errors_pass_through', 'real_contextvars_restored'],
         canaries=['canary.body_always_runs', 'canary.nothing_to_restore'],
         trusted=['contextlib.contextmanager (kept on the extracted generator)', 'contextvars.ContextVar.set/reset: reset(token) '
                  'restores the value the variable had before the set() that made the token'],
         assumes=['0-3 (variable, value) pairs, given as a list or as a one-shot iterator (the loops run natively)'])
def KC14(vc):
    """
    invocation.context(values) -- how the handler, its cause, the sub-handler registry/lifecycle/settings travel to
    @kopf.subhandler / kopf.execute / kopf.adopt while a handler runs (execution.invoke_handler, subhandling_context):
      set_in_order_before_the_body   every variable is set to ITS value, in the given order, before the body runs;
      restored_in_reverse_after_the_body   when the body is left -- normally or by ANY exception (handler errors,
                          cancellation) -- every variable that was set is reset, with its own token, in reverse order, so
                          the values of an enclosing handler (sub-handlers nest) come back; also when setting itself fails
                          half-way: the ones already set are restored and the body is not run;
      errors_pass_through the body's (or the failing set's) exception propagates unchanged, nothing is swallowed;
      real_contextvars_restored   with real ContextVars: inside, the new values; after, the outer ones (or unset again).
    """
    import asyncio
    import contextvars
    ld = vc.load(INVOCATION, 'context')
    if vc.nondet(2, 'recorded stub variables / real ContextVars') == 1:
        a, b = contextvars.ContextVar('a'), contextvars.ContextVar('b')
        a.set('outer-a')
        seen = []
        body_error = [None, _Boom('body')][vc.nondet(2, 'the body: returns / raises')]
        try:
            with ld.fn([(a, 'inner-a'), (b, 'inner-b')]):
                seen.append((a.get(), b.get('unset')))
                with ld.fn(iter([(a, 'innermost-a')])):
                    seen.append((a.get(), b.get('unset')))
                seen.append((a.get(), b.get('unset')))
                if body_error is not None:
                    raise body_error
        except _Boom as e:
            vc.ensure('errors_pass_through', e is body_error)
        vc.ensure('real_contextvars_restored', seen == [('inner-a', 'inner-b'), ('innermost-a', 'inner-b'), ('inner-a', 'inner-b')]
                  and a.get() == 'outer-a' and b.get('unset') == 'unset')
        return ('real', body_error is not None)

    n = vc.nondet(4, 'number of variables: 0..3')
    failing = vc.nondet(n + 1, 'which set() fails: none / the i-th')      # 0 = none
    errors = [None, _Boom('body'), asyncio.CancelledError(), KeyboardInterrupt()]
    body_error = errors[vc.nondet(len(errors), 'the body: returns / raises an error / is cancelled / BaseException')]
    set_error = _Boom('set')

    class Var:
        def __init__(self, i): self.i = i
        def set(self, val):
            if failing == self.i + 1:
                raise set_error
            vc.emit('set', self.i, val)
            return ('token', self.i)
        def reset(self, token):
            vc.emit('reset', self.i, token)
    vars_ = [Var(i) for i in range(n)]
    vals = [Opaque(f'value{i}') for i in range(n)]
    pairs = list(zip(vars_, vals))
    values = pairs if vc.nondet(2, 'a list / a one-shot iterator') == 0 else iter(pairs)
    raised = None
    try:
        with ld.fn(values):
            vc.emit('body')
            if body_error is not None:
                raise body_error
    except BaseException as e:
        if isinstance(e, (PathEnd, Unsupported)):
            raise
        raised = e
    tr = list(vc.trace)
    k = n if failing == 0 else failing - 1                    # how many were set
    want_sets = [('set', i, vals[i]) for i in range(k)]
    want_resets = [('reset', i, ('token', i)) for i in reversed(range(k))]
    body = [('body',)] if failing == 0 else []
    vc.ensure('set_in_order_before_the_body', tr[:k + len(body)] == want_sets + body)
    vc.ensure('restored_in_reverse_after_the_body', tr[k + len(body):] == want_resets)
    vc.ensure('errors_pass_through', raised is (set_error if failing else body_error))
    vc.canary('canary.body_always_runs', ('body',) in tr)
    vc.canary('canary.nothing_to_restore', not any(ev[0] == 'reset' for ev in tr))
    return ('stub', n, failing, type(raised).__name__)
