"""Contracts (work in progress, builder w3-causes) for the kwargs every callback receives:
kopf._core.intents.causes (detect_watching/spawning_cause, ChangingCause.deleted, the *_kwargs builders),
kopf._core.actions.invocation (Kwargable, context, is_async_fn), kopf._cogs.structs.bodies (the views, the two
reference builders) and queueing.get_version.   Harness ids: KC1..KC14."""
import z3

from pyvc import *
from pyvc.stubs import Opaque, NullLogger
from pyvc.values import J, to_json_term


# =============================================================================================== JSON helpers
def _sel(t, *path):
    """the J term at `path` below the J term `t` (JAbsent when a parent is not an object: fields() of a non-object is
    unconstrained, so callers guard with is_JObj where it matters)"""
    for k in path:
        t = z3.Select(J.fields(t), z3.StringVal(k) if isinstance(k, str) else k.term)
    return t


FIELD_NAMES = ('metadata', 'spec', 'status', 'labels', 'annotations', 'uid', 'name', 'namespace', 'creationTimestamp',
               'deletionTimestamp', 'apiVersion', 'kind', 'resourceVersion', 'object', 'type')


def _concretize(x, keys=()):
    """Concrete JSON from a solver model: <absent> markers are dropped; a model object whose *default* is a value
    ('every other key' -> v, an artefact of the array encoding) is materialised at the keys the harness can look at
    (the well-known field names and the drawn symbolic keys), so that the replay sees what the model says."""
    from pyvc.values import Absent
    if isinstance(x, dict):
        out = {k: _concretize(v, keys) for k, v in x.items() if not isinstance(v, Absent) and k != '<every-other-key>'}
        if '<every-other-key>' in x:
            for k in tuple(FIELD_NAMES) + tuple(keys):
                if k not in x:
                    out[k] = _concretize(x['<every-other-key>'], keys)
        return out
    if isinstance(x, list):
        # (a list element cannot be "absent": the encoding's marker inside a list stands for an unknown element -> null)
        return [None if isinstance(v, Absent) else _concretize(v, keys) for v in x]
    return x


STANZAS = (('metadata',), ('spec',), ('status',), ('metadata', 'labels'), ('metadata', 'annotations'))


def draw_raw(vc, name='raw', keys=()):
    """
    A raw object body as the API delivers it: an arbitrary JSON object whose `metadata`, `spec`, `status`,
    `metadata.labels`, `metadata.annotations` are JSON objects when present (Kubernetes guarantees much more);
    every field, including `metadata` itself, may be absent; leaves are arbitrary JSON (incl. null, '' and {}).
    """
    raw = vc.json(name)
    if vc.concrete:
        raw = _concretize(raw, keys)
        if not isinstance(raw, dict):
            raw = {}
        return raw
    t = raw.term
    vc.assume(J.is_JObj(t), f'{name} is an object')
    md = _sel(t, 'metadata')
    vc.assume(z3.Or(J.is_JAbsent(md), J.is_JObj(md)), 'metadata is an object if present')
    for p in STANZAS[1:]:
        parent_ok = J.is_JObj(md) if len(p) == 2 else z3.BoolVal(True)
        x = _sel(t, *p)
        vc.assume(z3.Implies(parent_ok, z3.Or(J.is_JAbsent(x), J.is_JObj(x))), f'{".".join(p)} is an object if present')
    return raw


def jget(raw, *path):
    """SPEC: the value at `path` of a raw body as Python sees it: ('absent',) | ('value', v) -- as a pair
    (is_present: bool/SBool, value: the SJson view / concrete value); null is a present value None."""
    if isinstance(raw, SJson):
        t = raw.term
        present = z3.BoolVal(True)
        for k in path:
            present = z3.And(present, J.is_JObj(t))
            t = _sel(t, k)
        present = z3.And(present, z3.Not(J.is_JAbsent(t)))
        return SBool(present), t
    cur = raw
    for k in path:
        if not isinstance(cur, dict) or k not in cur:
            return False, None
        cur = cur[k]
    return True, cur


def _unchanged(raw, before):
    return SBool(raw.term == before) if isinstance(raw, SJson) else repr(raw) == before


def _snapshot(raw):
    return raw.term if isinstance(raw, SJson) else repr(raw)


def same_field(got, raw, *path):
    """SPEC: `got` is what `raw.get(...)...get(last)` denotes: the value at path, or None when absent (null is None too)."""
    present, v = jget(raw, *path)
    if isinstance(raw, SJson):
        want = z3.If(present.term, v, J.JNull)
        return SBool(to_json_term(got) == want)
    return got == (v if present else None)


# =============================================================================================== bodies: the views
BODIES = 'kopf._cogs.structs.bodies'


def make_view(vc, cls_name, *args):
    """Construct a bodies.<cls_name> through its EXTRACTED __init__ (super().__init__ is MappingView.__init__, inlined;
    the nested Meta/Spec/Status of a Body are constructed through their extracted __init__ too)."""
    from kopf._cogs.structs import bodies, dicts
    me = object.__new__(getattr(bodies, cls_name))
    stubs = {'super': lambda: Opaque('super()', __init__=lambda *a: dicts.MappingView.__init__(me, *a))}
    if cls_name == 'Body':
        for sub in ('Meta', 'Spec', 'Status'):
            stubs[sub] = (lambda sub: lambda src: make_view(vc, sub, src))(sub)
    vc.load(BODIES, f'{cls_name}.__init__', stubs=stubs).fn(me, *args)
    return me


def prop(vc, obj, qualname):
    return vc.load(BODIES, qualname).fn(obj)


_MISSING = Opaque('default')


def view_shows(view, raw, path, k):
    """SPEC (docs/kwargs.rst): the view is equivalent to raw[path...] when that exists, and behaves as an empty dict
    when it does not -- observed through .get(k, default) for an arbitrary key k."""
    got = view.get(k, _MISSING)
    present, v = jget(raw, *path, k)
    if isinstance(raw, SJson):
        if got is _MISSING:
            return Not(present)
        return And(present, SBool(to_json_term(got) == v))
    return (got is _MISSING and not present) or (present and got == v)


@harness('KC9', targets=[f'{BODIES}.{n}' for n in (
            'Body.__init__', 'Body.metadata', 'Body.meta', 'Body.spec', 'Body.status', 'Meta.__init__', 'Meta.labels',
            'Meta.annotations', 'Meta.uid', 'Meta.name', 'Meta.namespace', 'Meta.creation_timestamp',
            'Meta.deletion_timestamp', 'Spec.__init__', 'Status.__init__')],
         props=['C15', 'C05', 'C09'],
         clauses=['stanza_views', 'identity_fields', 'live'], canaries=['canary.uid_always_present'],
         trusted=['dicts.MappingView/ReplaceableMappingView/resolve run as real code (inlined): a view (src, path) reads src[path...] on every access'])
def KC9(vc):
    """
    The body views a callback receives (docs/kwargs.rst "Body parts"), for an ARBITRARY raw JSON object:
      stanza_views     body.spec / body.status / body.metadata (== body.meta) / .metadata.labels / .metadata.annotations
                       are equivalent to raw['spec'] ... raw['metadata']['annotations'] when those exist and behave as
                       empty dicts when they do not (for an arbitrary key: .get(key, default));
      identity_fields  metadata.uid / name / namespace / creation_timestamp / deletion_timestamp are the respective
                       fields of raw['metadata'], or None when not present (no KeyError);
      live             the views are LIVE: after the body's source is replaced (Body._replace_with, as the daemons' fresh
                       body is, processing.py), the same view objects show the new object -- a callback sees the body at hand.
    """
    k = vc.str('key')
    raw = draw_raw(vc, 'raw', keys=[k])
    raw2 = draw_raw(vc, 'raw2', keys=[k])
    body = make_view(vc, 'Body', raw)
    meta = prop(vc, body, 'Body.metadata')
    views = {('metadata',): meta, ('spec',): prop(vc, body, 'Body.spec'), ('status',): prop(vc, body, 'Body.status'),
             ('metadata', 'labels'): prop(vc, meta, 'Meta.labels'), ('metadata', 'annotations'): prop(vc, meta, 'Meta.annotations')}
    alias = prop(vc, body, 'Body.meta')
    FIELDS = (('Meta.uid', 'uid'), ('Meta.name', 'name'), ('Meta.namespace', 'namespace'),
              ('Meta.creation_timestamp', 'creationTimestamp'), ('Meta.deletion_timestamp', 'deletionTimestamp'))
    which = vc.nondet(len(STANZAS) + 1 + len(FIELDS), 'observation')
    phase = vc.nondet(2, 'before / after the source is replaced')
    clause = 'stanza_views' if which <= len(STANZAS) else 'identity_fields'
    if phase == 1:
        body._replace_with(raw2)
        raw, clause = raw2, 'live'
    if which < len(STANZAS):
        p = STANZAS[which]
        vc.ensure(clause, view_shows(views[p], raw, p, k))
        out = ('stanza', p)
    elif which == len(STANZAS):
        vc.ensure(clause, view_shows(alias, raw, ('metadata',), k))
        out = ('alias',)
    else:
        qual, fld = FIELDS[which - len(STANZAS) - 1]
        got = prop(vc, meta, qual)
        vc.ensure(clause, same_field(got, raw, 'metadata', fld))
        if fld == 'uid':
            vc.canary('canary.uid_always_present', got is not None)
        out = ('field', fld)
    return out + (phase,)


# =============================================================================================== bodies: references
REF_SOURCES = {'apiVersion': ('apiVersion',), 'kind': ('kind',), 'name': ('metadata', 'name'), 'uid': ('metadata', 'uid'),
               'namespace': ('metadata', 'namespace')}
OTHERS = ('absent', 'null', 'empty string', 'non-empty string')
REF_DOMAIN = ('the body is a JSON object {apiVersion?, kind?, spec?, metadata?: {name?, uid?, namespace?, labels?}} in which ONE of '
              'the identifying fields (every one in turn) is absent or ARBITRARY JSON -- null, empty/non-empty string, any '
              'other kind -- while the others are, all alike, absent / null / "" / arbitrary non-empty strings (the '
              'fields are read independently; the full product of field states is beyond the quick budget); metadata '
              'itself absent or an object; given as a bodies.Body view or as the plain dict')


def _json_value(vc, name):
    """an arbitrary PRESENT JSON value as Python sees it: None for null, else the (symbolic) value"""
    v = vc.json(name)
    if isinstance(v, SJson):
        vc.assume(Not(v.is_absent()), 'a present value')
        if v.is_null():
            return None
        return v
    return _concretize(v)


def draw_ref_body(vc, names):
    """The body domain REF_DOMAIN over the identifying fields `names`; returns (raw dict, focus name)."""
    focus = names[vc.nondet(len(names), 'the field that is arbitrary JSON')]
    others = OTHERS[vc.nondet(len(OTHERS), 'the other fields are all: absent / null / empty / non-empty strings')]
    raw, md = {'spec': {'field': 'value'}}, {'labels': {}}
    for name in names:
        path = REF_SOURCES[name]
        tgt = raw if len(path) == 1 else md
        if name == focus:
            if vc.nondet(2, f'{name}: absent / present') == 1:
                tgt[path[-1]] = _json_value(vc, name)
        elif others == 'null':
            tgt[path[-1]] = None
        elif others == 'empty string':
            tgt[path[-1]] = ''
        elif others == 'non-empty string':
            tgt[path[-1]] = x = vc.str(name)
            vc.assume(x != '', 'non-empty')
    if vc.nondet(2, 'metadata: an object / absent') == 0:
        raw['metadata'] = md
    return raw, focus


def _field(raw, path):
    """SPEC: (present, value) of the field at `path` of a concrete-structured body"""
    cur = raw
    for k in path:
        if not isinstance(cur, dict) or k not in cur:
            return False, None
        cur = cur[k]
    return True, cur


def _truthy(v):
    return v.truth() if isinstance(v, SV) else bool(v)


def _frozen(raw):
    return {k: (_frozen(v) if isinstance(v, dict) else v) for k, v in raw.items()}


def _same_doc(a, b):
    return a.keys() == b.keys() and all(_same_doc(a[k], b[k]) if isinstance(b[k], dict) else a[k] is b[k] for k in b)


def call_total(vc, clause, fn, *a, **kw):
    """Run the target; an exception (other than the engine's own) refutes `clause` ("never raises") and ends the path."""
    try:
        r = fn(*a, **kw)
    except Exception as e:
        if isinstance(e, Unsupported):
            raise
        vc.ensure(clause, False, note=f'raised {type(e).__name__}: {e}')
        raise PathEnd(f'the target raised {type(e).__name__}')
    vc.ensure(clause, True)
    return r


def check_ref_fields(vc, ref, raw, names):
    """SPEC shared by the two reference builders: a key, when there, carries the body's field (the very value, never
    null); a field with a non-empty value is there; an absent or null field is omitted.  (Whether a present-but-EMPTY
    value such as '' is sent or omitted is not documented: either is accepted.)"""
    for key in names:
        present, v = _field(raw, REF_SOURCES[key])
        vc.ensure('empty_fields_omitted', Implies(key in ref, And(present, v is not None)))
        vc.ensure('fields_from_the_body', Implies(And(present, _truthy(v)), key in ref))
        if key in ref:
            vc.ensure('fields_from_the_body', present and ref[key] is v)


def _as_body(vc, raw):
    """the two kinds of objects the call sites pass: a bodies.Body view (the `body` kwarg) or the plain dict itself"""
    from kopf._cogs.structs import bodies
    return raw if vc.nondet(2, 'a Body view / the raw dict') == 1 else bodies.Body(raw)


@harness('KC11', targets=f'{BODIES}.build_object_reference', props=['C12', 'C20', 'C15'],
         clauses=['total', 'fields_from_the_body', 'empty_fields_omitted', 'nothing_else', 'pure'], canaries=['canary.namespace_always_there'],
         assumes=[REF_DOMAIN], trusted=['bodies.Body/dicts.MappingView run as real code (inlined; contract KC9)'])
def KC11(vc):
    """
    build_object_reference(body) -- the involvedObject of the Kubernetes events the framework posts:
    apiVersion/kind are the body's, name/uid/namespace are its metadata's, whenever they have a (non-empty) value
    (fields_from_the_body); a field that is absent or null is omitted, not sent as null ("some fields can be absent: e.g.
    namespace for cluster resources, apiVersion for kind: Node"; a body without metadata included) (empty_fields_omitted;
    whether an EMPTY value is sent or omitted is left open); there are no other keys
    (nothing_else); the body is not modified (pure); no exception for any such body (total).
    """
    raw, focus = draw_ref_body(vc, tuple(REF_SOURCES))
    before = _frozen(raw)
    body = _as_body(vc, raw)
    ref = call_total(vc, 'total', vc.load(BODIES, 'build_object_reference').fn, body)
    vc.ensure('total', isinstance(ref, dict))
    check_ref_fields(vc, ref, raw, tuple(REF_SOURCES))
    vc.ensure('nothing_else', set(ref) <= set(REF_SOURCES))
    vc.ensure('pure', _same_doc(raw, before))
    if focus == 'namespace':
        vc.canary('canary.namespace_always_there', 'namespace' in ref)
    return ('ref', sorted(ref))


OWNER_FIELDS = ('apiVersion', 'kind', 'name', 'uid')
_OMIT = Opaque('argument omitted')


@harness('KC12', targets=f'{BODIES}.build_owner_reference', props=['C15'],
         clauses=['total', 'controller_and_blocking_default_to_true', 'flags_as_given', 'fields_from_the_body', 'empty_fields_omitted',
                  'nothing_else', 'pure'],
         canaries=['canary.always_a_controller', 'canary.uid_always_there'],
         assumes=[REF_DOMAIN], trusted=['bodies.Body/dicts.MappingView run as real code (inlined; contract KC9)'])
def KC12(vc):
    """
    build_owner_reference(body, controller=, block_owner_deletion=) (docs/hierarchies.rst "Owner references": "The owner
    is a dict containing the fields apiVersion, kind, metadata.name, and metadata.uid (other fields are ignored)";
    "controller / block_owner_deletion: both of the above are True by default"):
      controller_and_blocking_default_to_true   without the keyword arguments the reference says controller: true,
                                                blockOwnerDeletion: true;
      flags_as_given     with them, it carries exactly the given booleans; None means "do not say" (key omitted, not null);
      fields_from_the_body / empty_fields_omitted   apiVersion, kind from the body, name, uid from its metadata; absent or
                         null fields are omitted (as for KC11);
      nothing_else       no other keys (an ownerReference has no namespace!);  pure: the owner is not modified;  total.
    """
    ld = vc.load(BODIES, 'build_owner_reference')
    if vc.nondet(2, 'scenario: the flags / the fields') == 0:
        raw = {'apiVersion': vc.str('apiVersion'), 'kind': vc.str('kind'), 'metadata': {'name': vc.str('name'), 'uid': vc.str('uid'),
                                                                                      'namespace': vc.str('namespace')}}
        args = {}
        for arg in ('controller', 'block_owner_deletion'):
            a = [_OMIT, None, True, False][vc.nondet(4, f'{arg}: omitted / None / True / False')]
            if a is not _OMIT:
                args[arg] = a
        ref = call_total(vc, 'total', ld.fn, _as_body(vc, raw), **args)
        for arg, key in (('controller', 'controller'), ('block_owner_deletion', 'blockOwnerDeletion')):
            if arg not in args:
                vc.ensure('controller_and_blocking_default_to_true', ref.get(key) is True)
            elif args[arg] is None:
                vc.ensure('flags_as_given', key not in ref)
            else:
                vc.ensure('flags_as_given', ref.get(key) is args[arg])
        vc.ensure('nothing_else', set(ref) <= set(OWNER_FIELDS) | {'controller', 'blockOwnerDeletion'})
        vc.canary('canary.always_a_controller', ref.get('controller') is True)
        return ('flags', sorted(ref))
    raw, focus = draw_ref_body(vc, OWNER_FIELDS)
    before = _frozen(raw)
    ref = call_total(vc, 'total', ld.fn, _as_body(vc, raw))
    vc.ensure('total', isinstance(ref, dict))
    vc.ensure('controller_and_blocking_default_to_true', ref.get('controller') is True and ref.get('blockOwnerDeletion') is True)
    check_ref_fields(vc, ref, raw, OWNER_FIELDS)
    vc.ensure('nothing_else', set(ref) <= set(OWNER_FIELDS) | {'controller', 'blockOwnerDeletion'})
    vc.ensure('pure', _same_doc(raw, before))
    if focus == 'uid':
        vc.canary('canary.uid_always_there', 'uid' in ref)
    return ('fields', sorted(ref))


# =============================================================================================== queueing.get_version
@harness('KC13', targets='kopf._core.reactor.queueing.get_version', props=['C07', 'C01'],
         clauses=['total', 'version_of_the_event', 'none_for_end_of_stream', 'pure'], canaries=['canary.always_versioned'])
def KC13(vc):
    """
    queueing.get_version(raw_event) -- what the worker compares with the resourceVersion returned by its own PATCH (C07):
    for a watch event (an arbitrary JSON object whose `object` and `object.metadata`, when present, are objects) it is
    exactly event['object']['metadata']['resourceVersion'], and None when that (or any parent) is absent or null -- never
    an exception, never some other field; for the end-of-stream marker it is None; the event is not modified.
    """
    from kopf._core.reactor import queueing
    ld = vc.load('kopf._core.reactor.queueing', 'get_version')
    if vc.nondet(2, 'an event / the end-of-stream marker') == 1:
        got = call_total(vc, 'total', ld.fn, queueing.EOS.token)
        vc.ensure('none_for_end_of_stream', got is None)
        return ('eos',)
    ev = vc.json('event')
    if isinstance(ev, SJson):
        obj = _sel(ev.term, 'object')
        md = _sel(obj, 'metadata')
        vc.assume(J.is_JObj(ev.term), 'the event is an object')
        vc.assume(z3.Or(J.is_JAbsent(obj), J.is_JObj(obj)), 'event.object is an object if present')
        vc.assume(z3.Implies(J.is_JObj(obj), z3.Or(J.is_JAbsent(md), J.is_JObj(md))), 'object.metadata is an object if present')
    else:
        ev = _concretize(ev)
    before = _snapshot(ev)
    got = call_total(vc, 'total', ld.fn, ev)
    vc.ensure('version_of_the_event', same_field(got, ev, 'object', 'metadata', 'resourceVersion'))
    vc.ensure('pure', _unchanged(ev, before))
    vc.canary('canary.always_versioned', got is not None)
    return ('event', got)


# =============================================================================================== causes: detection
CAUSES = 'kopf._core.intents.causes'
COMMON = ('resource', 'indices', 'logger', 'patch', 'memo')


def common_kwargs():
    return {name: Opaque(name) for name in COMMON}


def passed_through(cause, given):
    return all(getattr(cause, name, None) is value for name, value in given.items())


@harness('KC1', targets=[f'{CAUSES}.detect_watching_cause', f'{CAUSES}.detect_spawning_cause'], props=['C05', 'C15', 'C09', 'C10'],
         clauses=['total', 'kind_of_cause', 'event_and_type', 'reset_flag', 'passes_through', 'pure'],
         canaries=['canary.type_is_always_added', 'canary.never_reset'])
def KC1(vc):
    """
    The two trivial detectors: every event yields a WatchingCause that carries the raw event itself, ITS type (every type
    of the watch protocol incl. None of the initial listing) and the body/resource/indices/logger/patch/memo it was given;
    a SpawningCause carries the body, the reset flag (essential change: resets the idle timers) and the rest likewise --
    nothing is swapped, dropped or defaulted, the event is not modified.
    """
    from kopf._core.intents import causes
    given = common_kwargs()
    given['body'] = Opaque('body')
    if vc.nondet(2, 'watching / spawning') == 0:
        etype = vc.fin('event.type', [None, 'ADDED', 'MODIFIED', 'DELETED', 'BOOKMARK'])
        obj = Opaque('raw object')
        raw_event = {'type': etype, 'object': obj}
        res = call_total(vc, 'total', vc.load(CAUSES, 'detect_watching_cause').fn, raw_event=raw_event, **given)
        vc.ensure('kind_of_cause', type(res) is causes.WatchingCause)
        vc.ensure('event_and_type', res.event is raw_event and Eq(res.type, etype))
        vc.ensure('passes_through', passed_through(res, given))
        vc.ensure('pure', len(raw_event) == 2 and raw_event['type'] is etype and raw_event['object'] is obj)
        vc.canary('canary.type_is_always_added', Eq(res.type, 'ADDED'))
        return ('watching', res.type)
    reset = vc.bool('reset')
    res = call_total(vc, 'total', vc.load(CAUSES, 'detect_spawning_cause').fn, reset=reset, **given)
    vc.ensure('kind_of_cause', type(res) is causes.SpawningCause)
    vc.ensure('reset_flag', Eq(res.reset, reset))
    vc.ensure('passes_through', passed_through(res, given))
    vc.canary('canary.never_reset', Not(res.reset))
    return ('spawning', res.reset)


def spec_ongoing(raw):
    """SPEC (C05): the object is marked for deletion == metadata.deletionTimestamp is present and not null."""
    present, v = jget(raw, 'metadata', 'deletionTimestamp')
    if isinstance(raw, SJson):
        return And(present, SBool(z3.Not(J.is_JNull(v))))
    return bool(present) and v is not None


@harness('KC2', targets=f'{CAUSES}.ChangingCause.deleted', props=['C05', 'C14', 'C15'],
         clauses=['total', 'deleted_iff_marked_for_deletion', 'pure'], canaries=['canary.never_deleted'],
         trusted=['bodies.Body (KC9) and finalizers.is_deletion_ongoing (K2: the same predicate) run as real code (inlined)'])
def KC2(vc):
    """
    ChangingCause.deleted -- what selects/skips the @on.resume handlers on objects being deleted (deleted= option; C14),
    and must agree with the DELETE/FREE classification of the same body (C05): over an arbitrary JSON body,
    deleted <=> the cause's OWN body (not old/new) carries a non-null metadata.deletionTimestamp; no exception for bodies
    without metadata; nothing is modified.
    """
    from kopf._cogs.structs import bodies
    raw = draw_raw(vc)
    before = _snapshot(raw)
    essence = {'metadata': {'deletionTimestamp': ['absent', None, 'a time'][vc.nondet(3, 'old/new essences say: absent / null / marked')]}}
    if essence['metadata']['deletionTimestamp'] == 'absent':
        essence = {'spec': {}}
    cause = Opaque('cause', body=bodies.Body(raw), old=essence, new=dict(essence), patch={}, reason='resume', initial=True)
    got = call_total(vc, 'total', vc.load(CAUSES, 'ChangingCause.deleted').fn, cause)
    vc.ensure('deleted_iff_marked_for_deletion', Iff(got, spec_ongoing(raw)))
    vc.ensure('pure', _unchanged(raw, before))
    vc.canary('canary.never_deleted', Not(got))
    return ('deleted', got)
