"""Third-wave contracts (builder w3-clients): the thin client functions that verified callers reach only through stubs.

  NC1  fetching.list_objs                       (the listing half of every watch: one GET of the collection URL; every listed
                                                 item returned, kind/apiVersion filled from the list; resourceVersion of the list)
  NC2  scanning._read_version                   (one discovery document -> the Resources it describes; 404 tolerated)
  NC3  scanning._read_old_api / _read_new_apis / scan_resources   (which discovery documents are read; the groups filter; preferred)
  NC4  events.post_event                        (what is posted; which failures are contained with a log line)
  NC5  creating.create_obj                      (what is posted where; failures propagate)
  NC6  api.get_default_namespace / api.read_sslcert / scanning.read_version   (the small ones)

Findings of this file (native reproductions in /verif/findings, entries in /verif/known_findings.d/w3-clients.json): see NC4.
"""
import asyncio
import copy
import dataclasses
import datetime

import aiohttp
import z3

from pyvc import *
from pyvc.loader import _STOP, _STRIP_DEFAULT
from pyvc.stubs import Opaque, exception_reps
from pyvc.values import J, Absent, to_json_term
from kopf._cogs.clients import errors
from kopf._cogs.structs import references


def _ours(e):
    """exceptions of the engine itself must never be caught by a harness"""
    return isinstance(e, (Unsupported, PathEnd))


def _mk(cls, status=500):
    """an instance of an exception class (APIError subclasses need their own constructor arguments)"""
    if issubclass(cls, errors.APIError):
        return cls(None, status=status, headers={})
    if issubclass(cls, aiohttp.ClientResponseError):
        return cls(None, (), status=status, message='by contract')
    return cls('x')


class _RecLogger:
    """a logger that records the level of every call on the ghost trace (messages are not evaluated further)"""
    def __init__(self, vc):
        self.vc = vc

    def __getattr__(self, name):
        def _log(msg, *a, **kw):
            self.vc.emit('log', name, msg)
        return _log


def _names(vc):
    return [ev[0] for ev in vc.trace]


# ---- JSON spec helpers: one specification for the symbolic run and for the concrete CPython re-run
def jt(x):
    """The J term of a JSON value: a proxy, or a plain python value (concrete re-runs)."""
    return to_json_term(x)


def sval(k):
    return k.term if isinstance(k, SStr) else z3.StringVal(k)


def sel(t, k):
    return z3.Select(J.fields(t), sval(k))


def put(t, k, v):
    return J.JObj(z3.Store(J.fields(t), sval(k), v))


def holds(vc, formula):
    """A spec formula as a clause value: an SBool for the solver, or -- in the concrete re-run, where every term is
    ground -- its truth value (decided by z3 as well, so that one spec serves both modes)."""
    if isinstance(formula, bool):
        return formula
    if not vc.concrete:
        return SBool(formula)
    s = z3.Solver()
    s.add(z3.Not(formula))
    return s.check() == z3.unsat


def materialize(x, keys=()):
    """A concrete JSON document from a solver model, for the CPython re-run: <absent> entries dropped; a non-absent
    DEFAULT of an object ("every other key maps to v") is kept as one ordinary key and given to the looked-up `keys`."""
    if isinstance(x, dict):
        out = {k: materialize(v, keys) for k, v in x.items() if not isinstance(v, Absent)}
        if '<every-other-key>' in out:
            for k in keys:
                if k not in x:
                    out[k] = copy.deepcopy(out['<every-other-key>'])
        return out
    if isinstance(x, list):
        return [materialize(v, keys) for v in x if not isinstance(v, Absent)]
    return x


class _SName(SStr):
    """A symbolic string that also answers str.removesuffix (Python 3.9+: the string without the suffix if it ends
    with it, else the string itself)."""
    __slots__ = ()

    def removesuffix(self, suffix):
        return SStr(spec_removesuffix(self.term, suffix))


def spec_removesuffix(term, suffix):
    n = z3.Length(term)
    return z3.If(z3.SuffixOf(z3.StringVal(suffix), term), z3.SubString(term, 0, n - len(suffix)), term)


def draw_name(vc, name):
    s = vc.str(name)
    return s if vc.concrete else _SName(s.term)


# ================================================================================================ NC1
class _GhostSource:
    """rsp['items']: a JSON list of unknown length; only the loop contract may iterate it."""
    def __iter__(self):
        raise Unsupported('native iteration over the listed items (outside the loop contract)')

    def __len__(self):
        raise Unsupported('len() of the listed items')


class _GhostResult:
    """The list under construction: abstractly [fill(L[0]), ..., fill(L[k-1])] ++ appended."""
    def __init__(self):
        self.appended = []

    def append(self, x):
        self.appended.append(x)

    def __getattr__(self, name):
        raise Unsupported(f'the result list is used through .{name} (outside the loop contract)')


@harness('NC1', targets='kopf._cogs.clients.fetching.list_objs', props=['C19', 'C12'],
         clauses=['one_list_request', 'every_item_returned_in_order', 'kind_apiversion_filled_where_missing',
                  'nothing_without_items', 'resource_version_of_the_list', 'failures_propagate'],
         canaries=['canary.never_fails', 'canary.always_versioned', 'canary.kind_always_filled'],
         trusted=['api.get by contract N5: one request through api.request (N2/N3); the parsed JSON body or raises',
                  'Resource.get_url by contract O11', 'str.removesuffix (Python 3.9+)',
                  'precondition (K8s API): the list document is a JSON object; its kind/apiVersion, if present, are strings; '
                  'its metadata, if present, is an object; its items, if present, are a list of objects'])
def NC1(vc):
    """
    fetching.list_objs(settings, resource, namespace, logger) -- the listing half of every watch (C19) -- by a LOOP
    CONTRACT over the listed items (ANY number of items, each an arbitrary JSON object):
      * exactly ONE request: api.get of resource.get_url(namespace=<the caller's namespace>) -- the plain collection URL,
        no name, no subresource, no params (a list, not a watch) -- with the caller's settings and logger;
      * the result is (items, resourceVersion): items = the list's `items`, every one of them, in order, the very objects
        (ghost: result == [L[0..k-1]] at the k-th loop head; the k-th iteration appends exactly L[k]; exit at k == n);
        no `items` key (or an empty list) => an empty collection;
      * every item gets `kind` (the list's kind without its "List" suffix: PodList -> Pod) and `apiVersion` (the list's)
        where the item has none; what the item has is kept (also a null); no other field of the item is touched;
        a list document without kind/apiVersion adds nothing;
      * resourceVersion = the list's metadata.resourceVersion, None if there is none (this is what the watch is resumed
        from: W1.since_is_last_yielded);
      * C12: every failure of the request propagates unchanged (nothing is swallowed, nothing retried here: the retries
        are api.request's, N2).
    """
    settings, logger, url = Opaque('settings'), _RecLogger(vc), Opaque('url')
    namespace = Opaque('namespace') if vc.nondet(2, 'namespace: None / given') == 1 else None
    resource = Opaque('resource')
    resource.get_url = lambda *a, **kw: (vc.emit('get_url', a, kw), url)[1]
    reps = exception_reps([errors.APIError, errors.APINotFoundError, aiohttp.ClientConnectionError, asyncio.TimeoutError],
                          with_base=False) + [asyncio.CancelledError]
    st = dict(thrown=None, rsp=None)
    ghost = dict(k=0, item=None, before=None)
    source, result_list = _GhostSource(), _GhostResult()
    lk = dict(has=False, val=None)      # the list's kind
    la = dict(has=False, val=None)      # the list's apiVersion
    ls = dict(n=0, has_items=False, rv=None)

    async def get(*args, **kw):
        vc.emit('get', args, kw)
        await suspend('api.get')
        k = vc.nondet(1 + len(reps), 'api.get: document / raises')
        if k > 0:
            st['thrown'] = _mk(reps[k - 1])
            raise st['thrown']
        rsp = {}
        if vc.nondet(2, 'list.kind: absent / present') == 1:
            lk.update(has=True, val=draw_name(vc, 'list.kind'))
            rsp['kind'] = lk['val']
        if vc.nondet(2, 'list.apiVersion: absent / present') == 1:
            la.update(has=True, val=vc.str('list.apiVersion'))
            rsp['apiVersion'] = la['val']
        md = vc.nondet(4, 'list.metadata: absent / {} / resourceVersion / resourceVersion + continue')
        if md == 1:
            rsp['metadata'] = {}
        elif md >= 2:
            ls['rv'] = vc.str('list.resourceVersion')
            rsp['metadata'] = {'resourceVersion': ls['rv']}
            if md == 3:
                rsp['metadata'].update({'continue': '', 'remainingItemCount': 0})
        if vc.nondet(2, 'list.items: absent / a list') == 1:
            ls['has_items'] = True
            ls['n'] = vc.int('len(items)')
            vc.assume(ls['n'] >= 0, 'a length')
            rsp['items'] = source
        st['rsp'] = rsp
        return rsp
    vc.used('api.get', 'N5'); vc.used('references.Resource.get_url', 'O11')

    # ---- the loop contract of `for item in rsp.get('items', [])`
    def invariant(loc):
        if loc['items'] is not result_list:            # at entry: nothing collected yet
            return isinstance(loc['items'], list) and len(loc['items']) == 0
        cur = ghost['k'] + len(result_list.appended)
        return And(cur >= 0, cur <= ls['n'])

    def havoc(loc):
        ghost['k'] = vc.int('k')
        return {'items': result_list}

    def element(loc, iterable):
        if ls['has_items']:
            vc.ensure('every_item_returned_in_order', iterable is source)
        else:
            vc.ensure('nothing_without_items', isinstance(iterable, (list, tuple)) and len(iterable) == 0)
        if ghost['k'] < ls['n']:
            item = vc.json('item')
            if vc.concrete:
                if not isinstance(item, dict):
                    vc.assume(False, 'items are objects')
                item = materialize(item, ('kind', 'apiVersion'))
                ghost['before'] = jt(copy.deepcopy(item))
            else:
                vc.assume(item.is_obj(), 'items are objects')
                ghost['before'] = item.term
            ghost['item'] = item
            return item
        return _STOP

    def at_backedge(loc):
        item = ghost['item']
        vc.ensure('every_item_returned_in_order', len(result_list.appended) == 1 and result_list.appended[0] is item)
        before, after = ghost['before'], jt(item)
        want = before
        if lk['has']:
            kind = z3.StringVal(lk['val'].removesuffix('List')) if vc.concrete else spec_removesuffix(lk['val'].term, 'List')
            want = z3.If(J.is_JAbsent(sel(want, 'kind')), put(want, 'kind', J.JStr(kind)), want)
        if la['has']:
            want = z3.If(J.is_JAbsent(sel(want, 'apiVersion')), put(want, 'apiVersion', J.JStr(sval(la['val']))), want)
        vc.ensure('kind_apiversion_filled_where_missing', holds(vc, after == want))
        vc.canary('canary.kind_always_filled', holds(vc, z3.Not(J.is_JAbsent(sel(after, 'kind')))))

    ld = vc.load('kopf._cogs.clients.fetching', 'list_objs', stubs={'api.get': get},
                 loops={1: LoopSpec('for item in rsp.get(', invariant=invariant, havoc=havoc, element=element,
                                    at_backedge=at_backedge, rebinds=('items',))})
    result = raised = None
    try:
        result = vc.drive(ld.fn(settings=settings, resource=resource, namespace=namespace, logger=logger))
    except BaseException as e:
        if _ours(e):
            raise
        raised = e
    # ---- reached only by paths that leave the loop through its guard (or never reach it)
    gets = [ev for ev in vc.trace if ev[0] == 'get']
    urls = [ev for ev in vc.trace if ev[0] == 'get_url']
    vc.ensure('one_list_request', len(gets) == 1 and len(urls) == 1)
    vc.ensure('one_list_request', urls[0][1] == () and set(urls[0][2]) == {'namespace'} and urls[0][2]['namespace'] is namespace)
    got = dict(zip(['url'], gets[0][1]), **gets[0][2])
    vc.ensure('one_list_request', got.get('url') is url and got.get('settings') is settings and got.get('logger') is logger
              and set(got) == {'url', 'settings', 'logger'})
    vc.canary('canary.never_fails', raised is None)
    if st['thrown'] is not None:
        vc.ensure('failures_propagate', raised is st['thrown'])
        return ('raised', type(raised).__name__)
    vc.ensure('failures_propagate', raised is None and isinstance(result, tuple) and len(result) == 2)
    if raised is not None:
        return ('raised-unexpectedly', type(raised).__name__)
    items, rv = result
    vc.ensure('every_item_returned_in_order', items is result_list and len(result_list.appended) == 0 and Eq(ghost['k'], ls['n']))
    if not ls['has_items']:
        vc.ensure('nothing_without_items', Eq(ghost['k'], 0))
    vc.ensure('resource_version_of_the_list', rv is ls['rv'])
    vc.canary('canary.always_versioned', rv is not None)
    return ('listed', ls['has_items'], rv)
