"""Third-wave contracts (builder w3-clients): the thin client functions that verified callers reach only through stubs.

  NC1  fetching.list_objs                       (the listing half of every watch: one GET of the collection URL; every listed
                                                 item returned, kind/apiVersion filled from the list; resourceVersion of the list)
  NC2  scanning._read_version                   (one discovery document -> the Resources it describes; 404 tolerated)
  NC3  scanning._read_old_api / _read_new_apis / scan_resources   (which discovery documents are read; the groups filter; preferred)
  NC4  events.post_event                        (what is posted; which failures are contained with a log line)
  NC5  creating.create_obj                      (what is posted where; failures propagate)
  NC6  api.get_default_namespace / api.read_sslcert / scanning.read_version   (the small ones)

Findings of this file (native reproductions in /verif/findings, entries in /verif/known_findings.d/w3-clients.json): see NC4.
"""
import asyncio
import copy
import dataclasses
import datetime

import aiohttp
import z3

from pyvc import *
from pyvc.loader import _STOP, _STRIP_DEFAULT
from pyvc.stubs import Opaque, exception_reps
from pyvc.values import J, Absent, to_json_term
from kopf._cogs.clients import errors
from kopf._cogs.structs import references


def _ours(e):
    """exceptions of the engine itself must never be caught by a harness"""
    return isinstance(e, (Unsupported, PathEnd))


def _mk(cls, status=500):
    """an instance of an exception class (APIError subclasses need their own constructor arguments)"""
    if issubclass(cls, errors.APIError):
        return cls(None, status=status, headers={})
    if issubclass(cls, aiohttp.ClientResponseError):
        return cls(None, (), status=status, message='by contract')
    return cls('x')


class _RecLogger:
    """a logger that records the level of every call on the ghost trace (messages are not evaluated further)"""
    def __init__(self, vc):
        self.vc = vc

    def __getattr__(self, name):
        def _log(msg, *a, **kw):
            self.vc.emit('log', name, msg)
        return _log


def _names(vc):
    return [ev[0] for ev in vc.trace]


# ---- JSON spec helpers: one specification for the symbolic run and for the concrete CPython re-run
def jt(x):
    """The J term of a JSON value: a proxy, or a plain python value (concrete re-runs)."""
    return to_json_term(x)


def sval(k):
    return k.term if isinstance(k, SStr) else z3.StringVal(k)


def sel(t, k):
    return z3.Select(J.fields(t), sval(k))


def put(t, k, v):
    return J.JObj(z3.Store(J.fields(t), sval(k), v))


def holds(vc, formula):
    """A spec formula as a clause value: an SBool for the solver, or -- in the concrete re-run, where every term is
    ground -- its truth value (decided by z3 as well, so that one spec serves both modes)."""
    if isinstance(formula, bool):
        return formula
    if not vc.concrete:
        return SBool(formula)
    s = z3.Solver()
    s.add(z3.Not(formula))
    return s.check() == z3.unsat


def materialize(x, keys=()):
    """A concrete JSON document from a solver model, for the CPython re-run: <absent> entries dropped; a non-absent
    DEFAULT of an object ("every other key maps to v") is kept as one ordinary key and given to the looked-up `keys`."""
    if isinstance(x, dict):
        out = {k: materialize(v, keys) for k, v in x.items() if not isinstance(v, Absent)}
        if '<every-other-key>' in out:
            for k in keys:
                if k not in x:
                    out[k] = copy.deepcopy(out['<every-other-key>'])
        return out
    if isinstance(x, list):
        return [materialize(v, keys) for v in x if not isinstance(v, Absent)]
    return x


class _SName(SStr):
    """A symbolic string that also answers str.removesuffix (Python 3.9+: the string without the suffix if it ends
    with it, else the string itself)."""
    __slots__ = ()

    def removesuffix(self, suffix):
        return SStr(spec_removesuffix(self.term, suffix))


def spec_removesuffix(term, suffix):
    n = z3.Length(term)
    return z3.If(z3.SuffixOf(z3.StringVal(suffix), term), z3.SubString(term, 0, n - len(suffix)), term)


def draw_name(vc, name):
    s = vc.str(name)
    return s if vc.concrete else _SName(s.term)


# ================================================================================================ NC1
class _GhostSource:
    """rsp['items']: a JSON list of unknown length; only the loop contract may iterate it."""
    def __iter__(self):
        raise Unsupported('native iteration over the listed items (outside the loop contract)')

    def __len__(self):
        raise Unsupported('len() of the listed items')


class _GhostResult:
    """The list under construction: abstractly [fill(L[0]), ..., fill(L[k-1])] ++ appended."""
    def __init__(self):
        self.appended = []

    def append(self, x):
        self.appended.append(x)

    def __getattr__(self, name):
        raise Unsupported(f'the result list is used through .{name} (outside the loop contract)')


@harness('NC1', targets='kopf._cogs.clients.fetching.list_objs', props=['C19', 'C12', 'C03', 'C02', 'C14', 'C05', 'C16', 'C01', 'C04', 'C09', 'C13', 'C17'],
         clauses=['one_list_request', 'every_item_returned_in_order', 'kind_apiversion_filled_where_missing',
                  'nothing_without_items', 'resource_version_of_the_list', 'failures_propagate'],
         canaries=['canary.never_fails', 'canary.always_versioned', 'canary.kind_always_filled'],
         trusted=['api.get by contract N5: one request through api.request (N2/N3); the parsed JSON body or raises',
                  'Resource.get_url by contract O11d (deductive; O11 bounded for the quoting)', 'str.removesuffix (Python 3.9+)',
                  'precondition (K8s API): the list document is a JSON object; its kind/apiVersion, if present, are strings; '
                  'its metadata, if present, is an object; its items, if present, are a list of objects'])
def NC1(vc):
    """
    fetching.list_objs(settings, resource, namespace, logger) -- the listing half of every watch (C19) -- by a LOOP
    CONTRACT over the listed items (ANY number of items, each an arbitrary JSON object):
      * exactly ONE request: api.get of resource.get_url(namespace=<the caller's namespace>) -- the plain collection URL,
        no name, no subresource, no params (a list, not a watch) -- with the caller's settings and logger;
      * the result is (items, resourceVersion): items = the list's `items`, every one of them, in order, the very objects
        (ghost: result == [L[0..k-1]] at the k-th loop head; the k-th iteration appends exactly L[k]; exit at k == n);
        no `items` key (or an empty list) => an empty collection;
      * every item gets `kind` (the list's kind without its "List" suffix: PodList -> Pod) and `apiVersion` (the list's)
        where the item has none; what the item has is kept (also a null); no other field of the item is touched;
        a list document without kind/apiVersion adds nothing;
      * resourceVersion = the list's metadata.resourceVersion, None if there is none (this is what the watch is resumed
        from: W1.since_is_last_yielded);
      * C12: every failure of the request propagates unchanged (nothing is swallowed, nothing retried here: the retries
        are api.request's, N2).
    """
    settings, logger, url = Opaque('settings'), _RecLogger(vc), Opaque('url')
    namespace = Opaque('namespace') if vc.nondet(2, 'namespace: None / given') == 1 else None
    resource = Opaque('resource')
    resource.get_url = lambda *a, **kw: (vc.emit('get_url', a, kw), url)[1]
    reps = exception_reps([errors.APIError, errors.APINotFoundError, aiohttp.ClientConnectionError, asyncio.TimeoutError],
                          with_base=False) + [asyncio.CancelledError]
    st = dict(thrown=None, rsp=None)
    ghost = dict(k=0, item=None, before=None)
    source, result_list = _GhostSource(), _GhostResult()
    lk = dict(has=False, val=None)      # the list's kind
    la = dict(has=False, val=None)      # the list's apiVersion
    ls = dict(n=0, has_items=False, rv=None)

    async def get(*args, **kw):
        vc.emit('get', args, kw)
        await suspend('api.get')
        k = vc.nondet(1 + len(reps), 'api.get: document / raises')
        if k > 0:
            st['thrown'] = _mk(reps[k - 1])
            raise st['thrown']
        rsp = {}
        if vc.nondet(2, 'list.kind: absent / present') == 1:
            lk.update(has=True, val=draw_name(vc, 'list.kind'))
            rsp['kind'] = lk['val']
        if vc.nondet(2, 'list.apiVersion: absent / present') == 1:
            la.update(has=True, val=vc.str('list.apiVersion'))
            rsp['apiVersion'] = la['val']
        md = vc.nondet(4, 'list.metadata: absent / {} / resourceVersion / resourceVersion + continue')
        if md == 1:
            rsp['metadata'] = {}
        elif md >= 2:
            ls['rv'] = vc.str('list.resourceVersion')
            rsp['metadata'] = {'resourceVersion': ls['rv']}
            if md == 3:
                rsp['metadata'].update({'continue': '', 'remainingItemCount': 0})
        if vc.nondet(2, 'list.items: absent / a list') == 1:
            ls['has_items'] = True
            ls['n'] = vc.int('len(items)')
            vc.assume(ls['n'] >= 0, 'a length')
            rsp['items'] = source
        st['rsp'] = rsp
        return rsp
    vc.used('api.get', 'N5'); vc.used('references.Resource.get_url', 'O11d')

    # ---- the loop contract of `for item in rsp.get('items', [])`
    def invariant(loc):
        if loc['items'] is not result_list:            # at entry: nothing collected yet
            return isinstance(loc['items'], list) and len(loc['items']) == 0
        cur = ghost['k'] + len(result_list.appended)
        return And(cur >= 0, cur <= ls['n'])

    def havoc(loc):
        ghost['k'] = vc.int('k')
        return {'items': result_list}

    def element(loc, iterable):
        if ls['has_items']:
            vc.ensure('every_item_returned_in_order', iterable is source)
        else:
            vc.ensure('nothing_without_items', isinstance(iterable, (list, tuple)) and len(iterable) == 0)
        if ghost['k'] < ls['n']:
            item = vc.json('item')
            if vc.concrete:
                if not isinstance(item, dict):
                    vc.assume(False, 'items are objects')
                item = materialize(item, ('kind', 'apiVersion'))
                ghost['before'] = jt(copy.deepcopy(item))
            else:
                vc.assume(item.is_obj(), 'items are objects')
                ghost['before'] = item.term
            ghost['item'] = item
            return item
        return _STOP

    def at_backedge(loc):
        item = ghost['item']
        vc.ensure('every_item_returned_in_order', len(result_list.appended) == 1 and result_list.appended[0] is item)
        before, after = ghost['before'], jt(item)
        want = before
        if lk['has']:
            kind = z3.StringVal(lk['val'].removesuffix('List')) if vc.concrete else spec_removesuffix(lk['val'].term, 'List')
            want = z3.If(J.is_JAbsent(sel(want, 'kind')), put(want, 'kind', J.JStr(kind)), want)
        if la['has']:
            want = z3.If(J.is_JAbsent(sel(want, 'apiVersion')), put(want, 'apiVersion', J.JStr(sval(la['val']))), want)
        vc.ensure('kind_apiversion_filled_where_missing', holds(vc, after == want))
        vc.canary('canary.kind_always_filled', holds(vc, z3.Not(J.is_JAbsent(sel(after, 'kind')))))

    ld = vc.load('kopf._cogs.clients.fetching', 'list_objs', stubs={'api.get': get},
                 loops={1: LoopSpec('for item in rsp.get(', invariant=invariant, havoc=havoc, element=element,
                                    at_backedge=at_backedge, rebinds=('items',))})
    result = raised = None
    try:
        result = vc.drive(ld.fn(settings=settings, resource=resource, namespace=namespace, logger=logger))
    except BaseException as e:
        if _ours(e):
            raise
        raised = e
    # ---- reached only by paths that leave the loop through its guard (or never reach it)
    gets = [ev for ev in vc.trace if ev[0] == 'get']
    urls = [ev for ev in vc.trace if ev[0] == 'get_url']
    vc.ensure('one_list_request', len(gets) == 1 and len(urls) == 1)
    vc.ensure('one_list_request', urls[0][1] == () and set(urls[0][2]) == {'namespace'} and urls[0][2]['namespace'] is namespace)
    got = dict(zip(['url'], gets[0][1]), **gets[0][2])
    vc.ensure('one_list_request', got.get('url') is url and got.get('settings') is settings and got.get('logger') is logger
              and set(got) == {'url', 'settings', 'logger'})
    vc.canary('canary.never_fails', raised is None)
    if st['thrown'] is not None:
        vc.ensure('failures_propagate', raised is st['thrown'])
        return ('raised', type(raised).__name__)
    vc.ensure('failures_propagate', raised is None and isinstance(result, tuple) and len(result) == 2)
    if raised is not None:
        return ('raised-unexpectedly', type(raised).__name__)
    items, rv = result
    vc.ensure('every_item_returned_in_order', items is result_list and len(result_list.appended) == 0 and Eq(ghost['k'], ls['n']))
    if not ls['has_items']:
        vc.ensure('nothing_without_items', Eq(ghost['k'], 0))
    vc.ensure('resource_version_of_the_list', rv is ls['rv'])
    vc.canary('canary.always_versioned', rv is not None)
    return ('listed', ls['has_items'], rv)


# ================================================================================================ NC2
_NAMES = ['things', 'things/status', 'things/scale', 'thingsx', 'thingsx/status', 'orphans/status']
_SUBS = ('status', 'scale')
_LAYOUTS3 = [['things', 'things/status', 'things/scale'], ['things/status', 'thingsx', 'things'],
             ['thingsx/status', 'things', 'orphans/status'], ['things', 'thingsx', 'thingsx/status']]


def _draw_discovery_entries(vc):
    """The `resources` of an APIResourceList: 0..2 entries with any distinct names of _NAMES in any order, or one of 4 layouts
    of 3 entries; per entry a symbolic singularName (incl. empty) and namespaced flag; the optional fields
    (verbs/shortNames/categories) in 4 shapes (absent, null/empty, one, several) rotated over the entries."""
    n = vc.nondet(4, 'discovery entries: 0 / 1 / 2 / 3')
    if n == 3:
        names = list(_LAYOUTS3[vc.nondet(len(_LAYOUTS3), 'layout of 3 entries')])
    else:
        names = []
        for i in range(n):
            rest = [x for x in _NAMES if x not in names]
            names.append(rest[vc.nondet(len(rest), f'name of entry {i}')])
    shift = vc.nondet(4, 'shapes of the optional fields') if names else 0
    entries = []
    for i, name in enumerate(names):
        e = {'name': name, 'kind': f'Kind{i}', 'singularName': vc.str(f'singularName{i}'), 'namespaced': vc.bool(f'namespaced{i}')}
        shape = (shift + i) % 4
        if shape == 0:
            e.update(verbs=['list', 'watch', f'verb{i}'], shortNames=[f'sn{i}'], categories=['all'])
        elif shape == 1:
            e.update(verbs=None)
        elif shape == 2:
            e.update(shortNames=[], categories=[])
        else:
            e.update(verbs=[], shortNames=[f'a{i}', f'b{i}'])
        entries.append(e)
    return entries


@harness('NC2', targets='kopf._cogs.clients.scanning._read_version', props=['C19', 'C12', 'C08', 'C03', 'C05', 'C06', 'C13', 'C17', 'C18', 'C07'],
         clauses=['one_discovery_request', 'one_resource_per_plain_entry', 'identity_from_the_arguments', 'names_from_the_entry',
                  'subresources_attached_to_their_parent', 'vanished_group_tolerated', 'other_failures_propagate'],
         canaries=['canary.never_empty', 'canary.never_fails', 'canary.no_subresources'],
         trusted=['api.get by contract N5', 'references.Resource: a plain frozen dataclass (real objects are built)',
                  'precondition (K8s API, APIResourceList): every entry has name/kind/singularName/namespaced; names are distinct'],
         assumes=['NC2: documents of 0..2 entries with any distinct names out of 6 (plain, subresource of a listed / of an unlisted '
                  'resource, a name that is a proper prefix of another) in any order, plus 4 layouts of 3 entries; the comprehension '
                  'runs natively over the concrete-length list (BOUNDED in the number of entries; leaves symbolic where the code '
                  'does not hash them)'])
def NC2(vc):
    """
    scanning._read_version(url, group, version, preferred, settings, logger): ONE api.get of the given url; the result is
    the set of resources the discovery document (APIResourceList) describes (C19: which kinds exist -- and so which
    watches are started and stopped -- is decided from this):
      * exactly one Resource per entry whose name has no '/' (the entries with a '/' are subresources, never resources);
      * its group/version/preferred are the arguments (the document is not consulted for them), plural = the entry's name,
        kind = its kind, singular = its singularName -- or, where that is empty (K3s), the lower-cased kind --,
        shortcuts/categories/verbs = the entry's shortNames/categories/verbs as sets (absent or null => empty),
        namespaced = the entry's flag;
      * subresources: s is a subresource of R  <=>  the document lists "<R's plural>/<s>" -- nothing of a resource whose
        name merely starts with R's plural (thingsx/status is not things'), nothing of unlisted parents;
      * a document without `resources` describes nothing;
      * a 404 (the group/version vanished between the listing of the groups and this request: the last CRD of a group
        was deleted) is tolerated: no resources, no error -- the scan of the other groups goes on; every other failure
        (other API errors, network errors, cancellation) propagates unchanged (C12: nothing else is swallowed here).
    BOUNDED in the number of entries (see assumes); everything else by enumeration of all paths.
    """
    url, group, version, settings, logger = Opaque('url'), Opaque('group'), Opaque('version'), Opaque('settings'), _RecLogger(vc)
    preferred = vc.bool('preferred')
    reps = exception_reps([errors.APINotFoundError, errors.APIError, aiohttp.ClientConnectionError], with_base=False) \
        + [asyncio.TimeoutError, asyncio.CancelledError]
    st = dict(thrown=None, entries=None, has_resources=False)

    async def get(*args, **kw):
        vc.emit('get', args, kw)
        await suspend('api.get')
        k = vc.nondet(2 + len(reps), 'api.get: document / document without resources / raises')
        if k >= 2:
            st['thrown'] = _mk(reps[k - 2], status=404)
            raise st['thrown']
        if k == 1:
            st['entries'] = []
            return {'kind': 'APIResourceList', 'groupVersion': 'g/v'}
        st['has_resources'] = True
        st['entries'] = _draw_discovery_entries(vc)
        return {'kind': 'APIResourceList', 'groupVersion': 'g/v', 'resources': st['entries']}
    vc.used('api.get', 'N5')
    ld = vc.load('kopf._cogs.clients.scanning', '_read_version', stubs={'api.get': get})
    result = raised = None
    try:
        result = vc.drive(ld.fn(url=url, group=group, version=version, preferred=preferred, settings=settings, logger=logger))
    except BaseException as e:
        if _ours(e):
            raise
        raised = e
    gets = [ev for ev in vc.trace if ev[0] == 'get']
    vc.ensure('one_discovery_request', len(gets) == 1)
    got = dict(zip(['url'], gets[0][1]), **gets[0][2])
    vc.ensure('one_discovery_request', got.get('url') is url and got.get('settings') is settings and got.get('logger') is logger
              and set(got) == {'url', 'settings', 'logger'})
    vc.canary('canary.never_fails', raised is None)
    thrown = st['thrown']
    if thrown is not None and not isinstance(thrown, errors.APINotFoundError):
        vc.ensure('other_failures_propagate', raised is thrown)
        return ('raised', type(thrown).__name__)
    vc.ensure('other_failures_propagate', raised is None)
    if raised is not None:
        return ('raised-unexpectedly', type(raised).__name__)
    found = list(result)
    if thrown is not None:
        vc.ensure('vanished_group_tolerated', len(found) == 0)
        return ('404', len(found))
    entries = st['entries']
    names = [e['name'] for e in entries]
    plain = [e for e in entries if '/' not in e['name']]
    vc.canary('canary.never_empty', len(found) > 0)
    vc.ensure('one_resource_per_plain_entry', all(isinstance(r, references.Resource) for r in found)
              and len(found) == len(plain) and sorted(r.plural for r in found) == sorted(e['name'] for e in plain))
    by_plural = {r.plural: r for r in found if isinstance(r, references.Resource)}
    for e in plain:
        r = by_plural.get(e['name'])
        if r is None:
            continue
        vc.ensure('identity_from_the_arguments', r.group is group and r.version is version and Eq(r.preferred, preferred))
        sn = e['singularName']
        vc.ensure('names_from_the_entry', r.kind == e['kind'] and r.plural == e['name'])
        vc.ensure('names_from_the_entry', If(Eq(sn, ''), Eq(r.singular, e['kind'].lower()), Eq(r.singular, sn)))
        vc.ensure('names_from_the_entry', r.shortcuts == frozenset(e.get('shortNames') or ())
                  and r.categories == frozenset(e.get('categories') or ()) and r.verbs == frozenset(e.get('verbs') or ())
                  and all(isinstance(x, frozenset) for x in (r.shortcuts, r.categories, r.verbs, r.subresources)))
        vc.ensure('names_from_the_entry', Eq(r.namespaced, e['namespaced']))
        vc.ensure('subresources_attached_to_their_parent',
                  r.subresources == frozenset(s for s in _SUBS if f"{e['name']}/{s}" in names))
        vc.canary('canary.no_subresources', len(r.subresources) == 0)
    return ('scanned', sorted(names), sorted((r.plural, sorted(r.subresources)) for r in found))


# ================================================================================================ NC3
_GROUPS_DOMAIN = [None, set(), {''}, {'', 'g1.example.com'}, {'g1.example.com'}, [''], ('g1.example.com', ''),
                  frozenset({'g1.example.com', 'g2.example.com'})]


def _in_groups(name, groups):
    """name is one of the requested groups (no fork)"""
    return Or(*[Eq(name, g) for g in groups]) if groups else False


class _Scan:
    """What the three scanning functions share: the ghost callee `_read_version` (contract NC2), asyncio.as_completed."""

    def __init__(self, vc):
        self.vc = vc
        self.thrown = None
        self.returned = []          # the sets the callees returned
        self.coros = []
        self.reps = [errors.APIError, asyncio.CancelledError]      # no except clause in the callers: two kinds suffice

    def callee(self, name):
        """A ghost callee returning a collection of resources (fresh tokens: 1, 2, 0, 1, ... of them) or raising."""
        async def call(*args, **kw):
            vc = self.vc
            vc.emit(name, args, kw)
            await suspend(name)
            k = vc.nondet(1 + len(self.reps), f'{name}: resources / raises')
            if k > 0:
                self.thrown = _mk(self.reps[k - 1])
                raise self.thrown
            j = len(self.returned)
            out = {Opaque(f'{name}#{j}.{i}') for i in range((1, 2, 0)[j % 3])}
            self.returned.append(out)
            return out

        def make(*args, **kw):
            c = call(*args, **kw)
            self.coros.append(c)
            return c
        return make

    def as_completed(self, coros, **kw):
        """asyncio.as_completed by contract: one awaitable per given coroutine, each giving the result (or raising the
        exception) of one of them, every one exactly once, in the order of completion -- here: as given, or reversed."""
        cs = list(coros)
        self.vc.emit('as_completed', len(cs))
        if len(cs) > 1 and self.vc.nondet(2, 'completion order: as given / reversed') == 1:
            cs.reverse()
        return cs

    def close(self):
        for c in self.coros:
            c.close()

    def union(self):
        out = set()
        for s in self.returned:
            out |= s
        return out


@harness('NC3', targets=['kopf._cogs.clients.scanning._read_old_api', 'kopf._cogs.clients.scanning._read_new_apis',
                         'kopf._cogs.clients.scanning.scan_resources'], props=['C19', 'C12', 'C08', 'C09', 'C13', 'C07'],
         clauses=['core.read_iff_requested', 'core.every_version_scanned', 'groups.read_iff_requested',
                  'groups.only_requested_groups_scanned', 'groups.every_version_scanned', 'groups.preferred_is_the_preferred_version',
                  'scan.both_apis_same_filter', 'union_of_everything_found', 'failures_propagate'],
         canaries=['canary.never_reads', 'canary.always_preferred', 'canary.never_fails', 'canary.never_filtered'],
         trusted=['api.get by contract N5', 'scanning._read_version by contract NC2',
                  'asyncio.as_completed: every given coroutine is run and awaited exactly once, in any order',
                  'precondition (K8s API): /api is an APIVersions (`versions`: strings), /apis an APIGroupList (`groups`: '
                  'name, versions[].version, preferredVersion.version; group names distinct)'],
         assumes=['NC3: /api with 0..2 versions, /apis with 0..2 groups of 1..2 versions -- all names ARBITRARY strings; `groups` '
                  'over 8 shapes (None, empty, with/without the core group, set/list/tuple/frozenset); the comprehensions run '
                  'natively over the concrete-length lists (BOUNDED in their lengths)'])
def NC3(vc):
    """
    Resource discovery (C19: the kinds that exist are the union of what these report; `groups` limits a re-scan to the
    group of the CRD that changed).
    _read_old_api(groups): the core API is read iff groups is None or contains '' -- then ONE GET /api and, for every
      version v it lists, one _read_version(url='/api/<v>', group='', version=v, preferred=True) -- core versions are
      always "preferred"; otherwise no request at all and no resources.
    _read_new_apis(groups): the API groups are read iff groups is None or names at least one non-core group -- then ONE
      GET /apis and, for every listed group that is requested (all if groups is None) and every version of it, one
      _read_version(url='/apis/<group>/<v>', group=<group>, version=v, preferred = (v is the group's preferredVersion));
      no other group is scanned (the re-scan of one group must not touch -- or pay for -- the others).
    scan_resources(groups): both of the above with the caller's groups/settings/logger.
    All three: the result is the union of everything the callees returned (nothing dropped, nothing added); the first
    failure (of a GET or of a callee -- _read_version has already tolerated the 404s it may, NC2) propagates unchanged.
    """
    scenario = ['core', 'groups', 'scan'][vc.nondet(3, 'function: _read_old_api / _read_new_apis / scan_resources')]
    sc = _Scan(vc)
    settings, logger = Opaque('settings'), _RecLogger(vc)
    st = dict(doc=None, get_thrown=None)
    get_reps = [errors.APINotFoundError, aiohttp.ClientConnectionError, asyncio.CancelledError]

    def draw_doc(which):
        if which == '/api':
            vs = [vc.str(f'version{i}') for i in range(vc.nondet(3, '/api: 0 / 1 / 2 versions'))]
            return {'kind': 'APIVersions', 'versions': vs}
        gs = []
        for i in range(vc.nondet(3, '/apis: 0 / 1 / 2 groups')):
            vs = [vc.str(f'group{i}.version{j}') for j in range(1 + vc.nondet(2, f'group {i}: 1 / 2 versions'))]
            gs.append({'name': vc.str(f'group{i}.name'), 'versions': [{'groupVersion': 'x', 'version': v} for v in vs],
                       'preferredVersion': {'groupVersion': 'x', 'version': vc.str(f'group{i}.preferred')}})
        if len(gs) == 2:
            vc.assume(Not(Eq(gs[0]['name'], gs[1]['name'])), 'group names are distinct')
        return {'kind': 'APIGroupList', 'groups': gs}

    async def get(*args, **kw):
        vc.emit('get', args, kw)
        await suspend('api.get')
        k = vc.nondet(1 + len(get_reps), 'api.get: document / raises')
        if k > 0:
            st['get_thrown'] = _mk(get_reps[k - 1], status=404)
            raise st['get_thrown']
        url = (list(args) + [kw.get('url')])[0]
        if url not in ('/api', '/apis'):
            raise Unsupported(f'GET of an unexpected url {url!r}')
        st['doc'] = draw_doc(url)
        return st['doc']
    vc.used('api.get', 'N5'); vc.used('scanning._read_version', 'NC2')
    result = raised = None

    def run(coro):
        nonlocal result, raised
        try:
            result = vc.drive(coro)
        except BaseException as e:
            if _ours(e):
                raise
            raised = e
        finally:
            sc.close()

    def check_outcome():
        """union / failure clauses shared by the three functions; True if the function returned"""
        thrown = st['get_thrown'] or sc.thrown
        vc.canary('canary.never_fails', raised is None)
        if thrown is not None:
            vc.ensure('failures_propagate', raised is thrown)
            return False
        vc.ensure('failures_propagate', raised is None)
        if raised is not None:
            return False
        vc.ensure('union_of_everything_found', result is not None and len(result) == len(sc.union()) and set(result) == sc.union())
        return True

    if scenario == 'scan':
        groups_given = vc.nondet(2, 'groups: omitted / given') == 1
        groups = Opaque('groups')
        old, new = sc.callee('_read_old_api'), sc.callee('_read_new_apis')
        ld = vc.load('kopf._cogs.clients.scanning', 'scan_resources',
                     stubs={'_read_old_api': old, '_read_new_apis': new, 'asyncio.as_completed': sc.as_completed, 'api.get': get})
        run(ld.fn(settings=settings, logger=logger, **({'groups': groups} if groups_given else {})))
        calls = [ev for ev in vc.trace if ev[0] in ('_read_old_api', '_read_new_apis')]
        vc.ensure('scan.both_apis_same_filter', 'get' not in _names(vc))
        for ev in calls:
            vc.ensure('scan.both_apis_same_filter', ev[1] == () and set(ev[2]) == {'groups', 'settings', 'logger'}
                      and ev[2]['groups'] is (groups if groups_given else None)
                      and ev[2]['settings'] is settings and ev[2]['logger'] is logger)
        if check_outcome():
            vc.ensure('scan.both_apis_same_filter', sorted(ev[0] for ev in calls) == ['_read_new_apis', '_read_old_api'])
        return ('scan', groups_given, type(raised).__name__)

    groups = _GROUPS_DOMAIN[vc.nondet(len(_GROUPS_DOMAIN), 'groups')]
    groups = copy.copy(groups)
    rv = sc.callee('_read_version')
    ld = vc.load('kopf._cogs.clients.scanning', '_read_old_api' if scenario == 'core' else '_read_new_apis',
                 stubs={'_read_version': rv, 'asyncio.as_completed': sc.as_completed, 'api.get': get})
    run(ld.fn(settings=settings, logger=logger, groups=groups))
    gets = [ev for ev in vc.trace if ev[0] == 'get']
    calls = [ev[2] for ev in vc.trace if ev[0] == '_read_version']
    vc.ensure('failures_propagate', all(ev[1] == () for ev in vc.trace if ev[0] == '_read_version'))
    for ev in gets:
        got = dict(zip(['url'], ev[1]), **ev[2])
        vc.ensure(f'{scenario}.read_iff_requested', got.get('url') == ('/api' if scenario == 'core' else '/apis')
                  and got.get('settings') is settings and got.get('logger') is logger and set(got) == {'url', 'settings', 'logger'})
    for kw in calls:
        vc.ensure(f'{scenario}.every_version_scanned', set(kw) == {'url', 'group', 'version', 'preferred', 'settings', 'logger'}
                  and kw['settings'] is settings and kw['logger'] is logger)
    vc.canary('canary.never_reads', len(gets) == 0)
    if scenario == 'core':
        wanted = groups is None or '' in groups
        vc.ensure('core.read_iff_requested', len(gets) == (1 if wanted else 0))
        if not wanted:
            vc.ensure('core.read_iff_requested', len(calls) == 0)
        returned = check_outcome()
        for kw in calls:
            vc.ensure('core.every_version_scanned', kw['group'] == '' and kw['preferred'] is True
                      and Eq(kw['url'], '/api/' + kw['version']))
        if returned and wanted:
            versions = st['doc']['versions']
            vc.ensure('core.every_version_scanned', sorted(id(kw['version']) for kw in calls) == sorted(id(v) for v in versions))
        return ('core', wanted, len(calls), type(raised).__name__)

    wanted = groups is None or bool(set(groups) - {''})
    vc.ensure('groups.read_iff_requested', len(gets) == (1 if wanted else 0))
    if not wanted:
        vc.ensure('groups.read_iff_requested', len(calls) == 0)
    returned = check_outcome()
    listed = st['doc']['groups'] if st['doc'] is not None else []
    for kw in calls:
        owner = [g for g in listed if g['name'] is kw['group']]
        vc.ensure('groups.only_requested_groups_scanned', len(owner) >= 1)
        if not owner:
            continue
        g = owner[0]
        vc.ensure('groups.only_requested_groups_scanned', True if groups is None else _in_groups(g['name'], groups))
        vc.ensure('groups.every_version_scanned', Eq(kw['url'], '/apis/' + g['name'] + '/' + kw['version']))
        vc.ensure('groups.preferred_is_the_preferred_version', Iff(kw['preferred'], Eq(kw['version'], g['preferredVersion']['version'])))
        vc.canary('canary.always_preferred', kw['preferred'])
    if returned and wanted:
        for g in listed:
            mine = [kw for kw in calls if kw['group'] is g['name']]
            inn = True if groups is None else _in_groups(g['name'], groups)
            vc.canary('canary.never_filtered', inn)
            all_versions = sorted(id(kw['version']) for kw in mine) == sorted(id(v['version']) for v in g['versions'])
            vc.ensure('groups.every_version_scanned', Implies(inn, all_versions))
            vc.ensure('groups.only_requested_groups_scanned', Implies(Not(inn), len(mine) == 0))
    return ('groups', wanted, len(calls), type(raised).__name__)


# ================================================================================================ NC4
FINDING_POSTING_TIMEOUT = 'F-C12-5'   # time-outs / other connection errors of the POST escape post_event and kill the poster task
K8S_MESSAGE_LIMIT = 1024              # k8s.io/api core/v1 Event validation: "message: can have at most 1024 characters"


class _Text(SStr):
    """
    The event message abstracted to its STRUCTURE: a concatenation of literal pieces and of slices [lo, hi) of the
    ORIGINAL message (whose length is one symbolic integer).  z3's string theory does not produce strings of > 1024
    characters in useful time (needed to refute mutants); the verified code only takes len(), slices with constant
    bounds and f-string concatenations of the message -- exactly what this class offers, with integer arithmetic only.
    In the concrete re-run a real str of the model's length is used instead.
    """
    __slots__ = ('pieces',)

    def __init__(self, pieces):
        self.pieces = [p for p in pieces if not (p[0] == 'lit' and p[1] == '')]
        n = self.vc_len()
        SStr.__init__(self, n.term if isinstance(n, SNum) else z3.IntVal(n))

    def vc_len(self):
        total = 0
        for p in self.pieces:
            total = total + (len(p[1]) if p[0] == 'lit' else p[2] - p[1])
        return total

    def truth(self):
        return self.vc_len() > 0

    def __bool__(self):
        return bool(self.vc_len() > 0)

    def __getitem__(self, k):
        if not isinstance(k, slice) or k.step not in (None, 1) or len(self.pieces) != 1 or self.pieces[0][0] != 'src':
            raise Unsupported(f'_Text[{k!r}]')
        _, lo0, hi0 = self.pieces[0]
        n = hi0 - lo0

        def idx(v, dflt):
            if v is None:
                return dflt
            if not isinstance(v, int) or isinstance(v, SV):
                raise Unsupported('a slice bound that is not a constant')
            return If(n + v < 0, 0, n + v) if v < 0 else If(n < v, n, v)    # Python clamps; negative counts from the end
        a, b = idx(k.start, 0), idx(k.stop, n)
        b = If(b < a, a, b)
        return _Text([('src', lo0 + a, lo0 + b)])

    def _cat(self, o, rev):
        if isinstance(o, _Text):
            other = o.pieces
        elif isinstance(o, str) and not isinstance(o, SV):
            other = [('lit', o)]
        else:
            return NotImplemented
        return _Text(other + self.pieces if rev else self.pieces + other)

    def __add__(self, o):
        return self._cat(o, False)

    def __radd__(self, o):
        return self._cat(o, True)

    def __eq__(self, o):
        if o is self:
            return True
        raise Unsupported('comparison of the abstracted message text')

    __hash__ = SStr.__hash__

    def __format__(self, spec):
        return '<message text>'


def _pattern(n):
    return ''.join(chr(ord('a') + (i * 7 + i // 26) % 26) for i in range(n))


def spec_message_cut(vc, sent, message, n):
    """`sent` is `message` (of n characters) as the Kubernetes limit allows it: itself if it fits; otherwise its beginning
    and its end (both non-empty) around some marker, nothing else of it, within the limit."""
    if vc.concrete:
        if not isinstance(sent, str):
            return False
        if n <= K8S_MESSAGE_LIMIT:
            return sent == message
        p = 0
        while p < len(sent) and sent[p] == message[p]:
            p += 1
        s = 0
        while s < len(sent) - p and sent[-1 - s] == message[-1 - s]:
            s += 1
        return len(sent) <= K8S_MESSAGE_LIMIT and p >= 1 and s >= 1
    if sent is message:
        return n <= K8S_MESSAGE_LIMIT
    if not isinstance(sent, _Text) or len(sent.pieces) < 2:
        return False
    first, last, middle = sent.pieces[0], sent.pieces[-1], sent.pieces[1:-1]
    if first[0] != 'src' or last[0] != 'src' or any(p[0] != 'lit' for p in middle):
        return False
    return And(n > K8S_MESSAGE_LIMIT, sent.vc_len() <= K8S_MESSAGE_LIMIT,
               Eq(first[1], 0), first[2] > 0, Eq(last[2], n), last[1] < n, first[2] <= last[1])


def _nonempty(x):
    return False if x is None else Not(Eq(x, ''))


_POST_CONTAINED = (errors.APIError, aiohttp.ClientConnectionError, aiohttp.ClientResponseError, asyncio.TimeoutError)


def _post_failure_reps():
    named = [errors.APIError, aiohttp.ClientResponseError, aiohttp.ServerDisconnectedError, aiohttp.ClientOSError,
             aiohttp.ClientConnectionError, asyncio.TimeoutError]
    reps = exception_reps(named, with_base=True) + [aiohttp.ServerTimeoutError, aiohttp.ClientPayloadError, asyncio.CancelledError]
    if hasattr(aiohttp, 'ClientConnectionResetError'):
        reps.append(aiohttp.ClientConnectionResetError)
    out = []
    for cls in reps:
        try:
            _mk(cls)
        except Exception:
            continue
        out.append(cls)
    return out


@harness('NC4', targets='kopf._cogs.clients.events.post_event', props=['C12'],
         clauses=['no_events_for_events', 'one_post_to_the_events_of_the_namespace', 'namespace_fallback', 'involved_object_is_the_ref',
                  'event_fields', 'message_within_the_limit', 'infrastructure_failures_contained', 'contained_with_a_log_line',
                  'other_failures_propagate', 'ref_not_modified'],
         canaries=['canary.always_posts', 'canary.never_cut', 'canary.never_raises', 'canary.never_logs', 'canary.namespace_always_default'],
         trusted=['api.post by contract N5 (one request through api.request, N2: the retried kinds escalate as themselves once the '
                  'backoffs are exhausted)', 'api.get_default_namespace by contract NC6', 'Resource.get_url by contract O11d (deductive; O11 bounded for the quoting)',
                  'datetime.datetime.now / isoformat / fromisoformat (real library code, run natively)', 'copy.copy of a dict',
                  'the message text is abstracted to its structure (_Text): len, constant slices, concatenation'])
def NC4(vc):
    """
    events.post_event(ref, type, reason, message, resource, settings, logger): post ONE k8s-event about the object `ref`.
    What is sent (scenario "sent": every shape of the ref -- apiVersion/kind/namespace present or not, arbitrary strings incl.
    empty --, every default namespace of the credentials -- None, empty, some --, messages of EVERY length, omitted incl.):
      * nothing at all for a ref to a core v1 Event (docs/events.rst "Events for events": silently skipped);
      * otherwise exactly one api.post, to resource.get_url(namespace=N) and with metadata.namespace = N and
        involvedObject.namespace = N, where N = the ref's namespace if it has a non-empty one, else the default namespace
        of the current credentials if there is a non-empty one, else "default" (cluster-scoped objects; issue #164);
      * involvedObject = the ref (every field, unchanged) + that namespace; the caller's ref object is not modified;
      * type / reason as given; reportingComponent, source.component / reportingInstance / metadata.generateName from
        settings.posting; three equal, timezone-aware ISO timestamps; JSON content type; the caller's settings and logger;
      * message: unchanged if it has at most 1024 characters (the API's limit); otherwise cut to at most 1024: a non-empty
        beginning and a non-empty end of the message around a marker, nothing else.
    Which failures are contained (scenario "failures": every representative exception of api.post): C12 -- "events are
    helpful but auxiliary": an infrastructure failure of the POST (APIError of any status, aiohttp.ClientConnectionError,
    aiohttp.ClientResponseError, asyncio.TimeoutError -- the kinds api.request retries and then escalates, N2, and the 4xx
    it escalates at once) never leaves post_event: it returns normally and leaves one log line of level warning or
    higher; a cancellation, a non-Exception and an unrelated exception propagate unchanged (other aiohttp.ClientError
    kinds: either).
    F-C12-5 (found here, FIXED in repo 44a7137): asyncio.TimeoutError (incl. aiohttp.ServerTimeoutError) and the aiohttp.ClientConnectionError
    kinds that are neither ClientOSError nor ServerDisconnectedError (the base class, ClientConnectionResetError,
    ServerConnectionError) were NOT contained: they killed the root task "poster of events" and with it the operator.
    """
    scenario = ['sent', 'failures'][vc.nondet(2, 'scenario: what is sent / which failures are contained')]
    logger = _RecLogger(vc)
    posting = Opaque('posting', event_name_prefix=Opaque('prefix'), reporting_component=Opaque('component'),
                     reporting_instance=Opaque('instance'))
    settings = Opaque('settings', posting=posting)
    etype, reason, url = Opaque('type'), Opaque('reason'), Opaque('url')
    resource = Opaque('resource')
    resource.get_url = lambda *a, **kw: (vc.emit('get_url', a, kw), url)[1]
    UNASKED = Opaque('default namespace not asked for')
    st = dict(thrown=None, default=UNASKED)

    # ---- the inputs
    ref = {'name': Opaque('name'), 'uid': Opaque('uid')}
    if scenario == 'sent':
        if vc.nondet(2, 'ref.apiVersion: absent / present') == 1:
            ref['apiVersion'] = vc.str('ref.apiVersion')
        if vc.nondet(2, 'ref.kind: absent / present') == 1:
            ref['kind'] = vc.str('ref.kind')
        if vc.nondet(2, 'ref.namespace: absent / present') == 1:
            ref['namespace'] = vc.str('ref.namespace')
        mk = vc.nondet(2, 'message: omitted / given')
        n = vc.int('len(message)') if mk == 1 else 0
        if mk == 1:
            vc.assume(n >= 0, 'a length')
        message = '' if mk == 0 else (_pattern(n) if vc.concrete else _Text([('src', 0, n)]))
        reps = [errors.APIError]
    else:
        ref.update(apiVersion='kopf.dev/v1', kind='KopfExample', namespace='ns1')
        mk, n, message = 1, 5, 'hello'
        reps = _post_failure_reps()
    ref0 = dict(ref)

    async def get_default_namespace():
        vc.emit('get_default_namespace')
        await suspend('get_default_namespace')
        st['default'] = vc.opt('default_namespace', vc.str)
        return st['default']

    async def post(*args, **kw):
        vc.emit('post', args, kw)
        await suspend('api.post')
        k = vc.nondet(1 + len(reps), 'api.post: created / raises')
        if k > 0:
            st['thrown'] = _mk(reps[k - 1], status=[503, 422][vc.nondet(2, 'status')] if scenario == 'sent' else 500)
            raise st['thrown']
        return Opaque('created-event')
    vc.used('api.post', 'N5'); vc.used('api.get_default_namespace', 'NC6'); vc.used('references.Resource.get_url', 'O11d')
    ld = vc.load('kopf._cogs.clients.events', 'post_event', stubs={'api.post': post, 'api.get_default_namespace': get_default_namespace})
    kw = dict(ref=ref, type=etype, reason=reason, resource=resource, settings=settings, logger=logger)
    if mk == 1:
        kw['message'] = message
    result = raised = None
    try:
        result = vc.drive(ld.fn(**kw))
    except BaseException as e:
        if _ours(e):
            raise
        raised = e
    posts = [ev for ev in vc.trace if ev[0] == 'post']
    logs = [ev for ev in vc.trace if ev[0] == 'log' and ev[1] in ('warning', 'error', 'exception', 'critical')]
    vc.ensure('ref_not_modified', set(ref) == set(ref0) and all(ref[k] is ref0[k] for k in ref0))
    vc.canary('canary.never_raises', raised is None)
    vc.canary('canary.never_logs', not logs)

    # ---- the failures of the POST
    thrown = st['thrown']
    if thrown is not None:
        if isinstance(thrown, _POST_CONTAINED):
            escapes = not isinstance(thrown, (errors.APIError, aiohttp.ClientResponseError, aiohttp.ServerDisconnectedError, aiohttp.ClientOSError))
            vc.ensure('infrastructure_failures_contained', raised is None and result is None)      # F-C12-5 (fixed in repo 44a7137) was found here
            if raised is None:
                vc.ensure('contained_with_a_log_line', len(logs) >= 1)
        elif not isinstance(thrown, Exception) or type(thrown).__name__ == 'UnrelatedError':
            vc.ensure('other_failures_propagate', raised is thrown)
        else:
            vc.ensure('other_failures_propagate', raised is thrown or (raised is None and len(logs) >= 1))
        if scenario == 'failures':
            return ('post-failed', type(thrown).__name__, type(raised).__name__)
    elif scenario == 'failures':
        vc.ensure('other_failures_propagate', raised is None and result is None and not logs)
        return ('posted',)
    else:
        vc.ensure('other_failures_propagate', raised is None and result is None)
    if raised is not None:
        return ('raised', type(raised).__name__)

    # ---- what is sent
    for_event = And(Eq(ref['apiVersion'], 'v1') if 'apiVersion' in ref else False, Eq(ref['kind'], 'Event') if 'kind' in ref else False)
    vc.canary('canary.always_posts', len(posts) == 1)
    vc.ensure('no_events_for_events', Iff(for_event, len(posts) == 0))
    vc.ensure('one_post_to_the_events_of_the_namespace', len(posts) <= 1)
    if len(posts) != 1:
        return ('skipped', len(posts))
    got = dict(zip(['url'], posts[0][1]), **posts[0][2])
    body = got.get('payload')
    urls = [ev for ev in vc.trace if ev[0] == 'get_url']
    default = None if st['default'] is UNASKED else st['default']
    own = ref.get('namespace')
    want_ns = If(_nonempty(own), own, If(_nonempty(default), default, 'default')) if own is not None else \
        (If(_nonempty(default), default, 'default') if default is not None else 'default')
    vc.ensure('one_post_to_the_events_of_the_namespace', len(urls) == 1 and urls[0][1] == () and set(urls[0][2]) == {'namespace'}
              and got.get('url') is url and got.get('settings') is settings and got.get('logger') is logger
              and got.get('headers') == {'Content-Type': 'application/json'}
              and set(got) == {'url', 'settings', 'logger', 'headers', 'payload'} and isinstance(body, dict))
    if len(urls) != 1 or not isinstance(body, dict) or not isinstance(body.get('metadata'), dict) or not isinstance(body.get('involvedObject'), dict):
        return ('malformed',)
    vc.ensure('namespace_fallback', Eq(urls[0][2].get('namespace'), want_ns))
    vc.ensure('namespace_fallback', Eq(body['metadata'].get('namespace'), want_ns))
    vc.ensure('namespace_fallback', Eq(body['involvedObject'].get('namespace'), want_ns))
    vc.canary('canary.namespace_always_default', Eq(body['metadata'].get('namespace'), 'default'))
    inv = body['involvedObject']
    vc.ensure('involved_object_is_the_ref', inv is not ref and set(inv) == set(ref0) | {'namespace'}
              and all(inv[k] is ref0[k] for k in ref0 if k != 'namespace'))
    vc.ensure('event_fields', body.get('type') is etype and body.get('reason') is reason
              and body['metadata'].get('generateName') is posting.event_name_prefix
              and body.get('reportingComponent') is posting.reporting_component
              and body.get('reportingInstance') is posting.reporting_instance
              and isinstance(body.get('source'), dict) and body['source'].get('component') is posting.reporting_component)
    stamps = [body.get(k) for k in ('firstTimestamp', 'lastTimestamp', 'eventTime')]
    vc.ensure('event_fields', all(isinstance(s, str) and s == stamps[0] for s in stamps)
              and datetime.datetime.fromisoformat(stamps[0]).utcoffset() == datetime.timedelta(0))
    sent = body.get('message')
    vc.ensure('message_within_the_limit', spec_message_cut(vc, sent, message, n))
    vc.canary('canary.never_cut', sent is message)
    return ('sent', mk, type(thrown).__name__)


# ================================================================================================ NC5
_ABSENT = Opaque('<absent>')


@harness('NC5', targets='kopf._cogs.clients.creating.create_obj', props=['C12'],
         clauses=['one_post_to_the_collection', 'body_wins_over_arguments', 'rest_of_the_body_kept', 'returns_the_created_object',
                  'failures_propagate'],
         canaries=['canary.never_fails', 'canary.always_namespaced', 'canary.arguments_always_used'],
         trusted=['api.post by contract N5', 'Resource.get_url by contract O11d (deductive; O11 bounded for the quoting)'])
def NC5(vc):
    """
    creating.create_obj(settings, resource, namespace=None, name=None, body=None, logger): exactly ONE api.post of the object
    to the resource's collection URL (no name, no subresource in it), for every combination of body {omitted, None, {},
    with/without metadata, with/without its own namespace/name, with other fields} x namespace/name {omitted, None, '', given}:
      * the object posted has metadata.namespace / metadata.name = the body's own where the body has them, else the
        arguments where they are given (not None; an EMPTY string names nothing: it may be posted as '' or left out),
        else none at all (no metadata is invented for a bare call);
        every other field of the body is posted unchanged;
      * the URL is resource.get_url(namespace = the posted object's metadata.namespace, None if it has none): the object
        is created in the namespace it says it is in;
      * the result is what the API returned; C12: every failure propagates unchanged -- the caller (admission's
        configuration manager) tells 409 Conflict ("exists already") from 403 Forbidden by the class; nothing is retried
        or swallowed here.
    """
    settings, logger, url, created = Opaque('settings'), _RecLogger(vc), Opaque('url'), Opaque('created-object')
    resource = Opaque('resource')
    resource.get_url = lambda *a, **kw: (vc.emit('get_url', a, kw), url)[1]
    ns_b, name_b, spec = Opaque('body-namespace'), Opaque('body-name'), Opaque('spec')
    shape = vc.nondet(8, 'body: omitted / None / {} / metadata {} / own namespace / own name / both + spec / spec only')
    body = [_ABSENT, None, {}, {'metadata': {}}, {'metadata': {'namespace': ns_b}}, {'metadata': {'name': name_b, 'labels': spec}},
            {'metadata': {'namespace': ns_b, 'name': name_b}, 'spec': spec}, {'spec': spec}][shape]
    arg_ns = [_ABSENT, None, '', Opaque('arg-namespace')][vc.nondet(4, 'namespace: omitted / None / empty / given')]
    arg_name = [_ABSENT, None, '', Opaque('arg-name')][vc.nondet(4, 'name: omitted / None / empty / given')]
    orig = copy.deepcopy(body) if isinstance(body, dict) else {}
    orig_md = orig.get('metadata', {})
    # deepcopy re-creates the Opaque leaves: compare through their names
    same = lambda a, b: (a is b) or (isinstance(a, Opaque) and isinstance(b, Opaque) and a._name == b._name)
    reps = exception_reps([errors.APIConflictError, errors.APIForbiddenError, errors.APIError], with_base=False) \
        + [aiohttp.ClientConnectionError, asyncio.CancelledError]
    st = dict(thrown=None)

    async def post(*args, **kw):
        vc.emit('post', args, kw)
        await suspend('api.post')
        k = vc.nondet(1 + len(reps), 'api.post: created / raises')
        if k > 0:
            st['thrown'] = _mk(reps[k - 1], status=409)
            raise st['thrown']
        return created
    vc.used('api.post', 'N5'); vc.used('references.Resource.get_url', 'O11d')
    ld = vc.load('kopf._cogs.clients.creating', 'create_obj', stubs={'api.post': post})
    kw = dict(settings=settings, resource=resource, logger=logger)
    for k, v in (('body', body), ('namespace', arg_ns), ('name', arg_name)):
        if v is not _ABSENT:
            kw[k] = v
    result = raised = None
    try:
        result = vc.drive(ld.fn(**kw))
    except BaseException as e:
        if _ours(e):
            raise
        raised = e
    posts = [ev for ev in vc.trace if ev[0] == 'post']
    urls = [ev for ev in vc.trace if ev[0] == 'get_url']
    vc.ensure('one_post_to_the_collection', len(posts) == 1 and len(urls) == 1)
    if len(posts) != 1 or len(urls) != 1:
        return ('no-single-post', len(posts), type(raised).__name__)
    got = dict(zip(['url'], posts[0][1]), **posts[0][2])
    sent = got.get('payload')
    vc.ensure('one_post_to_the_collection', got.get('url') is url and got.get('settings') is settings and got.get('logger') is logger
              and set(got) == {'url', 'settings', 'logger', 'payload'} and isinstance(sent, dict)
              and urls[0][1] == () and set(urls[0][2]) == {'namespace'})
    if not isinstance(sent, dict):
        return ('malformed',)
    md = sent.get('metadata', _ABSENT)
    given = lambda a: a is not _ABSENT and a is not None
    # an EMPTY namespace/name argument names nothing: whether it is posted as '' or left out is not this contract's business
    wanted = lambda own, arg: [orig_md[own]] if own in orig_md else ([arg] if given(arg) and arg != '' else
                                                                   ['', _ABSENT] if given(arg) else [_ABSENT])
    want_ns, want_name = wanted('namespace', arg_ns), wanted('name', arg_name)
    must_md = 'metadata' in orig or _ABSENT not in want_ns or _ABSENT not in want_name
    may_md = must_md or want_ns != [_ABSENT] or want_name != [_ABSENT]
    vc.ensure('body_wins_over_arguments', isinstance(md, dict) if must_md else (md is _ABSENT or (may_md and isinstance(md, dict))))
    md = md if isinstance(md, dict) else {}
    vc.ensure('body_wins_over_arguments', any(same(md.get('namespace', _ABSENT), w) for w in want_ns)
              and any(same(md.get('name', _ABSENT), w) for w in want_name))
    vc.canary('canary.arguments_always_used', not given(arg_ns) or md.get('namespace', _ABSENT) is arg_ns)
    vc.ensure('rest_of_the_body_kept', set(sent) - {'metadata'} == set(orig) - {'metadata'}
              and all(same(sent[k], orig[k]) for k in orig if k != 'metadata')
              and set(md) - {'namespace', 'name'} == set(orig_md) - {'namespace', 'name'}
              and all(same(md[k], orig_md[k]) for k in orig_md if k not in ('namespace', 'name')))
    url_ns = urls[0][2].get('namespace', _ABSENT)
    vc.ensure('one_post_to_the_collection', url_ns is md.get('namespace', None))
    vc.canary('canary.always_namespaced', url_ns is not None)
    vc.canary('canary.never_fails', raised is None)
    if st['thrown'] is not None:
        vc.ensure('failures_propagate', raised is st['thrown'])
        return ('raised', type(raised).__name__)
    vc.ensure('failures_propagate', raised is None)
    vc.ensure('returns_the_created_object', result is created)
    return ('created', shape)


# ================================================================================================ NC6
_SERVERS = [('https://k8s.example.com:6443', 'k8s.example.com', 6443), ('https://k8s.example.com', 'k8s.example.com', 443),
            ('https://10.1.2.3:443/', '10.1.2.3', 443), ('https://[::1]:8443', '::1', 8443),
            ('https://K8S.Example.com/some/path', 'k8s.example.com', 443), ('http://localhost:8080/', 'localhost', 8080)]


@harness('NC6', targets=['kopf._cogs.clients.api.get_default_namespace', 'kopf._cogs.clients.api.read_sslcert',
                         'kopf._cogs.clients.scanning.read_version'], props=['C12'],
         clauses=['authenticated', 'ns.of_the_current_credentials', 'cert.of_the_api_server', 'cert.not_on_the_event_loop',
                  'version.one_get', 'failures_propagate', 'no_context_refused'],
         canaries=['canary.never_fails', 'canary.always_a_namespace', 'canary.always_443'],
         trusted=['auth.authenticated by contract N3: calls the function with context= the APIContext of the selected credentials, '
                  're-authenticates on 401', 'api.get by contract N5', 'urllib.parse.urlparse (real library code, run natively '
                  'on 6 concrete server URLs)', 'loop.run_in_executor(executor, fn, *args): runs fn(*args) in the executor '
                  '(None = the default thread pool) and gives its result or raises its exception',
                  'ssl.get_server_certificate((host, port)) -> the PEM text (not run)'])
def NC6(vc):
    """
    The three smallest client functions.
    api.get_default_namespace(): decorated with @auth.authenticated (so it runs under the current credentials and a 401
      re-authenticates, N3); returns the default namespace OF THOSE credentials, as it is (None and '' incl.: post_event,
      NC4, falls back to "default" then); without an injected context it refuses (RuntimeError), it never guesses.
    api.read_sslcert(): decorated likewise; returns (host, certificate) of the API server of the current credentials:
      host and port are those of context.server (port 443 if the URL names none; IPv6 literals without brackets); the
      blocking ssl.get_server_certificate((host, port)) runs in the default executor, never on the event loop (a slow
      or dead server must not freeze the operator: C12); the certificate is returned as ASCII bytes; failures propagate.
    scanning.read_version(settings, logger): ONE api.get('/version') with the caller's settings/logger; the parsed
      document is the result; failures propagate unchanged.
    """
    which = ['ns', 'cert', 'version'][vc.nondet(3, 'function: get_default_namespace / read_sslcert / read_version')]
    if which == 'version':
        settings, logger, doc = Opaque('settings'), _RecLogger(vc), Opaque('version-document')
        reps = [errors.APIError, aiohttp.ClientConnectionError, asyncio.CancelledError]
        st = dict(thrown=None)

        async def get(*args, **kw):
            vc.emit('get', args, kw)
            await suspend('api.get')
            k = vc.nondet(1 + len(reps), 'api.get: document / raises')
            if k > 0:
                st['thrown'] = _mk(reps[k - 1])
                raise st['thrown']
            return doc
        vc.used('api.get', 'N5')
        ld = vc.load('kopf._cogs.clients.scanning', 'read_version', stubs={'api.get': get})
        result = raised = None
        try:
            result = vc.drive(ld.fn(settings=settings, logger=logger))
        except BaseException as e:
            if _ours(e):
                raise
            raised = e
        gets = [ev for ev in vc.trace if ev[0] == 'get']
        vc.ensure('version.one_get', len(gets) == 1)
        got = dict(zip(['url'], gets[0][1]), **gets[0][2])
        vc.ensure('version.one_get', got.get('url') == '/version' and got.get('settings') is settings and got.get('logger') is logger
                  and set(got) == {'url', 'settings', 'logger'})
        vc.canary('canary.never_fails', raised is None)
        if st['thrown'] is not None:
            vc.ensure('failures_propagate', raised is st['thrown'])
            return ('version', 'raised', type(raised).__name__)
        vc.ensure('failures_propagate', raised is None)
        vc.ensure('version.one_get', result is doc)
        return ('version', 'ok')

    fname = 'get_default_namespace' if which == 'ns' else 'read_sslcert'
    ld = vc.load('kopf._cogs.clients.api', fname, strip_decorators=_STRIP_DEFAULT + ('auth.authenticated',))
    # the function as the module really exports it: wrapped by auth.authenticated (functools.wraps leaves __wrapped__)
    import importlib
    from kopf._cogs.clients import auth
    exported = getattr(importlib.import_module('kopf._cogs.clients.api'), fname)
    marker = getattr(auth.authenticated(ld.fn), '__code__', None)
    vc.ensure('authenticated', getattr(exported, '__wrapped__', None) is not None and getattr(exported, '__code__', None) is not None
              and marker is not None and exported.__code__.co_code == marker.co_code
              and exported.__wrapped__.__code__.co_name == fname)
    with_context = vc.nondet(2, 'context: not injected / injected') == 1
    result = raised = None
    if which == 'ns':
        dn = [None, '', 'ns-of-the-credentials'][vc.nondet(3, 'default namespace: None / empty / some')] if with_context else None
        context = Opaque('context', default_namespace=dn) if with_context else None
        try:
            result = vc.drive(ld.fn(context=context) if with_context else ld.fn())
        except BaseException as e:
            if _ours(e):
                raise
            raised = e
        vc.canary('canary.never_fails', raised is None)
        if not with_context:
            vc.ensure('no_context_refused', isinstance(raised, RuntimeError))
            return ('ns', 'refused')
        vc.ensure('ns.of_the_current_credentials', raised is None and result is dn)
        vc.canary('canary.always_a_namespace', bool(result))
        return ('ns', result)

    server, host, port = _SERVERS[vc.nondet(len(_SERVERS), 'context.server')]
    context = Opaque('context', server=server) if with_context else None
    st = dict(thrown=None, on_loop=False)

    def get_server_certificate(*a, **kw):
        st['on_loop'] = True            # called directly by the function under contract = on the event loop
        return 'PEM'

    class Loop:
        async def run_in_executor(self, executor, fn, *args):
            vc.emit('run_in_executor', executor, fn, args)
            await suspend('run_in_executor')
            if vc.nondet(2, 'get_server_certificate: a PEM text / fails') == 1:
                st['thrown'] = OSError('connection refused')
                raise st['thrown']
            return '-----BEGIN CERTIFICATE-----\nMIIB\n-----END CERTIFICATE-----\n'
    ld2 = vc.load('kopf._cogs.clients.api', fname, strip_decorators=_STRIP_DEFAULT + ('auth.authenticated',),
                  stubs={'asyncio.get_running_loop': lambda: Loop(), 'asyncio.get_event_loop': lambda: Loop(),
                         'ssl.get_server_certificate': get_server_certificate})
    try:
        result = vc.drive(ld2.fn(context=context) if with_context else ld2.fn())
    except BaseException as e:
        if _ours(e):
            raise
        raised = e
    vc.canary('canary.never_fails', raised is None)
    if not with_context:
        vc.ensure('no_context_refused', isinstance(raised, RuntimeError) and 'run_in_executor' not in _names(vc))
        return ('cert', 'refused')
    runs = [ev for ev in vc.trace if ev[0] == 'run_in_executor']
    vc.ensure('cert.not_on_the_event_loop', len(runs) == 1 and runs[0][1] is None and runs[0][2] is get_server_certificate
              and not st['on_loop'])
    if len(runs) == 1:
        vc.ensure('cert.of_the_api_server', runs[0][3] == ((host, port),))
        vc.canary('canary.always_443', runs[0][3] == ((host, 443),))
    if st['thrown'] is not None:
        vc.ensure('failures_propagate', raised is st['thrown'])
        return ('cert', 'raised')
    vc.ensure('failures_propagate', raised is None)
    vc.ensure('cert.of_the_api_server', isinstance(result, tuple) and len(result) == 2 and result[0] == host
              and result[1] == b'-----BEGIN CERTIFICATE-----\nMIIB\n-----END CERTIFICATE-----\n')
    return ('cert', host, port)
