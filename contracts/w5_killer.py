"""Round-10 contract: daemons.daemon_killer once more, WITHOUT loop contracts.

D3 (c09_daemons.py) cuts the killer's six loops by loop contracts: unbounded, but anchored to the loop structure -- a
restructured killer (the loops moved into a helper generator: seeded C20-10) leaves D3 undecided.  D3n runs the REAL
loops natively over REAL dicts of a stated small size -- the real `ResourceMemories.iter_all_daemon_memories` generator
over a real `_items` dict included -- and lets the other tasks do to those dicts, at every suspension point of the
killer, what they really do: a runner deletes its own entry, a worker forgets a deleted object or recalls a new one.
Whatever the loop structure, CPython itself raises "dictionary changed size during iteration" when a live view is
stepped after such a change.  Proved for the stated sizes only (2..3 objects with 1..2 daemons each)."""
import asyncio

from pyvc import *
from pyvc.stubs import Opaque, NullLogger

from kopf._core.engines import daemons
from kopf._core.intents import stoppers
from kopf._core.reactor import inventory

SR = stoppers.DaemonStoppingReason


@harness('D3n', targets=['kopf._core.engines.daemons.daemon_killer', 'kopf._core.reactor.inventory.ResourceMemories.iter_all_daemon_memories'],
         props=['C20', 'C13'], sizes_only=True,
         clauses=['killer.ends_by_cancellation_only', 'killer.exit_stops_every_running_daemon',
                  'killer.pause_stops_every_running_daemon', 'killer.waits_then_closes', 'killer.stoppers_only_for_known_daemons'],
         canaries=['canary.nobody_interferes', 'canary.never_closes'],
         trusted=['aiotasks.Scheduler: spawn(coro) takes ownership and suspends; wait() returns when all spawned coroutines have '
                  'finished; close() cancels the rest',
                  'aiotoggles.ToggleSet: is_on() reads the shared pause state; wait_for(s) returns when the state is s',
                  'asyncio.timeout(t): a context manager (the deadline does not fire in these scenarios)',
                  'daemons.stop_daemon by contract D2 (here: recorded)',
                  'CPython dict semantics: stepping a live dict view after the dict changed size raises RuntimeError'],
         assumes=['2..3 objects in the inventory, each with 1..2 running daemons; at every suspension of the killer at most one '
                  'interference by another task (at most two in a run): a runner deletes its own entry of running_daemons, a worker forgets an object '
                  '(DELETED event) or recalls a new one (first event of a new object) -- inventory.ResourceMemories.forget/recall '
                  'by contract V1 (they delete / insert one entry of _items)',
                  'the killer is cancelled once, while it waits for the pause toggle (operator exit); in the pause scenario the '
                  'operator is paused once and resumed before the exit'])
def D3n(vc):
    """
    daemon_killer with its loops run natively (see the module docstring), in two scenarios: the operator exits while the
    killer waits for a pause; the operator pauses, the killer makes one stopping round, the operator resumes and exits.
    killer.ends_by_cancellation_only     whatever other tasks do to the inventory and to the objects' running_daemons
                        while the killer is suspended, the killer ends with the CancelledError of the operator's exit
                        and nothing else (a RuntimeError from a live dict view ends the root task with an error: the
                        operator goes down with it, the cleanup runs while daemons still run);
    killer.exit_stops_every_running_daemon  at exit every daemon that is still registered when the killer closes its
                        scheduler got stop_daemon(reason=OPERATOR_EXITING) scheduled, unless its object joined the inventory
                        after the killer had looked (a daemon that deregistered itself has exited: nothing to stop);
    killer.pause_stops_every_running_daemon  likewise for the stopping round of a pause, with OPERATOR_PAUSING;
    killer.waits_then_closes             the scheduler is awaited after the last stopper and closed after that;
    killer.stoppers_only_for_known_daemons  every stopper is for a daemon record of the inventory, with these settings.
    """
    settings = Opaque('settings')
    mems = inventory.ResourceMemories()
    n_obj = 2 + vc.nondet(2, 'two or three objects')
    all_daemons = {}

    def mk_memory(tag, n_d):
        m = inventory.ResourceMemory(daemons_memory=daemons.DaemonsMemory(idle_reset_time=0.0))
        for j in range(n_d):
            h = Opaque(f'handler-{tag}-{j}', id=f'{tag}-{j}')
            d = daemons.Daemon(task=Opaque('task'), logger=NullLogger(), handler=h, stopper=Opaque('stopper'))
            m.daemons_memory.running_daemons[h.id] = d
            all_daemons[id(d)] = d
        return m

    for i in range(n_obj):
        mems._items[f'uid{i}'] = mk_memory(f'o{i}', 1 + vc.nondet(2, f'object {i}: one or two daemons'))
    initial = dict(mems._items)
    g = Opaque('ghost', interfered=0, paused=False, cancelled=False, late=set(), seen_close=False)
    scenario = ['exit', 'pause'][vc.nondet(2, 'exit while waiting | pause, one round, resume, exit')]

    def interfere(site):
        """what other tasks do while the killer is suspended (at most once per suspension)"""
        if g.interfered >= 2:
            return
        k = vc.nondet(4, f'{site}: nobody interferes / a runner deregisters / an object is forgotten / a new object is recalled')
        if k == 0:
            return
        g.interfered += 1
        if k == 1:
            for m in mems._items.values():
                rd = m.daemons_memory.running_daemons
                if rd:
                    del rd[next(iter(rd))]                   # _runner: `del daemons[handler.id]` (D1.removal_last)
                    return
        elif k == 2:
            if mems._items:
                del mems._items[next(iter(mems._items))]     # ResourceMemories.forget (V1)
        else:
            key = f'new{g.interfered}'
            mems._items[key] = mk_memory(key, 1)             # ResourceMemories.recall of a first-seen object (V1)
            g.late.add(key)

    class Scheduler:
        def __init__(self, *a, **kw):
            pass

        async def spawn(self, coro, name=None):
            vc.emit('spawn', coro)
            await suspend('scheduler.spawn')
            interfere('scheduler.spawn')

        async def wait(self):
            vc.emit('sched.wait')
            await suspend('scheduler.wait')

        async def close(self):
            vc.emit('sched.close', {k: dict(m.daemons_memory.running_daemons) for k, m in mems._items.items()})
            await suspend('scheduler.close')

        def empty(self):
            return True

    class Toggle:
        def is_on(self):
            return g.paused

        def is_off(self):
            return not g.paused

        async def wait_for(self, state):
            vc.emit('wait_for', state)
            await suspend('operator_paused.wait_for')
            if state:
                if scenario == 'pause' and not g.paused and not getattr(g, 'resumed', False):
                    g.paused = True
                    vc.emit('paused', {k: dict(m.daemons_memory.running_daemons) for k, m in mems._items.items()})
                    return
                g.cancelled = True
                raise asyncio.CancelledError()
            # waiting for the resumption: it comes
            vc.emit('round-done', {k: dict(m.daemons_memory.running_daemons) for k, m in mems._items.items()})
            g.paused = False
            g.resumed = True

    class Timeout:
        async def __aenter__(self):
            return self

        async def __aexit__(self, *a):
            return False

    def stop_daemon(**kw):
        return Opaque('stopper-coro', kw=kw)

    ld = vc.load('kopf._core.engines.daemons', 'daemon_killer', stubs={
        'aiotasks.Scheduler': Scheduler, 'stop_daemon': stop_daemon, 'asyncio.timeout': lambda delay: Timeout(),
    })
    escaped = None
    try:
        vc.drive(ld.fn(settings=settings, memories=mems, operator_paused=Toggle()), lambda site: None)
    except BaseException as e:
        if isinstance(e, (PathEnd, Unsupported)):
            raise
        escaped = e
    vc.canary('canary.nobody_interferes', g.interfered == 0)
    vc.ensure('killer.ends_by_cancellation_only', isinstance(escaped, asyncio.CancelledError) and g.cancelled)
    names = [e[0] for e in vc.trace]
    vc.canary('canary.never_closes', 'sched.close' not in names)
    if not isinstance(escaped, asyncio.CancelledError):
        return ('killer', type(escaped).__name__)
    spawns = [(i, e[1]) for i, e in enumerate(vc.trace) if e[0] == 'spawn']
    for _, c in spawns:
        kw = getattr(c, 'kw', {})
        vc.ensure('killer.stoppers_only_for_known_daemons', id(kw.get('daemon')) in all_daemons and kw.get('settings') is settings
                  and kw.get('reason') in (SR.OPERATOR_EXITING, SR.OPERATOR_PAUSING))
    vc.ensure('killer.waits_then_closes', names.count('sched.close') == 1 and 'sched.wait' in names)
    if names.count('sched.close') == 1 and 'sched.wait' in names:
        i_close = names.index('sched.close')
        i_wait = max(i for i, n in enumerate(names) if n == 'sched.wait')
        vc.ensure('killer.waits_then_closes', i_wait < i_close and all(i < i_wait for i, _ in spawns))

        def covered(snapshot, reason, since, until):
            told = {id(c.kw.get('daemon')) for i, c in spawns if since <= i < until and c.kw.get('reason') is reason}
            return all(id(d) in told for key, rd in snapshot.items() if key not in g.late for d in rd.values())
        i_cancel = max(i for i, n in enumerate(names) if n == 'wait_for')
        vc.ensure('killer.exit_stops_every_running_daemon', covered(vc.trace[i_close][1], SR.OPERATOR_EXITING, i_cancel, i_close))
        if scenario == 'pause':
            i_paused = names.index('paused') if 'paused' in names else None
            i_done = names.index('round-done') if 'round-done' in names else None
            vc.ensure('killer.pause_stops_every_running_daemon', i_paused is not None and i_done is not None)
            if i_paused is not None and i_done is not None:
                vc.ensure('killer.pause_stops_every_running_daemon', covered(vc.trace[i_done][1], SR.OPERATOR_PAUSING, i_paused, i_done))
        else:
            vc.ensure('killer.pause_stops_every_running_daemon', not any(c.kw.get('reason') is SR.OPERATOR_PAUSING for _, c in spawns))
    return ('killer', scenario, len(spawns), g.interfered)
