"""Contracts for kopf._core.intents.causes (K1) and kopf._cogs.structs.finalizers (K2)."""
from pyvc import *
from kopf._core.intents import causes


def first_of(*pairs):
    """Spec helper: the value of the first pair whose guard holds (the precedence list of C05)."""
    conds = []
    prior = []
    for guard, value in pairs:
        conds.append((And(guard, *[Not(p) for p in prior]), value))
        prior.append(guard)
    return conds


@harness('K1', targets='kopf._core.intents.causes.detect_changing_cause', props=['C05', 'C14', 'C03', 'C06', 'C15', 'C11', 'C13', 'C02', 'C04'],
         prop_clauses={'C11': ['precedence'], 'C13': ['precedence', 'create_clears_initial'], 'C02': ['precedence', 'passes_through'], 'C04': ['precedence', 'passes_through']},
         clauses=['precedence', 'create_clears_initial', 'passes_through', 'total'],
         canaries=['canary.never_update', 'canary.initial_kept_on_create'])
def K1(vc):
    """
    detect_changing_cause == the precedence list of the property statement, for every combination of
    event type, deletion mark, finalizer presence, stored state, diff emptiness and first-sight flag.
    Callees finalizers.is_deletion_ongoing/is_deletion_blocked are used by contract (K2): pure
    boolean functions of (body[, finalizer]).
    """
    ongoing = vc.bool('ongoing')
    blocked = vc.bool('blocked')
    calls = []

    def is_deletion_ongoing(body):
        calls.append(('ongoing', body)); return ongoing

    def is_deletion_blocked(body, finalizer):
        calls.append(('blocked', body, finalizer)); return blocked
    vc.used('finalizers.is_deletion_ongoing', 'K2'); vc.used('finalizers.is_deletion_blocked', 'K2')
    ld = vc.load('kopf._core.intents.causes', 'detect_changing_cause', stubs={
        'finalizers.is_deletion_ongoing': is_deletion_ongoing,
        'finalizers.is_deletion_blocked': is_deletion_blocked,
    })
    etype = vc.enum('type', [None, 'ADDED', 'MODIFIED', 'DELETED'])
    body = object()
    # stored/built essences: absent (None), EMPTY (an object with no spec/labels: falsy but stored!), non-empty
    old = vc.enum('old', [None, {}, {'spec': 1}])
    new = vc.enum('new', [None, {}, {'spec': 2}])
    diff_kind = vc.enum('diff', ['none', 'empty', 'nonempty'])
    diff = {'none': None, 'empty': (), 'nonempty': (('change', ('spec',), 1, 2),)}[diff_kind]
    initial = vc.bool('initial')
    raw_event = {'type': etype, 'object': {}}
    kw = dict(finalizer='fin', raw_event=raw_event, body=body, old=old, new=new, initial=initial,
              resource='RES', indices='IDX', logger='LOG', patch='PATCH', memo='MEMO')
    if diff is not None:
        kw['diff'] = diff
    res = ld.fn(**kw)

    R = causes.Reason
    nodiff = not diff
    spec = first_of((etype == 'DELETED', R.GONE),
                    (And(ongoing, Not(blocked)), R.FREE),
                    (ongoing, R.DELETE),
                    (old is None, R.CREATE),
                    (And(nodiff, initial), R.RESUME),
                    (nodiff, R.NOOP),
                    (True, R.UPDATE))
    vc.ensure('total', isinstance(res, causes.ChangingCause) and isinstance(res.reason, R))
    for guard, reason in spec:
        vc.ensure('precedence', Implies(guard, res.reason is reason))
    vc.ensure('create_clears_initial', Implies(res.reason is R.CREATE, Eq(res.initial, False)))
    vc.ensure('create_clears_initial', Implies(res.reason is not R.CREATE, Eq(res.initial, initial)))
    vc.ensure('passes_through', res.body is body and res.old is old and res.new is new
              and res.resource == 'RES' and res.patch == 'PATCH' and res.memo == 'MEMO'
              and (res.diff is diff if diff is not None else not res.diff))
    for c in calls:
        vc.ensure('passes_through', c[1] is body and (c[0] == 'ongoing' or c[2] == 'fin'))
    vc.canary('canary.never_update', res.reason is not R.UPDATE)
    vc.canary('canary.initial_kept_on_create', Eq(res.initial, initial))
    return ('return', res.reason, res.initial)


# ----------------------------------------------------------------------------------------------- K2
def wf_body(vc, body):
    """Precondition on watched bodies: a JSON object whose `metadata`, if present, is an object,
    and whose `metadata.finalizers`, if present, is a list (Kubernetes guarantees more)."""
    import z3
    from pyvc.values import J
    t = body.term
    md = z3.Select(J.fields(t), z3.StringVal('metadata'))
    fin = z3.Select(J.fields(md), z3.StringVal('finalizers'))
    vc.assume(J.is_JObj(t), 'body is an object')
    vc.assume(z3.Or(J.is_JAbsent(md), J.is_JObj(md)), 'metadata is an object if present')
    vc.assume(z3.Implies(J.is_JObj(md), z3.Or(J.is_JAbsent(fin), J.is_JList(fin))), 'finalizers is a list if present')
    vc.assume(z3.Implies(J.is_JList(fin), z3.Not(z3.Contains(J.items(fin), z3.Unit(J.JAbsent)))),
              'list elements are JSON values (the "absent" marker of the encoding is not one)')


def spec_ongoing(body):
    """metadata.deletionTimestamp is present and not null."""
    import z3
    from pyvc.values import J, SBool
    md = z3.Select(J.fields(body.term), z3.StringVal('metadata'))
    ts = z3.Select(J.fields(md), z3.StringVal('deletionTimestamp'))
    return SBool(z3.And(J.is_JObj(md), z3.Not(J.is_JAbsent(ts)), z3.Not(J.is_JNull(ts))))


def spec_blocked(body, finalizer):
    import z3
    from pyvc.values import J, SBool, to_json_term
    md = z3.Select(J.fields(body.term), z3.StringVal('metadata'))
    fin = z3.Select(J.fields(md), z3.StringVal('finalizers'))
    return SBool(z3.And(J.is_JObj(md), J.is_JList(fin), z3.Contains(J.items(fin), z3.Unit(to_json_term(finalizer)))))


@harness('K2', targets=['kopf._cogs.structs.finalizers.is_deletion_ongoing', 'kopf._cogs.structs.finalizers.is_deletion_blocked'],
         props=['C05', 'C06', 'C03', 'C09', 'C14', 'C15'], clauses=['ongoing', 'blocked', 'pure'], canaries=['canary.always_ongoing'],
         assumes=['bodies.Body is a transparent read-only mapping view of the raw JSON object (dicts.MappingView): body.get(k, d) == raw.get(k, d)'])
def K2(vc):
    """The two finalizer predicates are exactly the JSON facts the property names: deletion mark =
    non-null metadata.deletionTimestamp; held = the finalizer string is an element of metadata.finalizers."""
    body = vc.json('body')
    if vc.concrete:
        body = _strip_absent(body)
    else:
        wf_body(vc, body)
    finalizer = vc.str('finalizer')
    before = body.term if not vc.concrete else repr(body)
    which = vc.nondet(2, 'function')
    if which == 0:
        ld = vc.load('kopf._cogs.structs.finalizers', 'is_deletion_ongoing')
        r = ld.fn(body)
        if not vc.concrete:
            vc.ensure('ongoing', Iff(r, spec_ongoing(body)))
            vc.canary('canary.always_ongoing', r)
    else:
        ld = vc.load('kopf._cogs.structs.finalizers', 'is_deletion_blocked')
        r = ld.fn(body, finalizer)
        if not vc.concrete:
            vc.ensure('blocked', Iff(r, spec_blocked(body, finalizer)))
    if not vc.concrete:
        import z3
        vc.ensure('pure', SBool(body.term == before))
    else:
        vc.ensure('pure', repr(body) == before)
    return ('return', which, r)


def _strip_absent(x):
    """Concrete JSON from a model: drop <absent> markers and the 'every other key' default."""
    from pyvc.values import Absent
    if isinstance(x, dict):
        return {k: _strip_absent(v) for k, v in x.items() if not isinstance(v, Absent) and k != '<every-other-key>'}
    if isinstance(x, list):
        return [_strip_absent(v) for v in x]
    return x
