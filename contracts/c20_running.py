"""Contracts for C20 "operator lifecycle: startup first, fail-fast, cleanup last, bounded exit":
S3 (aiotasks.guard/cancel_coro), U1 (running.spawn_tasks), U2 (running.startup_cleanup_activities),
U2a (activities.run_activity), U3 (running.run_tasks), S4/S4w/S4r (aiotasks.stop/wait/reraise)."""
import asyncio

from pyvc import *
from pyvc.loader import _STOP
from pyvc.stubs import Opaque, NullLogger
from kopf._cogs.aiokits import aiotasks
from kopf._core.actions import execution, lifecycles
from kopf._core.engines import activities
from kopf._core.intents import causes


class _Other(Exception):
    """an arbitrary exception unrelated to the framework's classes"""


class _BaseOther(BaseException):
    """an arbitrary non-Exception BaseException (SystemExit-like)"""


def names_of(tr):
    return [ev[0] for ev in tr]


def first(names, n):
    return names.index(n) if n in names else None


# =============================================================================================== S3
class GhostCoro:
    """The guarded coroutine: its first step, its end and its closing are recorded on the ghost trace."""
    def __init__(self, vc, behaviour):
        self.vc, self.behaviour, self.started, self.error = vc, behaviour, False, None

    def __await__(self):
        self.started = True
        self.vc.emit('coro.started', self)
        yield Suspend('coro.running')            # the body runs for a while; cancellation may arrive here
        if self.behaviour == 'raises':
            self.error = _Other('failed')
            raise self.error
        self.vc.emit('coro.finished', self)
        return 'result'

    def close(self):
        self.vc.emit('coro.closed', self, self.started)


class GhostFlag:
    """asyncio.Event by contract: wait() returns (True) only once the event is set; it suspends if it is not."""
    def __init__(self, vc, is_set):
        self.vc, self.state = vc, is_set

    async def wait(self):
        self.vc.emit('flag.wait.enter', self)
        if not self.state:
            await suspend('flag.wait')
            self.state = True
        self.vc.emit('flag.wait.return', self)
        return True

    def is_set(self):
        return self.state


@harness('S3', targets=['kopf._cogs.aiokits.aiotasks.guard', 'kopf._cogs.aiokits.aiotasks.cancel_coro'], props=['C20', 'C01', 'C03', 'C09', 'C12', 'C13', 'C17', 'C19'],
         clauses=['not_started_before_flag', 'cancelled_while_waiting_closed_unrun', 'outcome_propagates', 'waits_for_the_given_flag'],
         canaries=['canary.always_started', 'canary.never_fails'],
         trusted=['asyncio.Event.wait returns only when the event is set; coroutine.close() does not run the coroutine body'])
def S3(vc):
    """
    aiotasks.guard(coro, name, flag=...): the wrapped coroutine takes its first step only after
    flag.wait() -- of the very flag given -- has returned (or when no flag is given); a cancellation
    that arrives while waiting for the flag closes the coroutine without ever running it (cancel_coro,
    the real function, via coro.close()) and propagates; afterwards the coroutine's own outcome
    (return, error, cancellation) is the guard's outcome.
    """
    flag_kind = vc.nondet(3, 'flag: none / unset / already set')
    flag = None if flag_kind == 0 else GhostFlag(vc, flag_kind == 2)
    coro = GhostCoro(vc, ['returns', 'raises'][vc.nondet(2, 'coroutine returns / raises')])
    logger = NullLogger() if vc.nondet(2, 'logger given?') == 1 else None
    finishable, cancellable = vc.bool('finishable'), vc.bool('cancellable')
    inj = dict(waiting=None, running=None)

    def on_suspend(site):
        if site == 'flag.wait' and vc.nondet(2, 'cancelled while waiting for the flag?') == 1:
            inj['waiting'] = asyncio.CancelledError()
            return inj['waiting']
        if site == 'coro.running' and vc.nondet(2, 'cancelled while running?') == 1:
            inj['running'] = asyncio.CancelledError()
            return inj['running']
    ld_cc = vc.load('kopf._cogs.aiokits.aiotasks', 'cancel_coro')
    ld = vc.load('kopf._cogs.aiokits.aiotasks', 'guard', stubs={'cancel_coro': ld_cc.fn})
    escaped, result = None, 'unset'
    try:
        result = vc.drive(ld.fn(coro, 'task', flag=flag, finishable=finishable, cancellable=cancellable, logger=logger),
                          on_suspend=on_suspend)
    except BaseException as e:
        if isinstance(e, (PathEnd, Unsupported)):
            raise
        escaped = e
    tr = vc.trace
    names = names_of(tr)
    i_start, i_ret = first(names, 'coro.started'), first(names, 'flag.wait.return')
    vc.ensure('not_started_before_flag', i_start is None or flag is None or (i_ret is not None and i_ret < i_start))
    for ev in tr:
        if ev[0].startswith('flag.wait'):
            vc.ensure('waits_for_the_given_flag', ev[1] is flag)
    vc.ensure('waits_for_the_given_flag', flag is None or 'flag.wait.enter' in names)
    vc.canary('canary.always_started', i_start is not None)
    vc.canary('canary.never_fails', escaped is None)
    if inj['waiting'] is not None:
        closed = [ev for ev in tr if ev[0] == 'coro.closed']
        vc.ensure('cancelled_while_waiting_closed_unrun', i_start is None and not coro.started)
        vc.ensure('cancelled_while_waiting_closed_unrun', len(closed) == 1 and closed[0][1] is coro and closed[0][2] is False)
        vc.ensure('cancelled_while_waiting_closed_unrun', escaped is inj['waiting'])
        return ('cancelled-waiting', type(escaped).__name__)
    vc.ensure('not_started_before_flag', names.count('coro.started') == 1 and 'coro.closed' not in names)
    if inj['running'] is not None:
        vc.ensure('outcome_propagates', escaped is inj['running'])
    elif coro.behaviour == 'raises':
        vc.ensure('outcome_propagates', escaped is coro.error)
    else:
        vc.ensure('outcome_propagates', escaped is None and result is None and 'coro.finished' in names)
    return ('ran', type(escaped).__name__)


# =============================================================================================== U2
@harness('U2', targets='kopf._core.reactor.running.startup_cleanup_activities', props=['C20', 'C09', 'C11', 'C13', 'C03', 'C12'],
         prop_clauses={'C09': ['startup_then_started_then_ready'], 'C11': ['errors_propagate'], 'C13': ['cleanup_after_all_other_root_tasks', 'vault_closed_after_cleanup'], 'C03': ['startup_then_started_then_ready'], 'C12': ['core_tasks_outlive_root_tasks']},
         clauses=['startup_then_started_then_ready', 'failed_startup_releases_nothing', 'cleanup_after_all_other_root_tasks',
                  'core_tasks_always_stopped', 'core_tasks_outlive_root_tasks', 'errors_propagate', 'vault_closed_after_cleanup'],
         canaries=['canary.always_ready', 'canary.always_cleans_up'],
         trusted=['activities.run_activity by contract U2a', 'aiotasks.wait/stop/reraise by contracts S4w/S4/S4r',
                  'aioadapters.raise_flag raises the given flag', 'a fresh asyncio.Event().wait() never returns, it can only be cancelled'])
def U2(vc):
    """
    startup_cleanup_activities, as an ordering trace over every outcome of the startup activity
    (returns / ActivityError / other error / cancelled), of the sleep (cancelled = shutdown begins), of
    waiting for the other root tasks (done / cancelled), of stopping the core tasks (ok / a core task
    failed / cancelled) and of the cleanup activity:
      * run_activity(STARTUP) returns normally  <  started_flag.set()  <  raise_flag(ready_flag), each
        exactly once; nothing is released before;
      * if the startup raises (or is cancelled), started_flag is never set, the ready flag is never
        raised, no cleanup activity runs, and the call ends with an exception;
      * run_activity(CLEANUP) runs only after aiotasks.wait() over exactly all other root tasks (the
        live list at that moment, minus this task) has returned and after the core tasks were stopped;
      * once past the first statement, the core tasks are stopped on every path (finally);
      * an error of the startup/cleanup activity or of a core task is not swallowed;
      * the operator-wide cleanup "that garbage collection cannot do" (docstring): the vault (the API sessions) is
        closed once after the cleanup activity has returned, and never before the cleanup handlers -- the last
        activity that may use the API -- were run.
        core_tasks_outlive_root_tasks: after a successful startup the core tasks (the credentials retriever) are stopped only
    after the wait for the other root tasks was started and -- unless that wait itself is cancelled -- has returned: the
    root tasks can still re-authenticate while they wind down (C12).
    """
    me = Opaque('this-task')
    t1, t2, late = Opaque('root1'), Opaque('root2'), Opaque('root-added-later')
    root_tasks = [t1, me, t2]
    core_tasks = [Opaque('core1')]
    ready_flag = Opaque('ready_flag') if vc.nondet(2, 'ready_flag given?') == 1 else None
    started = dict(set=False)
    started_flag = Opaque('started_flag')
    started_flag.set = lambda: (started.__setitem__('set', True), vc.emit('started_flag.set'))[1]
    started_flag.is_set = lambda: started['set']
    registry, settings, indices, memo = Opaque('registry'), Opaque('settings'), Opaque('indices'), Opaque('memo')
    vault = Opaque('vault')
    errs = {}

    async def vault_close():
        vc.emit('vault.close')
    vault.close = vault_close

    async def run_activity(**kw):
        act = kw['activity']
        vc.emit('run_activity', act, kw)
        await suspend(f'run_activity:{act.value}')
        k = vc.nondet(3, f'{act.value}: returns / ActivityError / other error')
        if k == 1:
            errs[act] = activities.ActivityError('failed', outcomes={})
            raise errs[act]
        if k == 2:
            errs[act] = _Other('boom')
            raise errs[act]
        vc.emit('run_activity.returned', act)
        return {}

    async def raise_flag(flag):
        vc.emit('raise_flag', flag)

    class ForeverEvent:
        async def wait(self):
            vc.emit('sleep-forever')
            root_tasks.append(late)         # the list is live: tasks are added after this task was created
            await suspend('forever')
            raise AssertionError('a fresh event that nobody sets cannot be awaited to completion')

    async def wait(tasks, **kw):
        vc.emit('wait', set(tasks), kw)
        await suspend('aiotasks.wait')
        vc.emit('wait.returned')
        return set(tasks), set()

    async def stop(tasks, **kw):
        vc.emit('stop', list(tasks), kw)
        await suspend('aiotasks.stop')
        vc.emit('stop.returned')
        if vc.nondet(2, 'a core task had failed?') == 1:       # e.g. the authenticator died with an error
            errs['core'] = _Other('core task failed')
        return set(tasks), set()

    async def reraise(tasks):
        vc.emit('reraise', set(tasks))
        if 'core' in errs and core_tasks[0] in tasks:
            raise errs['core']
    cancelled_at = {}

    def on_suspend(site):
        if site == 'forever':
            cancelled_at[site] = asyncio.CancelledError()      # the only way out of the sleep
            return cancelled_at[site]
        if vc.nondet(2, f'cancelled at {site}?') == 1:
            cancelled_at[site] = asyncio.CancelledError()
            return cancelled_at[site]
    vc.used('activities.run_activity', 'U2a'); vc.used('aiotasks.wait', 'S4w'); vc.used('aiotasks.stop', 'S4'); vc.used('aiotasks.reraise', 'S4r')
    ld = vc.load('kopf._core.reactor.running', 'startup_cleanup_activities', stubs={
        'activities.run_activity': run_activity, 'aioadapters.raise_flag': raise_flag,
        'asyncio.Event': ForeverEvent, 'asyncio.current_task': lambda: me,
        'aiotasks.wait': wait, 'aiotasks.stop': stop, 'aiotasks.reraise': reraise, 'logger': NullLogger()})
    escaped = None
    try:
        vc.drive(ld.fn(root_tasks=root_tasks, core_tasks=core_tasks, ready_flag=ready_flag, started_flag=started_flag,
                       registry=registry, settings=settings, indices=indices, vault=vault, memo=memo), on_suspend=on_suspend)
    except BaseException as e:
        if isinstance(e, (PathEnd, Unsupported)):
            raise
        escaped = e
    tr = vc.trace
    names = names_of(tr)
    S, C = causes.Activity.STARTUP, causes.Activity.CLEANUP
    runs = [(i, ev[1]) for i, ev in enumerate(tr) if ev[0] == 'run_activity']
    returned = [(i, ev[1]) for i, ev in enumerate(tr) if ev[0] == 'run_activity.returned']
    i_startup_ok = next((i for i, a in returned if a is S), None)
    i_set, i_ready = first(names, 'started_flag.set'), first(names, 'raise_flag')
    # -- the very first activity is the startup, with the operator's registry/settings/indices/memo
    vc.ensure('startup_then_started_then_ready', len(runs) >= 1 and runs[0][1] is S and runs[0][0] == 0)
    for _, ev in [(i, tr[i]) for i, _ in runs]:
        kw = ev[2]
        vc.ensure('startup_then_started_then_ready', kw['registry'] is registry and kw['settings'] is settings
                  and kw['indices'] is indices and kw['memo'] is memo and kw['lifecycle'] is lifecycles.all_at_once)
    vc.ensure('startup_then_started_then_ready', names.count('started_flag.set') <= 1 and names.count('raise_flag') <= 1)
    vc.ensure('startup_then_started_then_ready', (i_set is not None) == (i_startup_ok is not None)
              and (i_ready is not None) == (i_startup_ok is not None))
    if i_startup_ok is not None:
        vc.ensure('startup_then_started_then_ready', i_startup_ok < i_set < i_ready and tr[i_ready][1] is ready_flag)
    vc.canary('canary.always_ready', i_ready is not None)
    # -- failed or cancelled startup: nothing is released, no cleanup, the call fails
    if i_startup_ok is None:
        vc.ensure('failed_startup_releases_nothing', not started['set'] and i_set is None and i_ready is None)
        vc.ensure('failed_startup_releases_nothing', all(a is S for _, a in runs) and len(runs) == 1)
        vc.ensure('failed_startup_releases_nothing', escaped is not None)
        if 'core' not in errs and 'aiotasks.stop' not in cancelled_at:
            vc.ensure('errors_propagate', escaped is (errs.get(S) or cancelled_at.get('run_activity:startup')))
    # -- the core tasks are stopped whatever happens
    stops = [i for i, ev in enumerate(tr) if ev[0] == 'stop']
    vc.ensure('core_tasks_always_stopped', len(stops) == 1 and tr[stops[0]][1] == core_tasks)
    # -- ... but not while the other root tasks still run: they talk to the API until they are gone, and the credentials
    #    retriever (a core task) is what re-authenticates them (C12: "a 401 triggers a re-authentication" holds during shutdown too)
    waits0 = [i for i, ev in enumerate(tr) if ev[0] == 'wait']
    wait_rets0 = [i for i, n in enumerate(names) if n == 'wait.returned']
    if i_startup_ok is not None and stops:
        vc.ensure('core_tasks_outlive_root_tasks', len(waits0) == 1 and waits0[0] < stops[0])
        if 'aiotasks.wait' not in cancelled_at:
            vc.ensure('core_tasks_outlive_root_tasks', len(wait_rets0) == 1 and wait_rets0[0] < stops[0])
    else:
        vc.ensure('core_tasks_outlive_root_tasks', not waits0)
    # -- cleanup strictly after all other root tasks are done and the core tasks stopped
    cleanups = [i for i, a in runs if a is C]
    vc.ensure('cleanup_after_all_other_root_tasks', len(cleanups) <= 1 and all(a in (S, C) for _, a in runs))
    vc.canary('canary.always_cleans_up', len(cleanups) == 1)
    waits = [i for i, ev in enumerate(tr) if ev[0] == 'wait']
    wait_rets = [i for i, n in enumerate(names) if n == 'wait.returned']
    stop_rets = [i for i, n in enumerate(names) if n == 'stop.returned']
    for i in cleanups:
        vc.ensure('cleanup_after_all_other_root_tasks', i_startup_ok is not None and len(waits) == 1 and len(wait_rets) == 1
                  and wait_rets[0] < i and len(stop_rets) == 1 and stop_rets[0] < i)
        if waits:
            vc.ensure('cleanup_after_all_other_root_tasks', tr[waits[0]][1] == {t1, t2, late} and not tr[waits[0]][2].get('timeout')
                      and tr[waits[0]][2].get('return_when', asyncio.ALL_COMPLETED) == asyncio.ALL_COMPLETED)
    if i_startup_ok is not None and not cleanups:
        # the only legitimate reasons to skip the cleanup handlers: cancellation of the waiting/stopping, a failed core task
        vc.ensure('cleanup_after_all_other_root_tasks', 'core' in errs or 'aiotasks.wait' in cancelled_at or 'aiotasks.stop' in cancelled_at)
    # -- errors are not swallowed
    if 'core' in errs:
        vc.ensure('errors_propagate', escaped is errs['core'])
    if C in errs:
        vc.ensure('errors_propagate', escaped is errs[C])
    if cleanups and C not in errs and 'run_activity:cleanup' not in cancelled_at:
        vc.ensure('errors_propagate', escaped is None)
    # -- the credentials outlive everything that may still talk to the API (the cleanup handlers are the last such thing)
    closes = [i for i, n in enumerate(names) if n == 'vault.close']
    i_cleanup_ok = next((i for i, a in returned if a is C), None)
    vc.ensure('vault_closed_after_cleanup', len(closes) <= 1 and all(cleanups and cleanups[0] < i for i in closes))
    if i_cleanup_ok is not None:
        vc.ensure('vault_closed_after_cleanup', len(closes) == 1 and i_cleanup_ok < closes[0])
    return ('escaped', type(escaped).__name__, len(cleanups))


# =============================================================================================== U1
class CoroMarker:
    """What a coroutine function of the operator returns when called (never run here)."""
    def __init__(self, fname, kw):
        self.fname, self.kw = fname, kw

    def __repr__(self):
        return f'<coro {self.fname}>'


# The only root activities that are NOT API-capable by design (statement of C20 / docs/startup.rst): they
# talk to no cluster -- the stop-flag waiter, the kill-switch timer and the startup/cleanup runner itself
# (which is the one that opens the gate).
EXEMPT = {'stop_flag_checker', 'ultimate_termination', 'startup_cleanup_activities'}
FACTORIES = {
    'stop_flag_checker': 'stop_flag_checker', 'ultimate_termination': 'ultimate_termination',
    'startup_cleanup_activities': 'startup_cleanup_activities',
    'daemons.daemon_killer': 'daemon_killer', 'activities.authenticator': 'authenticator', 'posting.poster': 'poster',
    'probing.health_reporter': 'health_reporter', 'aiobindings.condition_chain': 'condition_chain',
    'admission.validating_configuration_manager': 'validating_configuration_manager',
    'admission.mutating_configuration_manager': 'mutating_configuration_manager',
    'admission.admission_webhook_server': 'admission_webhook_server',
    'observation.resource_observer': 'resource_observer', 'observation.namespace_observer': 'namespace_observer',
    'orchestration.orchestrator': 'orchestrator',
}


U1_OLD = ['api_tasks_guarded_by_started_flag', 'only_three_unguarded', 'every_coroutine_becomes_one_task',
          'tasks_are_tracked', 'lifecycle_tasks_present', 'no_tasks_on_invalid_arguments', 'gate_closed_on_return']
# the operator's activities every run needs (health reporter: only with a liveness endpoint; orchestrator xor command)
REQUIRED = {'authenticator': 'C12', 'poster': 'C20', 'condition_chain': 'C18', 'validating_configuration_manager': 'C18',
            'mutating_configuration_manager': 'C18', 'admission_webhook_server': 'C18',
            'resource_observer': 'C19', 'namespace_observer': 'C19'}


@harness('U1', targets='kopf._core.reactor.running.spawn_tasks', props=['C20', 'C12', 'C13', 'C17', 'C18', 'C19', 'C09'],
         clauses=U1_OLD + ['operator_tasks_present', 'collaborators_given_or_default', 'processor_bound_and_objects_shared', 'context_set_before_tasks',
                           'indices_prepared_before_startup', 'peering_settings_from_arguments', 'scope_reaches_observer',
                           'signals_hooked_in_main_thread_only'],
         # C09: the daemon killer must exist exactly once, as a tracked root task, over the same memories as the processor --
         # else daemons are not stopped on pause/exit, or swept with a plain cancel instead of flag -> backoff -> cancel -> timeout
         clause_props={**{c: ['C20'] for c in U1_OLD},
                       'every_coroutine_becomes_one_task': ['C20', 'C09'], 'tasks_are_tracked': ['C20', 'C09'],
                       'lifecycle_tasks_present': ['C20', 'C09'],
                       'operator_tasks_present': ['C20', 'C12', 'C18', 'C19'], 'collaborators_given_or_default': ['C20', 'C09'],
                       'processor_bound_and_objects_shared': ['C20', 'C09', 'C13', 'C18'],
                       'context_set_before_tasks': ['C20', 'C12'], 'indices_prepared_before_startup': ['C20', 'C17'],
                       'peering_settings_from_arguments': ['C20', 'C13'], 'scope_reaches_observer': ['C20', 'C13', 'C19'],
                       'signals_hooked_in_main_thread_only': ['C20']},
         canaries=['canary.all_guarded', 'canary.never_rejects', 'canary.always_health_reporter', 'canary.always_clusterwide'],
         trusted=['aiotasks.create_guarded_task(flag=f) == create_task(guard(coro, flag=f)) (two lines; guard by contract S3)',
                  'asyncio.create_task starts the coroutine unconditionally, in a COPY of the creator\'s context taken at creation',
                  'which coroutines are API-capable: every one except the three named in EXEMPT (statement of C20)',
                  'loop.add_signal_handler raises RuntimeError outside the main thread (asyncio docs; docs/embedding.rst)'])
def U1(vc):
    """
    spawn_tasks: every coroutine the operator starts -- whatever function made it, including ones this
    contract has never heard of -- becomes exactly one task, and unless it is one of the three exempt
    activities (stop-flag checker, ultimate termination, startup/cleanup activities) that task is made
    through aiotasks.create_guarded_task with flag = THE started flag: the same, initially unset event
    that is handed to startup_cleanup_activities (which sets it only after the startup handlers
    succeeded: U2) and to nobody else.  Every task is tracked: returned as a root task, or in the
    core_tasks list owned by startup_cleanup_activities, whose root_tasks is the returned (live) list.
    The tasks the shutdown clauses of C20 rely on exist (startup/cleanup, stop-flag checker, daemon
    killer, the orchestrator or the command).  Contradictory arguments are rejected before any task.

    Further (what the contracts of the spawned activities take as their preconditions):
      * the activities the other properties live in are all there, once each: the authenticator (C12: re-authentication),
        the event poster, the admission chain/managers/server (C18), the resource and namespace observers (C19); the
        health reporter exactly when a liveness endpoint is given (docs/probing.rst), serving that endpoint;
      * every collaborator (lifecycle, registry, settings, memories, indexers/indices, insights, identity, vault, memo) an
        activity receives is the one GIVEN to spawn_tasks, or -- when omitted (None: what kopf.run() passes by default)
        -- one and the same non-None default for all activities; for the registry and the lifecycle THE default ones
        (registries.get_default_registry(), lifecycles.get_default_lifecycle(): where the decorators register), and for
        the identity the generated per-process one (peering.detect_own_id(manual=False): peers of C13 must differ);
      * the orchestrator's processor is processing.process_resource_event bound to exactly these collaborators plus the
        pause toggles and the event queue; and what spawn_tasks makes itself and hands to several activities is ONE object
        everywhere: operator_paused (daemon killer, orchestrator, processor: C13/C09 "daemons stopped while paused"), the
        event queue (processor -> poster), the webhook container (managers, server; fed by the insights' revised condition);
      * the operator's vault and settings are put into the context variables (auth.vault_var: what every API call
        reads, contract A-series of c12; posting.settings_var) BEFORE the first task is created (tasks copy the context);
      * the indexers are pre-populated from the registry's indexing handlers before anything can run (the first
        suspension), so that the startup handlers see the (empty) indices (docs/indexing.rst; C17);
      * peering_name / standalone / priority, when given, override settings.peering (name + mandatory, standalone,
        priority: docs/peering.rst, docs/cli.rst), and leave them alone when omitted; settings.peering.clusterwide
        and the namespace observer get the effective scope: cluster-wide iff asked for or no namespace is given
        (the backward-compatibility rule the FutureWarning announces), and the given namespaces (or the legacy one);
      * OS signal handlers (SIGINT, SIGTERM -> the signal flag of the stop-flag checker) are installed in the main
        thread and not attempted elsewhere (docs/embedding.rst: an operator in a thread must still start).
    """
    import functools, signal
    clusterwide = vc.bool('clusterwide')
    namespaces = [[], ['ns1']][vc.nondet(2, 'namespaces given?')]
    namespace = [None, 'legacy-ns'][vc.nondet(2, 'namespace= (deprecated) given?')]
    extras = vc.nondet(2, 'peering_name/standalone/priority given?') == 1
    liveness = [None, '', 'http://0.0.0.0:8080/healthz'][vc.nondet(3, 'liveness_endpoint: None / empty / url')]
    command = CoroMarker('the-command', {}) if vc.nondet(2, '_command given?') == 1 else None
    stop_flag = Opaque('stop_flag') if vc.nondet(2, 'stop_flag given?') == 1 else None
    ready_flag = Opaque('ready_flag')
    in_main = vc.nondet(2, 'running in the main thread?') == 1
    given = vc.nondet(2, 'collaborators: omitted (None, as kopf.run() does by default) / given') == 1
    flags, made, tasks_made, futures = [], [], [], []

    class Event:
        def __init__(self):
            self.state = False
            flags.append(self)
        def set(self): self.state = True; vc.emit('event.set', self)
        def is_set(self): return self.state

    def mk(fname):
        def factory(*a, **kw):
            c = CoroMarker(fname, kw)
            made.append(c)
            return c
        return factory

    def note_task(kind, coro, flag, kw):
        if asyncio.iscoroutine(coro):
            coro.close()           # a real coroutine of a function this contract does not know: never run here
        t = Opaque(f'task:{kw.get("name")}')
        tasks_made.append((t, kind, coro, flag))
        vc.emit('task', t, kind, coro, flag)
        return t

    def create_task(coro=None, **kw):
        return note_task('plain', coro, None, kw)

    def create_guarded_task(coro=None, name=None, flag=None, **kw):
        return note_task('guarded', coro, flag, dict(kw, name=name))

    async def sleep(d):
        vc.emit('suspension')
        await suspend('asyncio.sleep')

    def add_signal_handler(sig, cb, *args):
        if not in_main:
            raise RuntimeError('set_wakeup_fd only works in main thread of the main interpreter')
        vc.emit('signal-handler', sig, cb, args)

    def future():
        f = Opaque('signal_flag')
        f.set_result = lambda *a: None
        futures.append(f)
        return f
    loop = Opaque('loop', add_signal_handler=add_signal_handler)
    main_thread = Opaque('main-thread')
    UNTOUCHED = Opaque('untouched')

    def collaborators(tag):
        """One full set of collaborators (the given ones / the defaults the documented factories make)."""
        ps = Opaque(f'{tag}.settings.peering')
        for attr in ('clusterwide', 'mandatory', 'name', 'standalone', 'priority'):
            setattr(ps, attr, UNTOUCHED)
        handlers = Opaque(f'{tag}.all-indexing-handlers')
        ixs = Opaque(f'{tag}.indexers', indices=Opaque(f'{tag}.indices'))
        ixs.ensure = lambda hs: vc.emit('indexers.ensure', ixs, hs)
        return dict(
            lifecycle=Opaque(f'{tag}.lifecycle'), indexers=ixs, settings=Opaque(f'{tag}.settings', peering=ps),
            registry=Opaque(f'{tag}.registry', _indexing=Opaque(f'{tag}.registry._indexing', get_all_handlers=lambda: handlers), _all=handlers),
            memories=Opaque(f'{tag}.memories'), identity=Opaque(f'{tag}.identity'), vault=Opaque(f'{tag}.vault'), memo=Opaque(f'{tag}.memo'),
            insights=Opaque(f'{tag}.insights', backbone=Opaque(f'{tag}.backbone'), revised=Opaque(f'{tag}.revised')))
    G, D = collaborators('given'), collaborators('default')
    stubs = {k: mk(v) for k, v in FACTORIES.items()}
    stubs.update({
        'asyncio.get_running_loop': lambda: loop, 'asyncio.Queue': lambda: Opaque('queue'),
        'asyncio.Future': future, 'asyncio.Event': Event,
        'asyncio.create_task': create_task, 'asyncio.sleep': sleep,
        'aiotasks.create_guarded_task': create_guarded_task,
        'aiotoggles.ToggleSet': lambda fn: Opaque('operator_paused'),
        'aiovalues.Container': lambda: Opaque('container', changed=Opaque('changed')),
        'auth.vault_var': Opaque('vault_var', set=lambda v: vc.emit('vault_var.set', v)),
        'posting.settings_var': Opaque('settings_var', set=lambda v: vc.emit('settings_var.set', v)),
        'warnings.warn': lambda *a, **kw: None, 'logger': NullLogger(),
        'threading.current_thread': lambda: main_thread if in_main else Opaque('other-thread'),
        'threading.main_thread': lambda: main_thread,
        # the documented default of every collaborator
        'lifecycles.get_default_lifecycle': lambda: D['lifecycle'], 'registries.get_default_registry': lambda: D['registry'],
        'configuration.OperatorSettings': lambda: D['settings'], 'inventory.ResourceMemories': lambda: D['memories'],
        'indexing.OperatorIndexers': lambda: D['indexers'], 'references.Insights': lambda: D['insights'],
        'peering.detect_own_id': lambda *, manual: Opaque('the fixed user@host identity of CLI commands') if manual else D['identity'],
        'credentials.Vault': lambda: D['vault'], 'ephemera.Memo': lambda: D['memo'],
    })
    ld = vc.load('kopf._core.reactor.running', 'spawn_tasks', stubs=stubs)
    A = G if given else dict.fromkeys(G)
    priority = vc.int('priority') if extras else None
    escaped, result = None, None
    try:
        result = vc.drive(ld.fn(
            lifecycle=A['lifecycle'], indexers=A['indexers'], registry=A['registry'], settings=A['settings'], memories=A['memories'],
            insights=A['insights'], identity=A['identity'], standalone=True if extras else None, priority=priority,
            peering_name='peering' if extras else None, liveness_endpoint=liveness, clusterwide=clusterwide, namespaces=namespaces,
            namespace=namespace, stop_flag=stop_flag, ready_flag=ready_flag, vault=A['vault'], memo=A['memo'], _command=command))
    except TypeError as e:
        escaped = e
    vc.canary('canary.never_rejects', escaped is None)
    if escaped is not None:
        contradictory = Or(bool(namespaces) and bool(namespace), And(clusterwide, bool(namespaces) or bool(namespace)))
        vc.ensure('no_tasks_on_invalid_arguments', contradictory)
        vc.ensure('no_tasks_on_invalid_arguments', not tasks_made and not made and not any(f.state for f in flags))
        return ('rejected',)
    vc.ensure('no_tasks_on_invalid_arguments', Not(Or(bool(namespaces) and bool(namespace), And(clusterwide, bool(namespaces) or bool(namespace)))))
    # -- the gate: the event handed to the startup/cleanup activities
    sca = [c for c in made if c.fname == 'startup_cleanup_activities']
    vc.ensure('lifecycle_tasks_present', len(sca) == 1)
    gate = sca[0].kw.get('started_flag') if sca else None
    vc.ensure('gate_closed_on_return', isinstance(gate, Event) and not gate.state and not any(ev[0] == 'event.set' for ev in vc.trace))
    holders = [c for c in made if any(v is gate for v in c.kw.values())]
    vc.ensure('gate_closed_on_return', holders == sca)          # nobody else can open it
    # -- every coroutine -> exactly one task; API-capable ones only behind the gate
    wrapped = [coro for _, _, coro, _ in tasks_made]
    for c in made + ([command] if command is not None else []):
        vc.ensure('every_coroutine_becomes_one_task', sum(1 for w in wrapped if w is c) == 1)
    exempt_seen = []
    for t, kind, coro, flag in tasks_made:
        fname = coro.fname if isinstance(coro, CoroMarker) else '<unknown coroutine>'
        if fname in EXEMPT:
            exempt_seen.append(fname)
        else:
            vc.ensure('api_tasks_guarded_by_started_flag', kind == 'guarded' and flag is gate and gate is not None)
        if not (kind == 'guarded' and flag is gate):
            vc.ensure('only_three_unguarded', fname in EXEMPT)
    vc.ensure('only_three_unguarded', sorted(exempt_seen) == sorted(EXEMPT))
    vc.canary('canary.all_guarded', all(kind == 'guarded' for _, kind, _, _ in tasks_made))
    # -- tracking
    core = sca[0].kw.get('core_tasks') if sca else []
    vc.ensure('tasks_are_tracked', sca[0].kw.get('root_tasks') is result if sca else False)
    for t, _, _, _ in tasks_made:
        vc.ensure('tasks_are_tracked', sum(1 for x in result if x is t) + sum(1 for x in core if x is t) == 1)
    vc.ensure('tasks_are_tracked', all(any(x is t for t, _, _, _ in tasks_made) for x in list(result) + list(core)))
    # -- what the shutdown clauses rely on
    fnames = [c.fname for c in made] + (['the-command'] if command is not None else [])
    vc.ensure('lifecycle_tasks_present', all(fnames.count(n) == 1 for n in ('stop_flag_checker', 'daemon_killer', 'ultimate_termination')))
    vc.ensure('lifecycle_tasks_present', ('the-command' in fnames) != ('orchestrator' in fnames))
    # -- the activities the other properties live in
    for n in REQUIRED:
        vc.ensure('operator_tasks_present', fnames.count(n) == 1)
    reporters = [c for c in made if c.fname == 'health_reporter']
    vc.canary('canary.always_health_reporter', len(reporters) == 1)
    if liveness is None:
        vc.ensure('operator_tasks_present', not reporters)
    elif liveness:
        vc.ensure('operator_tasks_present', len(reporters) == 1 and reporters[0].kw.get('endpoint') == liveness)
    # -- collaborators: the given ones, else one common non-None default (THE default registry / lifecycle)
    def flat(c):
        kw = dict(c.kw)
        for v in c.kw.values():
            if isinstance(v, functools.partial):
                kw.update(v.keywords)
        return kw
    seen = {}
    for c in made:
        for k, v in flat(c).items():
            k = 'memo' if k == 'memobase' else k
            if k in G:
                seen.setdefault(k, []).append(v)
    for k, vs in seen.items():
        vc.ensure('collaborators_given_or_default', all(v is not None and v is vs[0] for v in vs))
        if given:
            vc.ensure('collaborators_given_or_default', vs[0] is G[k])
        elif k in ('registry', 'lifecycle', 'identity'):
            vc.ensure('collaborators_given_or_default', vs[0] is D[k])
    vc.ensure('collaborators_given_or_default', {'registry', 'settings', 'vault', 'memo', 'memories', 'insights'} <= set(seen))
    eff = {k: vs[0] for k, vs in seen.items()}
    # -- objects made here and shared between tasks are the SAME object everywhere; the processor is the resource processor
    from kopf._core.reactor import processing as _processing
    orch = [c for c in made if c.fname == 'orchestrator']
    if command is None:
        proc = orch[0].kw.get('processor') if orch else None
        vc.ensure('processor_bound_and_objects_shared', isinstance(proc, functools.partial) and proc.func is _processing.process_resource_event
                  and not proc.args and set(proc.keywords) == {'lifecycle', 'registry', 'settings', 'indexers', 'memories', 'memobase',
                                                               'operator_paused', 'event_queue'})
    for name, holders_ in (('operator_paused', ('daemon_killer', 'orchestrator')), ('event_queue', ('poster', 'orchestrator')),
                           ('container', ('validating_configuration_manager', 'mutating_configuration_manager', 'admission_webhook_server'))):
        vals = [flat(c).get(name) for c in made if c.fname in holders_]
        vc.ensure('processor_bound_and_objects_shared', len(vals) == len([c for c in made if c.fname in holders_]) and
                  all(v is not None and v is vals[0] for v in vals))
    chain = [c for c in made if c.fname == 'condition_chain']
    cont = [flat(c).get('container') for c in made if c.fname == 'admission_webhook_server']
    vc.ensure('processor_bound_and_objects_shared', len(chain) == 1 and len(cont) == 1 and chain[0].kw.get('target') is getattr(cont[0], 'changed', None)
              and chain[0].kw.get('source') is getattr(eff.get('insights'), 'revised', None))
    # -- the context variables, before the first task
    names = names_of(vc.trace)
    i_task = first(names, 'task')
    for var, k in (('vault_var.set', 'vault'), ('settings_var.set', 'settings')):
        sets = [(i, ev[1]) for i, ev in enumerate(vc.trace) if ev[0] == var]
        vc.ensure('context_set_before_tasks', len(sets) >= 1 and all(v is eff.get(k) and v is not None for _, v in sets)
                  and i_task is not None and sets[0][0] < i_task)
    # -- the indices exist before anything runs
    ens = [(i, ev) for i, ev in enumerate(vc.trace) if ev[0] == 'indexers.ensure']
    i_susp = first(names, 'suspension')
    vc.ensure('indices_prepared_before_startup', len(ens) >= 1 and (i_susp is None or ens[0][0] < i_susp))
    if ens:
        ixs, hs = ens[0][1][1], ens[0][1][2]
        vc.ensure('indices_prepared_before_startup', eff.get('registry') is not None and hs is getattr(eff.get('registry'), '_all', None))
        vc.ensure('indices_prepared_before_startup', 'indexers' not in eff or eff['indexers'] is ixs)
        for c in made:
            if 'indices' in flat(c):
                vc.ensure('indices_prepared_before_startup', flat(c)['indices'] is ixs.indices)
    # -- arguments mapped into settings.peering; the effective scope
    eff_ns = namespaces if namespaces else ([namespace] if namespace else [])
    eff_cw = Or(clusterwide, not eff_ns)
    vc.canary('canary.always_clusterwide', eff_cw)
    st = eff.get('settings')
    if st is G['settings'] or st is D['settings']:
        ps = st.peering
        vc.ensure('scope_reaches_observer', ps.clusterwide is not UNTOUCHED)
        if ps.clusterwide is not UNTOUCHED:
            vc.ensure('scope_reaches_observer', Iff(ps.clusterwide, eff_cw))
        if extras:
            vc.ensure('peering_settings_from_arguments', ps.name == 'peering' and ps.mandatory is True
                      and ps.standalone is True and ps.priority is priority)
        else:
            vc.ensure('peering_settings_from_arguments', ps.name is UNTOUCHED and ps.mandatory is UNTOUCHED
                      and ps.standalone is UNTOUCHED and ps.priority is UNTOUCHED)
    for c in made:
        if c.fname == 'namespace_observer':
            vc.ensure('scope_reaches_observer', Iff(c.kw.get('clusterwide'), eff_cw))
            vc.ensure('scope_reaches_observer', list(c.kw.get('namespaces')) == eff_ns)
    # -- OS signals
    hooks = [ev for ev in vc.trace if ev[0] == 'signal-handler']
    checker = [c for c in made if c.fname == 'stop_flag_checker']
    if in_main and checker:
        sf = checker[0].kw.get('signal_flag')
        vc.ensure('signals_hooked_in_main_thread_only', any(f is sf for f in futures) and checker[0].kw.get('stop_flag') is stop_flag)
        for sig in (signal.SIGINT, signal.SIGTERM):
            vc.ensure('signals_hooked_in_main_thread_only', any(ev[1] == sig and ev[2] is sf.set_result and ev[3] == (sig,) for ev in hooks))
    else:
        vc.ensure('signals_hooked_in_main_thread_only', not hooks)
    return ('spawned', len(tasks_made), sorted(exempt_seen))


@harness('S3g', targets='kopf._cogs.aiokits.aiotasks.create_guarded_task', props=['C20', 'C01', 'C09', 'C13', 'C17', 'C19'],
         clauses=['task_of_guard_with_same_flag'], canaries=['canary.flag_dropped'])
def S3g(vc):
    """create_guarded_task(coro, name, flag=f, ...) creates ONE task, of guard(coro, flag=f) for the same coroutine and
    flag (so U1's "created through create_guarded_task(flag=started_flag)" means "behind guard S3 on that flag")."""
    coro, flag = Opaque('coro'), (Opaque('flag') if vc.nondet(2, 'flag given?') == 1 else None)
    guards, tasks = [], []

    def guard(**kw):
        g = ('guard-coro', kw); guards.append(g); return g

    def create_task(coro=None, **kw):
        t = Opaque('task'); tasks.append((t, coro, kw)); return t
    ld = vc.load('kopf._cogs.aiokits.aiotasks', 'create_guarded_task', stubs={'guard': guard, 'asyncio.create_task': create_task})
    fin, canc = vc.bool('finishable'), vc.bool('cancellable')
    r = ld.fn(coro, 'name', flag=flag, finishable=fin, cancellable=canc, logger=None)
    vc.ensure('task_of_guard_with_same_flag', len(guards) == 1 and len(tasks) == 1 and tasks[0][1] is guards[0] and r is tasks[0][0])
    vc.ensure('task_of_guard_with_same_flag', guards[0][1]['coro'] is coro and guards[0][1]['flag'] is flag)
    vc.canary('canary.flag_dropped', guards[0][1]['flag'] is None)
    return ('ok',)


# =============================================================================================== U2a
class AState:
    """progression.State by contract (G3) as run_activity uses it: derived states are fresh abstract
    states; `done` and `delay` of each are arbitrary (but fixed per state)."""
    _UNSET = object()

    def __init__(self, vc, tag, parent=None, args=()):
        self.vc, self.tag, self.parent, self.args = vc, tag, parent, args
        self._done, self._delay = None, AState._UNSET

    def with_handlers(self, handlers):
        return AState(self.vc, 'with_handlers', self, (handlers,))

    def with_outcomes(self, outcomes):
        s = AState(self.vc, 'with_outcomes', self, (outcomes,))
        self.vc.emit('with_outcomes', self, s, outcomes)
        return s

    @property
    def done(self):
        if self._done is None:
            self._done = self.vc.bool(f'{self.tag}.done')
        return self._done

    @property
    def delay(self):
        if self._delay is AState._UNSET:
            self._delay = self.vc.opt(f'{self.tag}.delay', self.vc.real)
        return self._delay


def draw_outcomes(vc, tag, with_results=True):
    """An arbitrary {handler id: Outcome} over two handler ids: absent / succeeded (result or None) / failed."""
    out = {}
    for hid in ('h1', 'h2'):
        k = vc.nondet(4, f'{tag}[{hid}]: absent / result / no result / exception') if with_results else \
            [0, 2, 3][vc.nondet(3, f'{tag}[{hid}]: absent / no result / exception')]
        if k == 1:
            out[hid] = execution.Outcome(final=True, result=Opaque(f'{tag}.{hid}.result'))
        elif k == 2:
            out[hid] = execution.Outcome(final=vc.bool(f'{tag}.{hid}.final'))
        elif k == 3:
            out[hid] = execution.Outcome(final=vc.bool(f'{tag}.{hid}.final'), exception=_Other(f'{tag}.{hid}'))
    return out


def same_map(a, b):
    return set(a) == set(b) and all(a[k] is b[k] for k in a)


@harness('U2a', targets='kopf._core.engines.activities.run_activity', props=['C20', 'C11', 'C12'],
         prop_clauses={'C12': ['handlers_of_the_activity', 'state_threaded', 'outcomes_accumulate_latest', 'error_iff_final_outcome_failed', 'results_of_successes']},
         clauses=['handlers_of_the_activity', 'state_threaded', 'outcomes_accumulate_latest', 'sleeps_the_state_delay',
                  'error_iff_final_outcome_failed', 'results_of_successes'],
         canaries=['canary.never_raises', 'canary.always_raises'],
         trusted=['progression.State by contract G3 (done: every handler finished; delay: time to the next awakening)',
                  'execution.execute_handlers_once by contract X2', 'aiotime.sleep by contract T1'],
         replayable=False)
def U2a(vc):
    """
    run_activity: the handlers are those registered for the activity; the retry loop (loop contract;
    invariant: `outcomes` is the latest outcome per handler of all rounds so far, `state` is the state
    after those rounds) runs a round with exactly the current state, records the round's outcomes over
    the older ones, derives the next state from exactly those outcomes and sleeps that state's delay
    before the next round; when the state is done: ActivityError (carrying the outcomes, caused by one
    of the failures) iff some handler's final outcome carries an exception, else the non-None results
    by handler id.
    """
    activity = vc.fin('activity', list(causes.Activity))
    handlers = Opaque('activity-handlers')
    acts = Opaque('registry._activities')
    acts.get_handlers = lambda activity: (vc.emit('get_handlers', activity), handlers)[1]
    registry, settings, indices, memo, lifecycle = Opaque('registry', _activities=acts), Opaque('settings'), Opaque('indices'), Opaque('memo'), Opaque('lifecycle')
    scratch = AState(vc, 'from_scratch')
    st = dict(phase=0, acc=None, head_state=None, current=None)

    class StateCls:
        @staticmethod
        def from_scratch(): return scratch

    async def execute_handlers_once(**kw):
        vc.emit('execute', kw)
        await suspend('execute_handlers_once')
        st['current'] = draw_outcomes(vc, 'round', with_results=False)
        return st['current']

    async def sleep(delay, *a, **kw):
        vc.emit('sleep', delay, a, kw)
        await suspend('aiotime.sleep')

    def havoc(loc):
        acc = draw_outcomes(vc, 'so-far')
        st['acc'] = dict(acc)
        st['head_state'] = AState(vc, 'after-rounds')
        loc['outcomes'].clear(); loc['outcomes'].update(acc)
        return {'state': st['head_state'], 'outcomes': loc['outcomes']}

    def inv(loc):
        st['phase'] += 1
        if st['phase'] == 1:
            s = loc['state']
            vc.ensure('handlers_of_the_activity', [ev for ev in vc.trace if ev[0] == 'get_handlers'] == [('get_handlers', activity)])
            vc.ensure('state_threaded', isinstance(s, AState) and s.tag == 'with_handlers' and s.parent is scratch and s.args[0] is handlers)
            return loc['outcomes'] == {}
        if st['phase'] == 2:
            return True
        tr = vc.trace
        start = max(i for i, ev in enumerate(tr) if ev[0] == 'loop-head')
        it = tr[start + 1:]
        names = names_of(it)
        vc.ensure('state_threaded', names.count('execute') == 1 and names.count('with_outcomes') == 1 and names.count('sleep') == 1
                  and names.index('execute') < names.index('with_outcomes') < names.index('sleep'))
        kw = it[names.index('execute')][1]
        vc.ensure('state_threaded', kw['state'] is st['head_state'] and kw['handlers'] is handlers and kw['lifecycle'] is lifecycle
                  and kw['settings'] is settings and kw['cause'].activity is activity and kw['cause'].indices is indices
                  and kw['cause'].memo is memo)
        wo = it[names.index('with_outcomes')]
        vc.ensure('state_threaded', wo[1] is st['head_state'] and wo[3] is st['current'] and loc['state'] is wo[2])
        vc.ensure('outcomes_accumulate_latest', same_map(loc['outcomes'], {**st['acc'], **st['current']}))
        sl = it[names.index('sleep')]
        vc.ensure('sleeps_the_state_delay', sl[1] is wo[2].delay and not sl[2] and not sl[3])
        return True
    ld = vc.load('kopf._core.engines.activities', 'run_activity', stubs={
        'progression.State': StateCls, 'execution.execute_handlers_once': execute_handlers_once, 'aiotime.sleep': sleep,
    }, loops={1: LoopSpec('while not state.done', invariant=inv, havoc=havoc)})
    raised, result = None, None
    try:
        result = vc.drive(ld.fn(lifecycle=lifecycle, registry=registry, settings=settings, activity=activity, indices=indices, memo=memo))
    except activities.ActivityError as e:
        raised = e
    final = st['acc']
    failed = [o.exception for o in final.values() if o.exception is not None]
    vc.ensure('error_iff_final_outcome_failed', (raised is not None) == bool(failed))
    vc.canary('canary.never_raises', raised is None)
    vc.canary('canary.always_raises', raised is not None)
    if raised is not None:
        vc.ensure('error_iff_final_outcome_failed', same_map(raised.outcomes, final) and any(raised.__cause__ is x for x in failed))
        return ('raise', len(failed))
    expected = {hid: o.result for hid, o in final.items() if o.result is not None}
    vc.ensure('results_of_successes', same_map(result, expected))
    return ('return', sorted(result))


# =============================================================================================== U3
@harness('U3', targets='kopf._core.reactor.running.run_tasks', props=['C20', 'C09', 'C13', 'C01'],
         prop_clauses={'C09': ['stops_all_remaining_roots', 'hung_tasks_swept', 'cancellation_stops_everything'], 'C13': ['cancellation_stops_everything'], 'C01': ['stops_all_remaining_roots', 'hung_tasks_swept']},
         clauses=['stops_all_remaining_roots', 'hung_tasks_swept', 'reraises_failure', 'cancellation_stops_everything'],
         canaries=['canary.never_raises', 'canary.nothing_pending'],
         trusted=['aiotasks.wait/stop/reraise/all_tasks by contracts S4w/S4/S4r (all_tasks: every task of the loop but the current and the ignored ones)'])
def U3(vc):
    """
    run_tasks(root_tasks, ignored=...): waits until the FIRST root task completes; then -- before it
    returns or raises -- stops exactly the root tasks still pending, sweeps the tasks left in the loop
    (bounded wait, then stop of what is still pending), and finally re-raises the failure of any task
    that finished (root done, root cancelled, hung done, hung cancelled): if one of them failed, run_tasks
    raises that error; a normal return means none failed.  If run_tasks itself is cancelled while waiting,
    ALL root tasks and all remaining tasks are stopped before the cancellation propagates.
    """
    r1, r2, r3 = Opaque('root1'), Opaque('root2'), Opaque('root3')
    h1, h2 = Opaque('hung1'), Opaque('hung2')
    root_tasks = [r1, r2, r3]
    ignored = Opaque('ignored-tasks')
    root_done = [{r1}, {r1, r3}, {r1, r2, r3}][vc.nondet(3, 'which root tasks completed first')]
    root_pending = set(root_tasks) - root_done
    hung = [set(), {h1}, {h1, h2}][vc.nondet(3, 'tasks left in the loop')]
    hung_done = set() if not hung else [set(), {h1}, set(hung)][vc.nondet(3, 'hung tasks that finish within the grace period')]
    failed = [None, r1, r3, h1][vc.nondet(4, 'a task that failed: none / a finished root / a root failing on cancellation / a hung one')]
    err = _Other('task failed')
    cancelled_at = {}

    async def wait(tasks, **kw):
        tasks = set(tasks)
        vc.emit('wait', tasks, kw)
        if not tasks:
            return set(), set()
        await suspend('wait:' + ('roots' if tasks == set(root_tasks) else 'hung'))
        if tasks == set(root_tasks):
            return set(root_done), set(root_pending)
        return set(hung_done) & tasks, tasks - hung_done

    async def stop(tasks, **kw):
        tasks = set(tasks)
        vc.emit('stop', tasks, kw)
        if tasks:
            await suspend('stop')
        vc.emit('stop.returned', tasks)
        return set(tasks), set()

    async def all_tasks(ignored=frozenset()):
        vc.emit('all_tasks', ignored)
        return set(hung)

    async def reraise(tasks):
        vc.emit('reraise', set(tasks))
        if failed is not None and failed in tasks:
            raise err

    def on_suspend(site):
        if site.startswith('wait') and vc.nondet(2, f'run_tasks cancelled at {site}?') == 1:
            cancelled_at[site] = asyncio.CancelledError()
            return cancelled_at[site]
    ld = vc.load('kopf._core.reactor.running', 'run_tasks', stubs={
        'aiotasks.wait': wait, 'aiotasks.stop': stop, 'aiotasks.all_tasks': all_tasks, 'aiotasks.reraise': reraise, 'logger': NullLogger()})
    escaped = None
    try:
        vc.drive(ld.fn(root_tasks, ignored=ignored), on_suspend=on_suspend)
    except BaseException as e:
        if isinstance(e, (PathEnd, Unsupported)):
            raise
        escaped = e
    tr = vc.trace
    names = names_of(tr)
    stops = [ev[1] for ev in tr if ev[0] == 'stop.returned']
    stopped = set().union(*stops) if stops else set()
    vc.ensure('stops_all_remaining_roots', names[0] == 'wait' and tr[0][1] == set(root_tasks)
              and tr[0][2].get('return_when') == asyncio.FIRST_COMPLETED and not tr[0][2].get('timeout'))
    vc.canary('canary.never_raises', escaped is None)
    vc.canary('canary.nothing_pending', not root_pending)
    asked = [ev for ev in tr if ev[0] == 'all_tasks']
    if 'wait:roots' in cancelled_at:
        vc.ensure('cancellation_stops_everything', set(root_tasks) <= stopped and hung <= stopped)
        vc.ensure('cancellation_stops_everything', escaped is cancelled_at['wait:roots'])
        vc.ensure('cancellation_stops_everything', len(asked) == 1 and asked[0][1] is ignored)
        return ('cancelled-at-roots',)
    # -- the roots still pending are stopped first, whatever happens next
    vc.ensure('stops_all_remaining_roots', root_pending <= stopped and len(stops) >= 1 and stops[0] == root_pending)
    vc.ensure('stops_all_remaining_roots', not any(t in s for s in stops for t in root_done))     # finished ones are not "stopped"
    vc.ensure('hung_tasks_swept', len(asked) == 1 and asked[0][1] is ignored
              and names.index('all_tasks') > names.index('stop.returned'))
    if 'wait:hung' in cancelled_at:
        vc.ensure('cancellation_stops_everything', hung <= stopped and escaped is cancelled_at['wait:hung'])
        return ('cancelled-at-hung',)
    waits = [ev for ev in tr if ev[0] == 'wait']
    vc.ensure('hung_tasks_swept', len(waits) == 2 and waits[1][1] == hung and (not hung or waits[1][2].get('timeout') is not None))
    vc.ensure('hung_tasks_swept', (hung - hung_done) <= stopped)
    rr = [i for i, n in enumerate(names) if n == 'reraise']
    vc.ensure('reraises_failure', len(rr) == 1 and rr[0] == len(tr) - 1)
    if rr:
        vc.ensure('reraises_failure', tr[rr[0]][1] >= (root_done | root_pending | hung))
    really_failed = failed is not None and failed in (root_done | root_pending | hung)
    vc.ensure('reraises_failure', (escaped is err) if really_failed else (escaped is None))
    return ('finished', type(escaped).__name__)


# =============================================================================================== S4
class GhostTask:
    def __init__(self, vc, name, outcome='ok'):
        self.vc, self.name, self.outcome, self.error = vc, name, outcome, None
        self.cancels = 0
        self._done = False

    def cancel(self):
        self.cancels += 1
        self.vc.emit('task.cancel', self)

    def done(self):
        return self._done

    def result(self):
        if self.outcome == 'cancelled':
            raise asyncio.CancelledError()
        if self.outcome == 'error':
            self.error = _Other(self.name)
            raise self.error
        return 'ok'

    def __repr__(self):
        return f'<task {self.name}>'


@harness('S4', targets='kopf._cogs.aiokits.aiotasks.stop', props=['C20', 'C19', 'C09', 'C13', 'C01'],
         prop_clauses={'C13': ['cancels_every_task', 'waits_until_none_pending'], 'C01': ['waits_until_none_pending', 'partition_kept']},
         clauses=['cancels_every_task', 'waits_until_none_pending', 'partition_kept', 'cancellation_propagates', 'empty_is_noop'],
         canaries=['canary.single_round'],
         trusted=['aiotasks.wait by contract S4w: returns a partition (done, pending) of the given tasks'],
         replayable=False)
def S4(vc):
    """
    aiotasks.stop(tasks): nothing for an empty collection; otherwise every task is cancelled (once)
    before the first wait, and the polling loop (loop contract; invariant: done_ever and pending
    partition the tasks) waits for exactly the still pending ones, adds what finished, and ends only
    when nothing is pending: the result is (all tasks, empty).  A cancellation of stop() itself while
    waiting propagates (it is not swallowed).
    """
    n = vc.nondet(4, 'number of tasks')
    tasks = [GhostTask(vc, f't{i}') for i in range(n)]
    logger = NullLogger() if vc.nondet(2, 'logger given?') == 1 else None
    quiet, cancelled = vc.bool('quiet'), vc.bool('cancelled')
    interval = vc.opt('interval', vc.real)
    st = dict(phase=0, head=None, now=None, cancel=None)

    def split(ts, label):
        a, b = set(), set()
        for t in sorted(ts, key=lambda t: t.name):
            (a if vc.nondet(2, f'{label}: {t.name} finished?') == 1 else b).add(t)
        return a, b

    async def wait(ts, **kw):
        ts = set(ts)
        vc.emit('wait', ts, kw)
        await suspend('wait')
        st['now'] = split(ts, 'this round')
        for t in st['now'][0]:
            t._done = True
        return st['now']

    def on_suspend(site):
        if vc.nondet(2, 'stop() cancelled while waiting?') == 1:
            st['cancel'] = asyncio.CancelledError()
            return st['cancel']

    def havoc(loc):
        done, pending = split(tasks, 'before this round')
        for t in done:
            t._done = True
        st['head'] = (set(done), set(pending))
        new = {'done_ever': done, 'pending': pending}
        if 'iterations' in loc:        # the round counter (used for log texts only): arbitrary -- but only if it is bound at the
            new['iterations'] = vc.int('iterations')    # loop's entry: havocking must not bind a name the code left unbound
        return new

    def inv(loc):
        st['phase'] += 1
        if st['phase'] == 1:
            vc.ensure('cancels_every_task', all(t.cancels == 1 for t in tasks) and 'wait' not in names_of(vc.trace))
            return loc['done_ever'] == set() and loc['pending'] == set(tasks)
        if st['phase'] == 2:
            return True
        done0, pending0 = st['head']
        w = [ev for ev in vc.trace if ev[0] == 'wait']
        vc.ensure('waits_until_none_pending', len(w) == 1 and w[0][1] == pending0 and w[0][2].get('timeout') is interval)
        vc.ensure('partition_kept', loc['done_ever'] == done0 | st['now'][0] and loc['pending'] == st['now'][1])
        vc.canary('canary.single_round', not loc['pending'])
        return True
    ld = vc.load('kopf._cogs.aiokits.aiotasks', 'stop', stubs={'wait': wait},
                 loops={2: LoopSpec('while pending', invariant=inv, havoc=havoc)})
    escaped, result = None, None
    try:
        result = vc.drive(ld.fn(tasks, title='test', quiet=quiet, cancelled=cancelled, interval=interval, logger=logger), on_suspend=on_suspend)
    except asyncio.CancelledError as e:
        escaped = e
    if n == 0:
        vc.ensure('empty_is_noop', result == (set(), set()) and not vc.trace)
        return ('empty',)
    if st['cancel'] is not None:
        vc.ensure('cancellation_propagates', escaped is st['cancel'])
        return ('cancelled',)
    vc.ensure('cancellation_propagates', escaped is None)
    vc.ensure('waits_until_none_pending', result is not None and result[1] == set() and result[0] == set(tasks))
    vc.ensure('cancels_every_task', all(t.cancels == 1 for t in tasks))
    return ('stopped', n)


@harness('S4w', targets='kopf._cogs.aiokits.aiotasks.wait', props=['C20', 'C09', 'C01', 'C06', 'C13', 'C19'],
         clauses=['empty_is_safe', 'delegates'], canaries=['canary.always_delegates'],
         trusted=['asyncio.wait: returns a partition (done, pending) of the given tasks; raises ValueError for an empty set'])
def S4w(vc):
    """aiotasks.wait: an empty collection gives (set(), set()) without calling asyncio.wait; otherwise exactly one
    asyncio.wait over the same tasks with the same timeout and return_when, whose result is returned."""
    n = vc.nondet(3, 'number of tasks')
    tasks = {Opaque(f't{i}') for i in range(n)}
    timeout = vc.opt('timeout', vc.real)
    rw = [asyncio.ALL_COMPLETED, asyncio.FIRST_COMPLETED][vc.nondet(2, 'return_when')]
    answer = (Opaque('done-set'), Opaque('pending-set'))

    async def aio_wait(ts, **kw):
        vc.emit('asyncio.wait', ts, kw)
        await suspend('asyncio.wait')
        return answer
    ld = vc.load('kopf._cogs.aiokits.aiotasks', 'wait', stubs={'asyncio.wait': aio_wait})
    done, pending = vc.drive(ld.fn(tasks, timeout=timeout, return_when=rw))
    calls = [ev for ev in vc.trace if ev[0] == 'asyncio.wait']
    vc.canary('canary.always_delegates', len(calls) == 1)
    if n == 0:
        vc.ensure('empty_is_safe', not calls and done == set() and pending == set())
    else:
        vc.ensure('delegates', len(calls) == 1 and set(calls[0][1]) == tasks and calls[0][2].get('timeout') is timeout
                  and calls[0][2].get('return_when') == rw and done is answer[0] and pending is answer[1])
    return ('ok', n)


@harness('S4r', targets='kopf._cogs.aiokits.aiotasks.reraise', props=['C20'],
         clauses=['raises_iff_some_task_failed', 'cancellations_ignored'], canaries=['canary.never_raises'])
def S4r(vc):
    """aiotasks.reraise(tasks) over 0..3 finished tasks, each succeeded / cancelled / failed: it raises iff some
    task failed, and then the error of one of the failed tasks; cancelled tasks alone never make it raise."""
    n = vc.nondet(4, 'number of tasks')
    tasks = [GhostTask(vc, f't{i}', ['ok', 'cancelled', 'error'][vc.nondet(3, f't{i}: ok / cancelled / failed')]) for i in range(n)]
    ld = vc.load('kopf._cogs.aiokits.aiotasks', 'reraise')
    escaped = None
    try:
        vc.drive(ld.fn(tasks))
    except BaseException as e:
        if isinstance(e, (PathEnd, Unsupported)):
            raise
        escaped = e
    failing = [t for t in tasks if t.outcome == 'error']
    vc.ensure('raises_iff_some_task_failed', (escaped is not None) == bool(failing))
    vc.ensure('raises_iff_some_task_failed', escaped is None or any(escaped is t.error for t in failing))
    vc.ensure('cancellations_ignored', not isinstance(escaped, asyncio.CancelledError))
    vc.canary('canary.never_raises', escaped is None)
    return ('ok', type(escaped).__name__)
