"""Contract files: one per area.  Files whose name starts with a WIP prefix are still being built by a contract
builder; they are loaded by tools/run_harness.py (PYVC_WIP=1) but take part in ./check only once accepted."""
WIP_PREFIXES = ('w2_', 'w3_', 'w4_', 'w5_')
ACCEPTED_WIP: tuple = ('w2_daemon_exec', 'w2_registries', 'w2_observation', 'w2_admission_misc', 'w2_storage', 'w3_aiokits', 'w3_clients', 'w3_posting', 'w3_causes', 'w4_views', 'w4_structs', 'w4_state_misc', 'w4_creds_misc', 'w5_webhookserver', 'w5_killer', 'w5_observation', 'w5_refs', 'w5_keys', 'w5_misc', 'w5_native', 'w5_patches', 'w5_findings', 'w5_native_processing', 'w5_native_clients', 'w5_native_queueing', 'w5_native_watcher', 'w5_native_timer')
