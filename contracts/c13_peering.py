"""Contracts for kopf._core.engines.peering: Peer / process_peering_event (P1), touch / keepalive / clean (P2)."""
import asyncio

from pyvc import *
from pyvc import ext_c13 as ext
from pyvc.stubs import Opaque, NullLogger, Clock, StubEvent, make_sleep, STd, SDt

DEFAULT_LIFETIME = 60       # docs/peering.rst & the property statement: "missing lifetime" = 60 seconds
DEFAULT_PRIORITY = 0        # docs/peering.rst: "Each operator has a priority (the default is 0)"


# ------------------------------------------------------------------------------------ shared stubs
class TS:
    """An ISO-8601 timestamp *string* as found in a peering record, represented by the instant it denotes
    (trusted: iso8601.parse_date is a total function from the timestamps kopf writes to instants)."""
    def __init__(self, t):
        self.t = t

    def __repr__(self):
        return '<timestamp>'


class IsoStr:
    """The result of datetime.isoformat(): the string denoting instant t."""
    def __init__(self, t):
        self.t = t

    def __repr__(self):
        return '<isoformat>'


def make_datetime(clock):
    """`datetime` inside peering.py: now() reads the ghost clock (which moves only at suspension points)."""
    class _datetime:
        @staticmethod
        def now(tz=None):
            return SDt(clock.now)

    class _mod:
        timedelta = STd
        datetime = _datetime

        class timezone:
            utc = 'UTC'
    return _mod


def parse_date(s):
    if not isinstance(s, TS):
        raise Unsupported(f'iso8601.parse_date({type(s).__name__})')
    return SDt(s.t)


class _Super:
    def __init__(self):
        pass


def make_peer_contract(clock):
    """The contract of peering.Peer (discharged by P1, scenario `peer`), used where Peer is a callee."""
    class PeerContract:
        def __init__(self, *, identity, priority=DEFAULT_PRIORITY, lifetime=DEFAULT_LIFETIME, lastseen=None, **_):
            now = clock.now
            self.identity = identity
            self.priority = priority
            self.lifetime = STd(lifetime)
            self.lastseen = SDt(now) if lastseen is None else SDt(lastseen.t)
            self.deadline = self.lastseen + self.lifetime
            self.is_dead = self.deadline.t <= now

        def as_dict(self):
            return {'priority': self.priority, 'lifetime': self.lifetime.s, 'lastseen': IsoStr(self.lastseen.t)}

        def __repr__(self):
            return '<peer>'
    return PeerContract


class _ApiFailure(Exception):
    """any exception out of the API client (patching.patch_obj)"""


class ToggleStub:
    """aiotoggles.Toggle by contract: a boolean cell; turn_to() may suspend (condition lock) and sets it."""
    def __init__(self, vc, state):
        self.vc, self.state = vc, state

    def is_on(self):
        return self.state

    def is_off(self):
        return Not(self.state)

    async def turn_to(self, state):
        self.vc.emit('turn_to', state)
        await suspend('toggle.turn_to')
        self.state = state


# ------------------------------------------------------------------------------------ P1
def _p1_peer(vc):
    clock = Clock()
    now = clock.now
    identity = vc.str('identity')
    kwargs = {}
    prio = vc.opt('priority', vc.int)
    life = vc.opt('lifetime', vc.int)
    seen_kind = vc.nondet(3, 'lastseen: absent / null / timestamp')
    seen = vc.real('lastseen') if seen_kind == 2 else None
    if prio is not None:
        kwargs['priority'] = prio
    if life is not None:
        kwargs['lifetime'] = life
    if seen_kind == 1:
        kwargs['lastseen'] = None
    if seen_kind == 2:
        kwargs['lastseen'] = TS(seen)
    if vc.nondet(2, 'unknown fields?') == 1:
        kwargs['someFutureField'] = vc.str('future')
        kwargs['another'] = {'nested': 1}
    ld = vc.load('kopf._core.engines.peering', 'Peer.__init__', stubs={
        'datetime': make_datetime(clock), 'iso8601.parse_date': parse_date, 'super': _Super})
    peer = Opaque('peer')
    raised = None
    try:
        ld.fn(peer, identity=identity, **kwargs)
    except Exception as e:
        if isinstance(e, Unsupported):
            raise
        raised = e
    vc.ensure('peer.unknown_fields_ignored', raised is None)
    vc.canary('canary.peer_raises', raised is not None)
    if raised is not None:
        return ('peer', 'raise', type(raised).__name__)
    s_life = DEFAULT_LIFETIME if life is None else life
    s_prio = DEFAULT_PRIORITY if prio is None else prio
    s_seen = now if seen is None else seen
    vc.ensure('peer.fields', And(Eq(peer.identity, identity), Eq(peer.priority, s_prio)))
    vc.ensure('peer.default_lifetime', Eq(peer.lifetime.total_seconds(), s_life))
    vc.ensure('peer.fields', Eq(peer.lastseen.t, s_seen))
    vc.ensure('peer.deadline', Eq(peer.deadline.t, s_seen + s_life))
    vc.ensure('peer.is_dead', Iff(peer.is_dead, s_seen + s_life <= now))
    vc.canary('canary.never_dead', Not(peer.is_dead))
    return ('peer', peer.priority, peer.deadline.t, peer.is_dead)


# which of priority / lifetime / lastseen a record has; every record also carries an unknown field (that Peer
# ignores unknown fields, and that their absence is fine, is scenario `peer`)
def _p1_as_dict(vc):
    prio, life, iso = vc.int('priority'), vc.int('lifetime'), vc.str('lastseen.isoformat()')
    peer = Opaque('peer', identity=vc.str('identity'), priority=prio, lifetime=STd(life),
                  lastseen=Opaque('lastseen', isoformat=lambda: iso), deadline=Opaque('deadline'), is_dead=vc.bool('is_dead'))
    ld = vc.load('kopf._core.engines.peering', 'Peer.as_dict')
    d = ld.fn(peer)
    vc.ensure('peer.as_dict', isinstance(d, dict) and sorted(d) == ['lastseen', 'lifetime', 'priority'])
    vc.ensure('peer.as_dict', And(Eq(d['priority'], prio), Eq(d['lifetime'], life), Eq(d['lastseen'], iso)))
    vc.canary('canary.as_dict_has_identity', 'identity' in d)
    return ('as_dict', d['priority'], d['lifetime'], d['lastseen'])


_SHAPES = [(a, b, c) for a in (False, True) for b in (False, True) for c in (False, True)]


def _p1_event(vc, as_operator=False):
    clock = Clock()
    now0 = clock.now
    own = vc.int('own.priority')
    me = vc.int('own.identity')
    pname = vc.str('settings.peering.name')
    oname = vc.str('object.name')
    # as_operator: the call shape of orchestration.spawn_missing_peerings (the only real call site) -- `autoclean` is
    # NOT passed and the operator's own toggle always is; the operator then has to clean up ("expired records of
    # others are cleaned up").  Otherwise an explicit argument decides, and the toggle is optional.
    autoclean_arg = None if as_operator else vc.bool('autoclean')
    autoclean = True if as_operator else autoclean_arg
    recs = ext.Records('peers', dict(id='int', prio='int', life='real', seen='real',
                                     has_prio='bool', has_life='bool', has_seen='bool'))

    # -- the status mapping {identity: {priority?, lifetime?, lastseen?, unknown fields?}} of arbitrary size
    def templates(i):
        out = []
        for hp, hl, hs in _SHAPES:
            guard = And(Eq(recs.get('has_prio', i), hp), Eq(recs.get('has_life', i), hl), Eq(recs.get('has_seen', i), hs))
            info = {'someFutureField': 'x'}
            if hp: info['priority'] = recs.get('prio', i)
            if hl: info['lifetime'] = recs.get('life', i)
            if hs: info['lastseen'] = TS(recs.get('seen', i))
            out.append((guard, (recs.get('id', i), info)))
        return out

    class Pairs:
        def items(self):
            return recs.collection(templates)
    body = {'metadata': {'name': oname}, 'status': Pairs()}
    raw_event = {'type': 'MODIFIED', 'object': body}

    # -- the specification's view of one record (property statement / docs, NOT the code)
    def s_deadline(i):
        seen = If(recs.get('has_seen', i), recs.get('seen', i), now0)
        life = If(recs.get('has_life', i), recs.get('life', i), DEFAULT_LIFETIME)
        return seen + life

    def s_dead(i): return s_deadline(i) <= now0
    def s_live(i): return And(Not(s_dead(i)), Not(Eq(recs.get('id', i), me)))
    def s_prio(i): return If(recs.get('has_prio', i), recs.get('prio', i), DEFAULT_PRIORITY)
    def s_blocking(i): return And(s_live(i), s_prio(i) >= own)

    # -- environment
    peering_settings = Opaque('settings.peering', priority=own)
    peering_settings.name = pname
    settings = Opaque('settings', peering=peering_settings)
    resource, namespace = Opaque('resource'), Opaque('namespace')
    with_toggle = True if as_operator else vc.nondet(2, 'conflicts_found: None / toggle') == 1
    was_on = vc.bool('conflicts_found@pre') if with_toggle else None
    toggle = ToggleStub(vc, was_on) if with_toggle else None
    pressure = StubEvent('stream_pressure')
    base_sleep = make_sleep(clock)
    failed = []

    async def clean(**kw):
        vc.emit('clean', kw)
        await suspend('clean')
        if vc.nondet(2, 'clean fails?') == 1:
            failed.append(_ApiFailure('clean')); raise failed[-1]

    async def touch(**kw):
        vc.emit('touch', kw)
        await suspend('touch')
        if vc.nondet(2, 'touch fails?') == 1:
            failed.append(_ApiFailure('touch')); raise failed[-1]

    async def sleep(delays, wakeup=None):
        t = clock.now
        if ext.is_abstract(delays):        # min() by its defining property; an empty collection means "no delay"
            delays = ext.coll_min(delays) if delays else []
        vc.emit('sleep.call', t, delays, wakeup)
        return await base_sleep(delays, wakeup)
    vc.used('peering.Peer', 'P1 (scenario peer)'); vc.used('peering.clean', 'P2'); vc.used('peering.touch', 'P2')
    vc.used('aiotime.sleep', 'T1'); vc.used('aiotoggles.Toggle', 'trusted')
    ld = ext.load('kopf._core.engines.peering', 'process_peering_event', stubs={
        'Peer': make_peer_contract(clock), 'clean': clean, 'touch': touch, 'aiotime.sleep': sleep,
        'datetime': make_datetime(clock), 'logger': NullLogger()})
    vc.loaded.append(ld)

    def on_suspend(site):
        clock.advance()
        pressure.havoc()
    raised = None
    opt_kw = {} if as_operator else {'autoclean': autoclean_arg}
    try:
        vc.drive(ld.fn(raw_event=raw_event, namespace=namespace, resource=resource, identity=me, settings=settings,
                       stream_pressure=pressure, conflicts_found=toggle,
                       resource_indexed=None, operator_indexed=None, consistency_time=None, **opt_kw), on_suspend=on_suspend)
    except _ApiFailure as e:
        raised = e
    tr = vc.trace
    names = [ev[0] for ev in tr]
    foreign = Not(Eq(oname, pname))

    def ens(clause, cond):
        # in full generality; if refuted, look for a counterexample with a small collection (replayable) first
        vc.ensure(clause, cond)
        obs = vc.eng.obligations
        if obs and obs[-1].status == 'refuted' and not vc.concrete:
            full = obs.pop()
            vc.ensure(clause, Or(cond, Not(recs.small())))
            if obs[-1].status != 'refuted':
                obs[-1] = full

    # (1) a foreign peering object: no effect at all
    vc.ensure('event.foreign_ignored', Implies(foreign, len(tr) == 0 and raised is None))
    if with_toggle:
        vc.ensure('event.foreign_ignored', Implies(foreign, Eq(toggle.state, was_on)))
    if len(tr) == 0:
        vc.ensure('event.foreign_ignored', foreign)       # ours => at least the wake-up is computed
        recs.prefer_small()
        return ('event', 'ignored')
    vc.ensure('event.foreign_ignored', Not(foreign))
    vc.canary('canary.event_never_cleans', 'clean' not in names)
    vc.canary('canary.event_never_touches', 'touch' not in names)

    # (3) cleaning: exactly the dead records, iff autoclean
    # C13: "expired records of OTHERS are cleaned up" -- the operator's own record, also an expired one left by a killed
    # predecessor under the same fixed identity, belongs to its keep-alive: clean() is an unconditional {identity: null}
    # merge patch and would erase the record the restarted operator has just written (F-C13-2, fixed in /repo)
    def s_dead_other(i): return And(s_dead(i), Not(Eq(recs.get('id', i), me)))
    any_dead = recs.exists(s_dead_other)
    cleans = [ev[1] for ev in tr if ev[0] == 'clean']
    ens('event.clean_exactly_dead', Iff(len(cleans) == 1, And(autoclean, any_dead)))
    vc.ensure('event.clean_exactly_dead', len(cleans) <= 1)
    for kw in cleans:
        ens('event.clean_exactly_dead', ext.coll_is(kw['peers'], recs, s_dead_other, lambda p: p.identity, lambda i: recs.get('id', i)))
        vc.ensure('event.clean_exactly_dead', kw['settings'] is settings and kw['resource'] is resource and kw['namespace'] is namespace)
    if raised is not None and names[-1] == 'clean':
        vc.ensure('event.failures_propagate', raised is failed[-1])
        recs.prefer_small()
        return ('event', 'clean-failed')

    # (2) the pause toggle
    blocked = recs.exists(s_blocking)
    turns = [ev[1] for ev in tr if ev[0] == 'turn_to']
    vc.ensure('event.toggle', len(turns) <= 1)
    if with_toggle:
        ens('event.toggle', Iff(len(turns) == 1 and turns[0] is True, And(blocked, Not(was_on))))
        ens('event.toggle', Iff(len(turns) == 1 and turns[0] is False, And(Not(blocked), was_on)))
        ens('event.toggle', Iff(toggle.state, blocked))
        vc.canary('canary.event_never_pauses', Not(toggle.state))
    else:
        vc.ensure('event.toggle', len(turns) == 0)

    # (4) wake-up: sleep (interruptibly) until the earliest deadline of the blocking peers, then touch
    calls = [ev for ev in tr if ev[0] == 'sleep.call']
    sleeps = [ev for ev in tr if ev[0] == 'sleep']
    touches = [ev[1] for ev in tr if ev[0] == 'touch']
    vc.ensure('event.wakeup', len(calls) == 1 and len(sleeps) == 1 and len(touches) <= 1)
    vc.ensure('event.wakeup', calls[0][3] is pressure)
    _, m, _, unslept, kind = sleeps[0][:5]
    t_call = calls[0][1]
    ens('event.wakeup', Implies(Not(blocked), Eq(m, 0)))
    ens('event.wakeup', Implies(blocked, And(recs.forall(lambda i: Implies(s_blocking(i), t_call + m <= s_deadline(i))),
                                             recs.exists(lambda i: And(s_blocking(i), Eq(t_call + m, s_deadline(i)))))))
    ens('event.touch_iff_uninterrupted', Iff(len(touches) == 1, And(blocked, unslept is None)))
    for kw in touches:
        vc.ensure('event.touch_iff_uninterrupted', kw.get('lifetime') is None and Eq(kw['identity'], me)
                  and kw['settings'] is settings and kw['resource'] is resource and kw['namespace'] is namespace)
        vc.ensure('event.touch_iff_uninterrupted', names.index('touch') > names.index('sleep'))
    if raised is not None:
        vc.ensure('event.failures_propagate', raised is failed[-1] and names[-1] == 'touch')
        recs.prefer_small()
        return ('event', 'touch-failed')
    vc.ensure('event.failures_propagate', not failed)
    recs.prefer_small()
    return ('event', len(cleans), turns, kind, len(touches))


@harness('P1', targets=['kopf._core.engines.peering.Peer.__init__', 'kopf._core.engines.peering.Peer.as_dict',
                        'kopf._core.engines.peering.process_peering_event'],
         props=['C13', 'C20', 'C03'],
         prop_clauses={'C20': ['peer.default_lifetime', 'peer.deadline', 'peer.is_dead'], 'C03': ['peer.deadline', 'peer.is_dead', 'event.toggle', 'event.wakeup', 'event.touch_iff_uninterrupted']},
         clauses=['peer.fields', 'peer.default_lifetime', 'peer.deadline', 'peer.is_dead', 'peer.unknown_fields_ignored', 'peer.as_dict',
                  'event.foreign_ignored', 'event.toggle', 'event.clean_exactly_dead', 'event.wakeup',
                  'event.touch_iff_uninterrupted', 'event.failures_propagate'],
         canaries=['canary.peer_raises', 'canary.never_dead', 'canary.as_dict_has_identity', 'canary.event_never_cleans', 'canary.event_never_touches',
                   'canary.event_never_pauses'],
         trusted=['iso8601.parse_date: total function from the timestamps kopf writes (isoformat) to instants',
                  'datetime.now(): the ghost clock; it advances only at suspension points',
                  'aiotoggles.Toggle.is_on/is_off/turn_to: a boolean cell written only by this coroutine (one worker per peering object)',
                  'aiotime.sleep by contract T1 (pyvc.stubs.make_sleep); min() of the delays by its defining property'])
def P1(vc):
    """
    Scenario `peer` -- Peer.__init__: identity/priority kept (priority default 0), a missing lifetime is 60 s,
    a missing/null lastseen is "now", deadline = lastseen + lifetime, is_dead <=> deadline <= now, unknown
    fields are accepted and ignored.  Scenario `as_dict` -- exactly {priority, lifetime (seconds), lastseen (isoformat)}.
    Scenario `event` -- process_peering_event over a status mapping of ARBITRARY size (abstract collection with
    quantified obligations, see pyvc/ext_c13.py; each record may lack priority / lifetime / lastseen and carries
    an unknown field; identities are opaque tokens compared only by ==, modelled as integers; lifetimes range over
    the reals, a superset of the integers): an event for an object whose name is not settings.peering.name has no
    effect; otherwise, with live(p) = not dead(p) and p.identity != own identity and
    blocked = exists live p: p.priority >= own priority:
    turn_to(True) happens iff blocked and the toggle was off, turn_to(False) iff not blocked and it was on (at
    most one call, final state == blocked; no toggle => no call); clean() is called (once) iff autoclean and some
    record is dead, with exactly the dead records; exactly one interruptible sleep (wakeup = stream_pressure)
    whose end is the earliest deadline of the blocking peers (no delay when there is none); touch() (renewing,
    own identity) iff blocked and the sleep was not interrupted, after the sleep; failures of clean/touch propagate.
    Peer is used by contract in scenario `event`.  Here `autoclean` is always passed explicitly and the toggle is
    optional; the call shape of the operator itself (autoclean omitted => on, toggle present) is harness P1d.
    """
    k = vc.nondet(3, 'scenario: peer / as_dict / event')
    if k == 0:
        return _p1_peer(vc)
    if k == 1:
        return _p1_as_dict(vc)
    return _p1_event(vc)


@harness('P1d', targets=['kopf._core.engines.peering.process_peering_event'], props=['C13', 'C03'],
         prop_clauses={'C03': ['event.toggle', 'event.wakeup', 'event.touch_iff_uninterrupted']},
         clauses=['event.foreign_ignored', 'event.toggle', 'event.clean_exactly_dead', 'event.wakeup',
                  'event.touch_iff_uninterrupted', 'event.failures_propagate'],
         canaries=['canary.event_never_cleans', 'canary.event_never_touches', 'canary.event_never_pauses'],
         trusted=['iso8601.parse_date: total function from the timestamps kopf writes (isoformat) to instants',
                  'datetime.now(): the ghost clock; it advances only at suspension points',
                  'aiotoggles.Toggle.is_on/is_off/turn_to: a boolean cell written only by this coroutine (one worker per peering object)',
                  'aiotime.sleep by contract T1 (pyvc.stubs.make_sleep); min() of the delays by its defining property'])
def P1d(vc):
    """
    process_peering_event AS THE OPERATOR CALLS IT (orchestration.spawn_missing_peerings binds conflicts_found,
    namespace, resource, settings, identity; the worker adds raw_event, stream_pressure and the indexing arguments):
    `autoclean` is not passed.  The contract is that of P1, scenario `event`, with autoclean = on -- C13: "expired
    records of others are cleaned up": clean() is called (once) iff some record is dead, with exactly the dead
    records -- and with the toggle always present.  Same stubs and trusted base as P1.
    """
    return _p1_event(vc, as_operator=True)


# ------------------------------------------------------------------------------------ P2
def _in_loop(vc, k):
    """True once the cut loop k has been entered on this path (i.e. an invariant callback runs at a back edge)."""
    return any(ev and ev[0] == 'loop-head' and ev[1] == k for ev in vc.trace)


def _since_head(vc, k):
    tr = vc.trace
    i = max(j for j, ev in enumerate(tr) if ev and ev[0] == 'loop-head' and ev[1] == k)
    return tr[i + 1:]


def havoc_rest(vc, loc, keep):
    """Loop-contract helper: every local bound at the loop head that is not known to be loop-invariant (`keep`: the
    parameters) gets an unknown value, so state carried from one iteration to the next is not taken from the first."""
    return {name: Opaque(f'havocked:{name}', truth=vc.bool(f'havocked:{name}.truth'))
            for name in sorted(loc) if name not in keep and not name.startswith('__')}


def _make_patch_obj(vc, failed):
    """patching.patch_obj by contract (C08/C12): one API request; returns (body | None for 404, remaining patch) or raises."""
    async def patch_obj(**kw):
        snap = {k: (dict(v) if isinstance(v, dict) else v) for k, v in dict(kw['patch']).items()}
        vc.emit('patch_obj', kw, snap)
        await suspend('patch_obj')
        k = vc.nondet(3, 'patch_obj: patched / 404 / raises')
        if k == 2:
            failed.append(_ApiFailure('patch_obj')); raise failed[-1]
        return (Opaque('patched-body') if k == 0 else None), None
    return patch_obj


def _p2_touch(vc):
    clock = Clock()
    own = vc.int('own.priority')
    L = vc.int('settings.peering.lifetime')
    arg = vc.opt('lifetime', vc.int)            # None: renew with the configured lifetime
    name = vc.str('settings.peering.name')
    ps = Opaque('settings.peering', priority=own, lifetime=L, stealth=vc.bool('stealth'))
    ps.name = name
    settings = Opaque('settings', peering=ps)
    identity, resource = Opaque('identity'), Opaque('resource')
    namespace = [None, 'ns1'][vc.nondet(2, 'namespace: cluster-wide / named')]
    failed = []
    vc.used('peering.Peer', 'P1 (scenario peer)'); vc.used('patching.patch_obj', 'trusted')
    ld = vc.load('kopf._core.engines.peering', 'touch', stubs={
        'Peer': make_peer_contract(clock), 'patching.patch_obj': _make_patch_obj(vc, failed), 'logger': NullLogger()})
    kw = dict(identity=identity, settings=settings, resource=resource, namespace=namespace)
    if arg is not None:
        kw['lifetime'] = arg
    t0 = clock.now
    raised = None
    try:
        vc.drive(ld.fn(**kw), on_suspend=lambda site: clock.advance())
    except _ApiFailure as e:
        raised = e
    calls = [ev for ev in vc.trace if ev[0] == 'patch_obj']
    vc.ensure('touch.one_request', len(calls) == 1)
    ckw, patch = calls[0][1], calls[0][2]
    vc.ensure('touch.one_request', Eq(ckw['name'], name) and ckw['settings'] is settings and ckw['resource'] is resource
              and ckw['namespace'] is namespace)
    vc.ensure('touch.one_request', list(patch) == ['status'] and list(patch['status']) == [identity])
    payload = patch['status'][identity]
    eff = L if arg is None else arg
    vc.ensure('touch.zero_lifetime_removes', Implies(Eq(eff, 0), payload is None))
    vc.ensure('touch.renewal_payload', Implies(eff > 0, payload is not None))
    if payload is not None:
        vc.ensure('touch.renewal_payload', sorted(payload) == ['lastseen', 'lifetime', 'priority'])
        vc.ensure('touch.renewal_payload', And(Eq(payload['priority'], own), Eq(payload['lifetime'], eff),
                                               Eq(payload['lastseen'].t, t0)))
        vc.ensure('touch.renewal_payload', eff > 0)       # never advertises a record that is already expired
    vc.ensure('touch.failures_propagate', (raised is failed[-1]) if failed else raised is None)
    vc.canary('canary.touch_always_renews', payload is not None)
    return ('touch', payload is None, type(raised).__name__)


def _p2_clean(vc):
    k = vc.nondet(4, 'number of dead peers')
    peers = [Opaque(f'peer{i}', identity=Opaque(f'id{i}')) for i in range(k)]
    name = vc.str('settings.peering.name')
    ps = Opaque('settings.peering')
    ps.name = name
    settings = Opaque('settings', peering=ps)
    resource, namespace = Opaque('resource'), Opaque('namespace')
    failed = []
    vc.used('patching.patch_obj', 'trusted')
    ld = vc.load('kopf._core.engines.peering', 'clean', stubs={
        'patching.patch_obj': _make_patch_obj(vc, failed), 'logger': NullLogger()})
    raised = None
    try:
        vc.drive(ld.fn(peers=iter(peers) if vc.nondet(2, 'list / one-shot iterable') else peers,
                       settings=settings, resource=resource, namespace=namespace))
    except _ApiFailure as e:
        raised = e
    calls = [ev for ev in vc.trace if ev[0] == 'patch_obj']
    vc.ensure('clean.removes_exactly_given', len(calls) == 1)
    ckw, patch = calls[0][1], calls[0][2]
    vc.ensure('clean.removes_exactly_given', Eq(ckw['name'], name) and ckw['settings'] is settings
              and ckw['resource'] is resource and ckw['namespace'] is namespace)
    vc.ensure('clean.removes_exactly_given', list(patch) == ['status']
              and patch['status'] == {p.identity: None for p in peers})
    vc.ensure('clean.failures_propagate', (raised is failed[-1]) if failed else raised is None)
    vc.canary('canary.clean_never_fails', raised is None)
    return ('clean', k, type(raised).__name__)


class _OtherBase(BaseException):
    """a BaseException that is neither an Exception nor a cancellation (e.g. KeyboardInterrupt/SystemExit)"""


def _p2_keepalive(vc):
    L = vc.int('settings.peering.lifetime')
    settings = Opaque('settings', peering=Opaque('settings.peering', lifetime=L))
    identity, resource, namespace = Opaque('identity'), Opaque('resource'), Opaque('namespace')
    thrown = []          # what ended the loop (thrown by a callee or into a suspension point)
    final = {'started': False}

    def outcome(site, kinds):
        k = kinds[vc.nondet(len(kinds), f'{site}: outcome')]
        if k == 'ok':
            return
        exc = {'fail': _ApiFailure(site), 'cancel': asyncio.CancelledError(), 'base': _OtherBase(site)}[k]
        if not final['started']:
            thrown.append(exc)
        else:
            final['exc'] = exc
        raise exc

    async def touch(**kw):
        removing = kw.get('lifetime') is not None
        if removing:
            final['started'] = True
        vc.emit('touch', kw)
        await suspend('touch')
        outcome('touch', ['ok', 'fail', 'cancel', 'base'] if not removing else ['ok', 'fail', 'cancel'])

    async def sleep(delay):
        vc.emit('sleep', delay)
        await suspend('sleep')
        outcome('sleep', ['ok', 'cancel'])

    async def shield(aw):
        vc.emit('shield.enter')
        try:
            return await aw
        finally:
            vc.emit('shield.exit')

    def randint(a, b):
        r = vc.int('random.randint')
        vc.assume(And(a <= r, r <= b), 'random.randint(a, b) returns an integer in [a, b]')
        return r

    def renewing(kw):
        return (kw.get('lifetime') is None and kw['identity'] is identity and kw['settings'] is settings
                and kw['resource'] is resource and kw['namespace'] is namespace)

    def inv(loc):
        if not _in_loop(vc, 1):
            return True
        # back edge: this iteration was exactly  touch (renewing) ; sleep(d)
        evs = _since_head(vc, 1)
        vc.ensure('keepalive.renews_then_sleeps', [e[0] for e in evs] == ['touch', 'sleep'] and renewing(evs[0][1]))
        d = evs[1][1]
        vc.ensure('keepalive.interval_at_least_1s', d >= 1)
        vc.ensure('keepalive.interval_lt_lifetime', Implies(L >= 1, d < L),
                  excuse={'F-C13-1': Eq(L, 1)})
        vc.canary('canary.keepalive_interval_is_lifetime_minus_5', Eq(d, L - 5))
        return True
    vc.used('peering.touch', 'P2 (scenario touch)'); vc.used('asyncio.sleep/shield, random.randint', 'trusted')
    ld = vc.load('kopf._core.engines.peering', 'keepalive', stubs={
        'touch': touch, 'asyncio.sleep': sleep, 'asyncio.shield': shield, 'random.randint': randint,
        'logger': NullLogger()},
        loops={1: LoopSpec('while True', invariant=inv,
                           havoc=lambda loc: havoc_rest(vc, loc, ('namespace', 'resource', 'identity', 'settings')))})
    raised = None
    try:
        vc.drive(ld.fn(namespace=namespace, resource=resource, identity=identity, settings=settings))
        returned = True
    except (_ApiFailure, asyncio.CancelledError, _OtherBase) as e:
        raised, returned = e, False
    tr = vc.trace
    names = [ev[0] for ev in tr]
    vc.ensure('keepalive.exit_reason_propagates', not returned and len(thrown) == 1 and raised is thrown[0])
    # the removing touch: attempted on every exit, inside shield(), for the own record
    removing = [i for i, ev in enumerate(tr) if ev[0] == 'touch' and ev[1].get('lifetime') is not None]
    vc.ensure('keepalive.removes_on_exit', len(removing) == 1)
    if removing:
        i = removing[0]
        kw = tr[i][1]
        vc.ensure('keepalive.removes_on_exit', Eq(kw['lifetime'], 0) and kw['identity'] is identity and kw['settings'] is settings
                  and kw['resource'] is resource and kw['namespace'] is namespace)
        vc.ensure('keepalive.removal_shielded', 'shield.enter' in names[:i] and 'shield.exit' in names[i:]
                  and names[:i].count('shield.enter') == 1 + names[:i].count('shield.exit'))
        vc.ensure('keepalive.removes_on_exit', all(n not in ('touch', 'sleep') for n in names[i + 1:]))
    vc.canary('canary.keepalive_removal_always_succeeds', 'exc' not in final)
    return ('keepalive', type(raised).__name__, names[-4:])


@harness('P2', targets=['kopf._core.engines.peering.touch', 'kopf._core.engines.peering.keepalive',
                        'kopf._core.engines.peering.clean'],
         props=['C13', 'C20'],
         clause_props={'keepalive.interval_lt_lifetime': ['C13'], 'keepalive.interval_at_least_1s': ['C13']},
         clauses=['touch.one_request', 'touch.zero_lifetime_removes', 'touch.renewal_payload', 'touch.failures_propagate',
                  'clean.removes_exactly_given', 'clean.failures_propagate',
                  'keepalive.renews_then_sleeps', 'keepalive.interval_at_least_1s', 'keepalive.interval_lt_lifetime',
                  'keepalive.removes_on_exit', 'keepalive.removal_shielded', 'keepalive.exit_reason_propagates'],
         canaries=['canary.touch_always_renews', 'canary.clean_never_fails', 'canary.keepalive_interval_is_lifetime_minus_5',
                   'canary.keepalive_removal_always_succeeds'],
         trusted=['patching.patch_obj: one API request; returns (body or None for 404, remaining patch) or raises',
                  'asyncio.sleep(d): suspends for >= d seconds, can be cancelled; asyncio.shield(aw): awaits aw, the awaiting '
                  'side can be cancelled; random.randint(a, b) in [a, b]',
                  'patches.Patch runs natively (a dict)'])
def P2(vc):
    """
    Scenario `touch` -- one patch request for the peering object settings.peering.name with the patch
    {status: {identity: X}}: X is None (the record is removed) when the effective lifetime (argument, else the
    configured one) is 0, and for a positive lifetime X = {priority: own, lifetime: effective, lastseen: now};
    a record that is already expired is never advertised; API failures propagate.  Peer is used by contract (P1).
    Scenario `clean` -- one patch request {status: {p.identity: None for the given peers}}, nothing else
    (BOUNDED in the number of peers: 0..3 -- a dict comprehension over an arbitrary iterable takes no loop contract).
    Scenario `keepalive` (loop contract on `while True`) -- every iteration is a renewing touch followed by one
    sleep of d seconds, d >= 1, and d < lifetime for every lifetime >= 2.  For lifetime == 1 the code sleeps exactly
    1 s, i.e. the renewal is NOT before the expiry: finding F-C13-1 (excused class: lifetime == 1).  However the
    loop ends (failure of touch, cancellation in touch or sleep, any BaseException) exactly one removing
    touch(lifetime=0) for the own record is attempted inside asyncio.shield(), nothing follows it, its own
    failure/cancellation is swallowed, and the exception that ended the loop is what propagates.
    """
    k = vc.nondet(3, 'scenario: touch / clean / keepalive')
    if k == 0:
        return _p2_touch(vc)
    if k == 1:
        return _p2_clean(vc)
    return _p2_keepalive(vc)


# =============================================================================================== P1t (bounded)
from pyvc.bounded import bounded as _bounded


@_bounded('P1t', targets=['kopf._core.engines.peering.Peer.__init__'], props=['C13'],
          clauses=['lastseen_is_the_instant_written', 'offsetless_timestamps_are_utc', 'deadline_from_that_instant'],
          universe='lastseen in {ISO-8601 with +00:00, with Z, with +09:00, with -08:00, WITHOUT an offset (what older kopf wrote: '
                   'utcnow().isoformat()), with and without microseconds} x the reading host\'s local timezone in {UTC, UTC+9, UTC-8} '
                   '(TZ + time.tzset) x lifetime in {60, 1}; the real Peer class, natively (P1 takes the parser by contract)')
def P1t(b):
    """
    BOUNDED stand-in for the one thing P1 trusts: how Peer reads `lastseen` from a peering record.  Peers run on different hosts;
    a record is an instant, not a local time:
      lastseen_is_the_instant_written   a timestamp with an explicit offset denotes that instant, whatever zone the reader lives in;
      offsetless_timestamps_are_utc     a timestamp WITHOUT an offset is UTC (docs/peering.rst records are written in UTC; older
                                        releases wrote utcnow().isoformat()) -- NOT the reader's local time: read as local time on a
                                        host east of UTC a live higher-priority peer looks hours dead (no pause, its record cleaned
                                        away: two active operators), west of UTC a dead one looks alive (the survivor never resumes);
      deadline_from_that_instant        deadline == lastseen + lifetime, and is_dead compares it with now in UTC.
    """
    import datetime, os, time
    from kopf._core.engines import peering
    UTC = datetime.timezone.utc
    base = datetime.datetime(2024, 3, 5, 12, 30, 45, tzinfo=UTC)
    texts = []
    for micro in (0, 123456):
        t = base.replace(microsecond=micro)
        naive = t.replace(tzinfo=None).isoformat()
        texts += [(t.isoformat(), t, 'explicit'), (naive + 'Z', t, 'explicit'), (naive, t, 'offsetless'),
                  (t.astimezone(datetime.timezone(datetime.timedelta(hours=9))).isoformat(), t, 'explicit'),
                  (t.astimezone(datetime.timezone(datetime.timedelta(hours=-8))).isoformat(), t, 'explicit')]
    saved = os.environ.get('TZ')
    try:
        for tz in ('UTC', 'JST-9', 'PST8'):
            os.environ['TZ'] = tz
            time.tzset()
            for text, instant, kind in texts:
                for lifetime in (60, 1):
                    b.case(key=(tz, text, lifetime))
                    peer = peering.Peer(identity=peering.Identity('peer'), priority=100, lifetime=lifetime, lastseen=text)
                    seen = peer.lastseen
                    ok = seen.tzinfo is not None and seen == instant
                    w = dict(TZ=tz, lastseen=text, parsed=str(seen), expected=str(instant))
                    b.check('lastseen_is_the_instant_written' if kind == 'explicit' else 'offsetless_timestamps_are_utc', ok, w)
                    b.check('deadline_from_that_instant', peer.deadline == seen + datetime.timedelta(seconds=lifetime), w)
    finally:
        if saved is None:
            os.environ.pop('TZ', None)
        else:
            os.environ['TZ'] = saved
        time.tzset()
