"""Third-wave contracts (builder w3-aiokits): the small concurrency primitives which the verified functions so far used
only through TRUSTED stubs, and the admission root tasks around configuration_manager (M5).

  AK1  aiovalues.Container.__init__/get_nowait/set/reset/wait/as_changed                             C18
  AK2  aiotoggles.ToggleSet.__init__/__len__/__iter__/__contains__/is_on/is_off/drop_toggles, Toggle.name   C13, C17, C19
  AK3  aiobindings.condition_chain                                                                   C18
  AK4  aioenums.FlagWaiter.wait/__await__ (base), AsyncFlagPromise.__init__ + stoppers.DaemonStoppingReason   C09
  AK5  admission.admission_webhook_server                                                            C18, C20
  AK6  admission.validating_configuration_manager / mutating_configuration_manager                   C18

asyncio.Condition is the one trusted primitive underneath all of these (class `Cond` below): a lock plus a wait queue.
"""
import asyncio

from pyvc import *
from pyvc.loader import _STOP
from pyvc.stubs import Opaque, NullLogger


class _Super:
    """`super()` inside an extracted method (no __class__ cell there): object.__init__ does nothing."""
    def __init__(self, *a, **kw):
        pass


def _escapes(e):
    """Engine-internal exceptions must never be swallowed by a harness' `except`."""
    return isinstance(e, (PathEnd, Unsupported))


class Cond:
    """
    asyncio.Condition by contract (the documented behaviour of the standard library):
      `async with c:`   acquires the lock -- a suspension point (somebody else may hold it; `meanwhile()` = what the other
                        tasks may do to the shared state until we get it) -- and releases it on exit, whatever the outcome;
      c.wait()          needs the lock (RuntimeError otherwise); releases it, suspends until notified (`meanwhile()`),
                        RE-ACQUIRES the lock -- also when cancelled while waiting -- and returns True;
      c.wait_for(pred)  needs the lock; returns pred()'s value at once if it is truthy, without suspending; otherwise waits
                        as wait() does, any number of times, and returns only in a state where pred() is truthy;
      c.notify_all()    needs the lock (RuntimeError otherwise); does not suspend; the woken tasks run only after the
                        notifier has released the lock.
    Everything is recorded on the ghost trace: ('acquire', c) ('release', c, snapshot) ('wait', c, held) ('notify_all', c, held).
    `snapshot()` is the harness' view of the protected state at the moment the lock is released: what the woken tasks see.
    """
    def __init__(self, vc, name, meanwhile=None, snapshot=None):
        self.vc, self.name, self.held = vc, name, False
        self.meanwhile = meanwhile or (lambda site: None)
        self.snapshot = snapshot or (lambda: None)
        self.waits = 0

    def __repr__(self):
        return f'<Condition {self.name}>'

    async def __aenter__(self):
        await suspend(f'{self.name}.acquire')
        self.meanwhile('acquire')
        self.held = True
        self.vc.emit('acquire', self)
        return self

    async def __aexit__(self, *exc):
        self.vc.emit('release', self, self.snapshot())
        self.held = False
        return False

    async def wait(self):
        self.vc.emit('wait', self, self.held)
        if not self.held:
            raise RuntimeError('cannot wait on un-acquired lock')
        self.waits += 1
        self.vc.emit('release', self, self.snapshot())
        self.held = False
        try:
            await suspend(f'{self.name}.wait')
            self.meanwhile('wait')
        finally:
            self.held = True            # the lock is re-acquired even when the waiting is cancelled
            self.vc.emit('acquire', self)
        return True

    async def wait_for(self, pred):
        self.vc.emit('wait_for', self, self.held)
        if not self.held:
            raise RuntimeError('cannot wait on un-acquired lock')
        result = pred()
        if not result:
            await self.wait()
            result = pred()
            self.vc.assume(True if result else False, 'Condition.wait_for returns only when the predicate holds')
        return result

    def notify_all(self):
        self.vc.emit('notify_all', self, self.held)
        if not self.held:
            raise RuntimeError('cannot notify on un-acquired lock')


def _events(tr, name, cond=None):
    return [ev for ev in tr if ev and ev[0] == name and (cond is None or ev[1] is cond)]


def _notified_with(tr, cond, final):
    """
    Some notify_all() on `cond` was issued while the lock was held, and when that lock was released -- the first moment
    the woken tasks can look -- the protected state was already `final`.  (The order of the update and the notification
    inside one critical section is irrelevant: nobody else runs in between.)
    """
    for i, ev in enumerate(tr):
        if ev and ev[0] == 'notify_all' and ev[1] is cond and ev[2] is True:
            rel = [e for e in tr[i:] if e and e[0] == 'release' and e[1] is cond]
            if rel and rel[0][2] == final:
                return True
    return False


def _maybe_cancel(vc, thrown, sites=None):
    """on_suspend: at every (listed) suspension point the task may be cancelled."""
    def on_suspend(site):
        if thrown:
            return None
        if sites is not None and not any(s in site for s in sites):
            return None
        if vc.nondet(2, f'cancelled at {site}?') == 1:
            thrown.append(asyncio.CancelledError())
            return thrown[-1]
    return on_suspend


def _run(vc, coro, on_suspend=None):
    """drive a coroutine; -> (result, exception that came out of it or None)"""
    try:
        return vc.drive(coro, on_suspend=on_suspend), None
    except BaseException as e:
        if _escapes(e):
            raise
        return None, e


# =============================================================================================== AK1
class _Falsy:
    """a stored value that is falsy but is a value nevertheless"""
    def __bool__(self): return False
    def __repr__(self): return '<falsy value>'


def _ak1_value(vc, label):
    """A stored value: anything -- also None, an empty dict, any other falsy object (`if x` vs `if x is None`)."""
    return [Opaque(f'{label}'), None, {}, _Falsy()][vc.nondet(4, f'{label}: a truthy object / None / {{}} / a falsy object')]


def _ak1_container(vc, meanwhile=None):
    from kopf._cogs.aiokits import aiovalues
    me = aiovalues.Container.__new__(aiovalues.Container)
    me._values = [] if vc.nondet(2, 'container: empty / holds a value') == 0 else [_ak1_value(vc, 'stored')]
    me.changed = Cond(vc, 'changed', meanwhile=meanwhile, snapshot=lambda: list(me._values))
    return me


def _ak1_others(vc, me):
    """Rely: while this task does not hold the lock, other tasks may set() / reset() the container (or leave it alone)."""
    def meanwhile(site):
        k = vc.nondet(3, f'others during {site}: nothing / set(v) / reset()')
        if k == 1:
            me[0]._values = [_ak1_value(vc, 'set-by-others')]
        elif k == 2:
            me[0]._values = []
    return meanwhile


def _same_items(xs, ys):
    xs, ys = list(xs), list(ys)
    return len(xs) == len(ys) and all(a is b for a, b in zip(xs, ys))


def _ak1_init(vc):
    from kopf._cogs.aiokits import aiovalues
    made = []

    def Condition():
        made.append(Cond(vc, f'changed#{len(made)}')); return made[-1]
    ld = vc.load('kopf._cogs.aiokits.aiovalues', 'Container.__init__', stubs={'asyncio.Condition': Condition, 'super': _Super})
    me = aiovalues.Container.__new__(aiovalues.Container)
    ld.fn(me)
    ld_get = vc.load('kopf._cogs.aiokits.aiovalues', 'Container.get_nowait')
    raised = None
    try:
        ld_get.fn(me)
    except Exception as e:
        raised = e
    vc.ensure('fresh_container_is_empty', isinstance(raised, LookupError) and len(list(me._values)) == 0)
    vc.ensure('fresh_container_is_empty', len(made) == 1 and me.changed is made[0] and made[0].held is False)
    vc.canary('canary.always_holds_a_value', raised is None)
    return ('init',)


def _ak1_get(vc):
    me = _ak1_container(vc)
    before = list(me._values)
    ld = vc.load('kopf._cogs.aiokits.aiovalues', 'Container.get_nowait')
    raised = got = None
    try:
        got = ld.fn(me)
    except Exception as e:
        raised = e
    if before:
        vc.ensure('get_nowait.value_or_lookup_error', raised is None and got is before[0])
    else:
        vc.ensure('get_nowait.value_or_lookup_error', isinstance(raised, LookupError))
    vc.ensure('get_nowait.is_pure', _same_items(me._values, before) and not vc.trace)
    vc.canary('canary.always_holds_a_value', raised is None)
    return ('get_nowait', raised is None)


def _ak1_set_reset(vc, op):
    box = []
    me = _ak1_container(vc, meanwhile=_ak1_others(vc, box))
    box.append(me)
    cond = me.changed
    x = _ak1_value(vc, 'new')
    thrown = []
    name = 'set' if op == 'set' else 'reset'
    ld = vc.load('kopf._cogs.aiokits.aiovalues', f'Container.{name}')
    r, raised = _run(vc, ld.fn(me, x) if op == 'set' else ld.fn(me), _maybe_cancel(vc, thrown))
    final = [x] if op == 'set' else []
    if raised is not None and not thrown:
        vc.ensure(f'{name}.atomic_under_lock', False)          # a failure of its own (e.g. notifying without the lock)
        return (name, 'failed')
    if raised is not None:
        # cancelled while queueing for the lock: nothing of this call has happened (no half-done update, no lock kept)
        vc.ensure(f'{name}.atomic_under_lock', raised is thrown[0] and cond.held is False and not _events(vc.trace, 'notify_all'))
        if op == 'set':
            vc.ensure(f'{name}.atomic_under_lock', all(v is not x for v in me._values) or x is None)
        return (name, 'cancelled')
    vc.ensure(f'{name}.stores' if op == 'set' else 'reset.empties', _same_items(me._values, final) and r is None)
    vc.ensure(f'{name}.wakes_waiters_with_the_new_state', _notified_with(vc.trace, cond, final))
    vc.ensure(f'{name}.atomic_under_lock', cond.held is False and all(ev[2] is True for ev in _events(vc.trace, 'notify_all')))
    vc.canary('canary.always_holds_a_value', len(list(me._values)) == 1)
    return (name, 'done')


def _ak1_wait(vc):
    box = []
    at_acquire = []

    def meanwhile(site):
        _ak1_others(vc, box)(site)
        if site == 'acquire':
            at_acquire.append(list(box[0]._values))
    me = _ak1_container(vc, meanwhile=meanwhile)
    box.append(me)
    cond = me.changed
    thrown = []
    ld = vc.load('kopf._cogs.aiokits.aiovalues', 'Container.wait')
    got, raised = _run(vc, ld.fn(me), _maybe_cancel(vc, thrown, sites=['.wait']))
    vc.canary('canary.never_waits', cond.waits == 0)
    vc.ensure('wait.lock_released', cond.held is False)
    if raised is not None:
        vc.ensure('wait.cancellable', bool(thrown) and raised is thrown[0])
        return ('wait', 'cancelled')
    now = list(me._values)
    vc.ensure('wait.returns_the_stored_value', len(now) == 1 and got is now[0])
    # a value that is there when the lock is obtained is returned without any waiting, falsy or not
    vc.ensure('wait.no_wait_when_value_present', (cond.waits == 0 and got is at_acquire[0][0]) if at_acquire[0] else cond.waits >= 1)
    vc.ensure('wait.under_own_lock', all(ev[1] is cond and ev[2] is True for ev in _events(vc.trace, 'wait_for') + _events(vc.trace, 'wait'))
              and len(_events(vc.trace, 'wait_for')) + len(_events(vc.trace, 'wait')) >= 1)
    return ('wait', cond.waits)


def _ak1_as_changed(vc):
    box = []
    me = _ak1_container(vc, meanwhile=_ak1_others(vc, box))
    box.append(me)
    cond = me.changed
    st = Opaque('loop-state', head=0, first=True)

    def inv(loc):
        return cond.held is True            # the whole stream runs inside one critical section, left only inside wait()

    def at_entry(loc):
        # the first look at the container happens right after taking the lock: no waiting for a notification first
        vc.ensure('as_changed.current_value_first', cond.waits == 0 and not _events(vc.trace, 'wait'))

    def havoc(loc):
        # an arbitrary later round: the container is in whatever state the others left it in when they notified
        k = vc.nondet(3, 'loop head: as it was / empty / holds a value')
        if k == 1:
            me._values = []
        elif k == 2:
            me._values = [_ak1_value(vc, 'stored@head')]
        st.head = len(vc.trace)
        st.waits0 = cond.waits
        st.at_head = list(me._values)
        return {}

    def at_backedge(loc):
        evs = vc.trace[st.head:]
        # one round = at most one yield (checked by the consumer below) and exactly one wait() for the next notification
        vc.ensure('as_changed.waits_for_notification_between_yields', cond.waits == st.waits0 + 1
                  and all(ev[1] is cond and ev[2] is True for ev in _events(evs, 'wait')))
        vc.ensure('as_changed.yields_iff_value_stored', st.yielded == len(st.at_head))
        vc.canary('canary.never_waits', False)
    ld = vc.load('kopf._cogs.aiokits.aiovalues', 'Container.as_changed',
                 loops={1: LoopSpec('while True', invariant=inv, havoc=havoc, at_entry=at_entry, at_backedge=at_backedge)})
    agen = ld.fn(me)
    st.yielded = 0
    thrown = []
    # ---- the consumer: `async for value in container.as_changed(): <body>`
    got, raised = _run(vc, agen.__anext__(), _maybe_cancel(vc, thrown, sites=['.wait']))
    if raised is not None:
        # cancelled while waiting for a notification: the lock is re-taken by wait() and released by the stream;
        # the stream has no failures of its own
        vc.ensure('as_changed.lock_released_when_closed', bool(thrown) and raised is thrown[0] and cond.held is False)
        return ('as_changed', 'cancelled-in-wait')
    # a value came out (a round that yields nothing ends at the back edge above)
    st.yielded = 1
    vc.ensure('as_changed.yields_iff_value_stored', len(st.at_head) == 1 and got is st.at_head[0])
    # ... at once, and while the lock is held: nobody can set()/notify until the consumer comes back for the next value,
    # so no change is ever missed between two yields (set() needs the lock; wait() releases it atomically)
    vc.ensure('as_changed.current_value_first', cond.waits == st.waits0)
    vc.ensure('as_changed.yields_under_lock', cond.held is True and _same_items(me._values, st.at_head))
    vc.canary('canary.always_holds_a_value', False)
    if vc.nondet(2, 'consumer: asks for the next value / closes the stream') == 1:
        _, raised = _run(vc, agen.aclose())
        vc.ensure('as_changed.lock_released_when_closed', raised is None and cond.held is False and cond.waits == st.waits0)
        return ('as_changed', 'closed')
    _, raised = _run(vc, agen.__anext__(), _maybe_cancel(vc, thrown, sites=['.wait']))
    if raised is not None:
        vc.ensure('as_changed.lock_released_when_closed', bool(thrown) and raised is thrown[0] and cond.held is False)
        return ('as_changed', 'cancelled-in-wait')
    raise Unsupported('as_changed() went round without passing the loop head')


@harness('AK1', targets=['kopf._cogs.aiokits.aiovalues.Container.__init__', 'kopf._cogs.aiokits.aiovalues.Container.get_nowait',
                         'kopf._cogs.aiokits.aiovalues.Container.set', 'kopf._cogs.aiokits.aiovalues.Container.reset',
                         'kopf._cogs.aiokits.aiovalues.Container.wait', 'kopf._cogs.aiokits.aiovalues.Container.as_changed'],
         props=['C18'],
         clauses=['fresh_container_is_empty', 'get_nowait.value_or_lookup_error', 'get_nowait.is_pure',
                  'set.stores', 'set.wakes_waiters_with_the_new_state', 'set.atomic_under_lock',
                  'reset.empties', 'reset.wakes_waiters_with_the_new_state', 'reset.atomic_under_lock',
                  'wait.returns_the_stored_value', 'wait.no_wait_when_value_present', 'wait.under_own_lock', 'wait.lock_released',
                  'wait.cancellable',
                  'as_changed.current_value_first', 'as_changed.yields_iff_value_stored', 'as_changed.yields_under_lock',
                  'as_changed.waits_for_notification_between_yields', 'as_changed.lock_released_when_closed'],
         canaries=['canary.always_holds_a_value', 'canary.never_waits'],
         trusted=['asyncio.Condition by contract (class Cond: lock + wait queue; wait() re-acquires the lock even when cancelled)',
                  'rely: other tasks change the container only through set()/reset(), i.e. only while this task does not hold '
                  'the lock (at lock acquisition and inside Condition.wait)'])
def AK1(vc):
    """
    aiovalues.Container -- the 0..1-item mailbox between the admission webhook server (AK5: `container.set(client_config)`)
    and the two configuration managers (M5: `async for client_config in container.as_changed()`), whose condition is also
    chain-notified from the insights (AK3).  M5 TRUSTS "as_changed() yields the current client config at once (if any) and
    again whenever the container is set or the condition is notified"; here that is discharged on the real class.
    Stored values are arbitrary objects INCLUDING falsy ones (None, {}, an object with __bool__ False): they are values.
      fresh_container_is_empty          __init__: no value (get_nowait raises LookupError), one fresh, un-held condition
      get_nowait.value_or_lookup_error  the stored value, or LookupError (never StopIteration) when there is none; pure
      set.stores / reset.empties        afterwards the container holds exactly that value / nothing; returns None
      *.wakes_waiters_with_the_new_state   notify_all() is issued under the lock, and when that lock is released the new
                                        state is already in place (what every woken waiter / as_changed() consumer sees)
      *.atomic_under_lock               every notification under the lock; lock free at the end; cancelled while queueing
                                        for the lock => nothing stored, nothing notified
      wait.*                            returns the value stored at that moment; no waiting at all if a value is there when
                                        the lock is obtained; otherwise waits on ITS condition, holding the lock; the lock
                                        is released afterwards, also on cancellation, which propagates
      as_changed.* (loop contract over `while True`, ONE arbitrary round from an arbitrary container state; invariant: the
                   lock is held at the loop head)
        current_value_first             entering the stream goes straight to looking at the container (no wait first) and a
                                        stored value is yielded before any waiting
        yields_iff_value_stored         a round yields the stored value (the very object) iff there is one -- an empty
                                        container yields nothing (reset() does not produce an item)
        yields_under_lock               the consumer's body runs while the stream holds the lock, the container unchanged:
                                        set()/reset() and chain notifications cannot slip in between two yields unnoticed
        waits_for_notification_between_yields   then exactly one Condition.wait() (lock held) before the next look
        lock_released_when_closed       closing the stream (aclose / consumer left the loop) or a cancellation inside the
                                        wait releases the lock
    """
    k = vc.nondet(6, 'scenario: __init__ / get_nowait / set / reset / wait / as_changed')
    if k == 0:
        return _ak1_init(vc)
    if k == 1:
        return _ak1_get(vc)
    if k == 2:
        return _ak1_set_reset(vc, 'set')
    if k == 3:
        return _ak1_set_reset(vc, 'reset')
    if k == 4:
        return _ak1_wait(vc)
    return _ak1_as_changed(vc)


# =============================================================================================== AK2
def _spec_on(fn, states):
    """The documented aggregate (class docstring of ToggleSet): any -> at least one member is on (off when empty);
    all -> no member is off (on when empty)."""
    if fn is all:
        return And(*states) if states else True
    return Or(*states) if states else False


def _ak2_set(vc, fn, n, snapshot_of=None):
    from kopf._cogs.aiokits import aiotoggles
    ts = aiotoggles.ToggleSet.__new__(aiotoggles.ToggleSet)
    cond = Cond(vc, 'set', snapshot=lambda: frozenset(ts._toggles))
    ts._condition, ts._toggles, ts._fn = cond, set(), fn
    members = []
    for i in range(n):
        t = aiotoggles.Toggle.__new__(aiotoggles.Toggle)
        t._condition, t._state, t._name = cond, vc.bool(f'member{i}.on'), f'm{i}'
        members.append(t); ts._toggles.add(t)
    return ts, cond, members


def _ak2_stranger(cond, state):
    from kopf._cogs.aiokits import aiotoggles
    t = aiotoggles.Toggle.__new__(aiotoggles.Toggle)
    t._condition, t._state, t._name = cond, state, 'stranger'
    return t


def _ak2_init(vc):
    from kopf._cogs.aiokits import aiotoggles
    fn = [all, any][vc.nondet(2, 'ToggleSet(all) / ToggleSet(any)')]
    made = []

    def Condition():
        made.append(Cond(vc, f'cond#{len(made)}')); return made[-1]
    ld = vc.load('kopf._cogs.aiokits.aiotoggles', 'ToggleSet.__init__', stubs={'asyncio.Condition': Condition, 'super': _Super})
    ts = aiotoggles.ToggleSet.__new__(aiotoggles.ToggleSet)
    ld.fn(ts, fn)
    ld_len = vc.load('kopf._cogs.aiokits.aiotoggles', 'ToggleSet.__len__')
    ld_on = vc.load('kopf._cogs.aiokits.aiotoggles', 'ToggleSet.is_on')
    vc.ensure('init.empty_with_own_condition', ld_len.fn(ts) == 0 and len(made) == 1 and ts._condition is made[0] and made[0].held is False)
    # an empty any-set is off (nobody pauses the operator), an empty all-set is on (nothing is left to index)
    vc.ensure('init.empty_with_own_condition', ld_on.fn(ts) is (fn is all))
    # the toggles it makes share ITS condition (O1t: make_toggle), so it must be a Condition of its own, not a shared one
    vc.canary('canary.always_on', ld_on.fn(ts))
    return ('init', fn.__name__)


def _ak2_views(vc):
    fn = [all, any][vc.nondet(2, 'ToggleSet(all) / ToggleSet(any)')]
    n = vc.nondet(4, 'number of member toggles')
    ts, cond, members = _ak2_set(vc, fn, n)
    states = [m._state for m in members]
    stranger = _ak2_stranger(cond, vc.bool('stranger.on'))
    ld_len = vc.load('kopf._cogs.aiokits.aiotoggles', 'ToggleSet.__len__')
    ld_iter = vc.load('kopf._cogs.aiokits.aiotoggles', 'ToggleSet.__iter__')
    ld_in = vc.load('kopf._cogs.aiokits.aiotoggles', 'ToggleSet.__contains__')
    ld_on = vc.load('kopf._cogs.aiokits.aiotoggles', 'ToggleSet.is_on')
    ld_off = vc.load('kopf._cogs.aiokits.aiotoggles', 'ToggleSet.is_off')
    ts.is_on = lambda: ld_on.fn(ts)          # is_off is specified through the extracted is_on
    vc.ensure('views.len_iter_contains_reflect_members', ld_len.fn(ts) == n)
    seen = list(ld_iter.fn(ts))
    vc.ensure('views.len_iter_contains_reflect_members', len(seen) == n and all(any(s is m for s in seen) for m in members))
    vc.ensure('views.len_iter_contains_reflect_members', all(ld_in.fn(ts, m) is True for m in members) and ld_in.fn(ts, stranger) is False
              and ld_in.fn(ts, None) is False)
    on, off = ld_on.fn(ts), ld_off.fn(ts)
    vc.ensure('is_on.any_all_modes', Iff(on, _spec_on(fn, states)))
    vc.ensure('is_off.negates_is_on', Iff(off, Not(_spec_on(fn, states))))
    vc.ensure('views.are_pure', len(ts._toggles) == n and all(m in ts._toggles for m in members) and not vc.trace
              and all(m._state is s for m, s in zip(members, states)))
    vc.canary('canary.always_on', on)
    vc.canary('canary.always_off', off)
    return ('views', fn.__name__, n)


def _ak2_drop(vc):
    fn = [all, any][vc.nondet(2, 'ToggleSet(all) / ToggleSet(any)')]
    n = vc.nondet(4, 'number of member toggles')
    ts, cond, members = _ak2_set(vc, fn, n)
    mask = vc.nondet(2 ** n, 'which members are given') if n else 0
    given = [m for i, m in enumerate(members) if mask >> i & 1]
    with_stranger = vc.nondet(2, 'a non-member among the given ones?') == 1
    stranger = _ak2_stranger(cond, False)
    if with_stranger:
        given = given + [stranger]
    shape = vc.nondet(4, 'iterable: list / set / generator / list with duplicates')
    arg = [list(given), set(given), (t for t in given), list(given) + list(given)][shape]
    kept = [m for m in members if not any(m is g for g in given)]
    states0 = [m._state for m in members + [stranger]]
    ld = vc.load('kopf._cogs.aiokits.aiotoggles', 'ToggleSet.drop_toggles')
    ld_on = vc.load('kopf._cogs.aiokits.aiotoggles', 'ToggleSet.is_on')
    thrown = []
    r, raised = _run(vc, ld.fn(ts, arg), _maybe_cancel(vc, thrown))
    if raised is not None:
        vc.ensure('drop_toggles.under_lock', bool(thrown) and raised is thrown[0] and cond.held is False and len(ts._toggles) == n
                  and not _events(vc.trace, 'notify_all'))
        return ('drop_toggles', 'cancelled')
    final = frozenset(kept)
    vc.ensure('drop_toggles.drops_exactly_the_given', frozenset(ts._toggles) == final and len(ts._toggles) == len(kept) and r is None)
    vc.ensure('drop_toggles.drops_exactly_the_given', Iff(ld_on.fn(ts), _spec_on(fn, [m._state for m in kept])))
    if len(kept) < n:
        # the aggregate may have flipped (e.g. the last conflicting peering is gone => the operator resumes): the tasks in
        # ToggleSet.wait_for() (O1u) must re-evaluate, seeing the reduced set
        vc.ensure('drop_toggles.wakes_waiters_with_the_reduced_set', _notified_with(vc.trace, cond, final))
    vc.ensure('drop_toggles.under_lock', cond.held is False and all(ev[2] is True for ev in _events(vc.trace, 'notify_all')))
    vc.ensure('drop_toggles.members_untouched', all(m._state is s for m, s in zip(members + [stranger], states0))
              and all(m._condition is cond for m in members + [stranger]))
    vc.canary('canary.nothing_dropped', len(ts._toggles) == n)
    return ('drop_toggles', n, len(kept))


def _ak2_name(vc):
    from kopf._cogs.aiokits import aiotoggles
    name = [None, '', vc.str('name')][vc.nondet(3, 'name: None / empty / some')]
    t = aiotoggles.Toggle.__new__(aiotoggles.Toggle)
    t._condition, t._state, t._name = Cond(vc, 'c'), vc.bool('on'), name
    got = vc.load('kopf._cogs.aiokits.aiotoggles', 'Toggle.name').fn(t)
    vc.ensure('toggle.name_as_given', got is name)
    vc.canary('canary.always_on', got is None)
    return ('name',)


@harness('AK2', targets=['kopf._cogs.aiokits.aiotoggles.ToggleSet.__init__', 'kopf._cogs.aiokits.aiotoggles.ToggleSet.__len__',
                         'kopf._cogs.aiokits.aiotoggles.ToggleSet.__iter__', 'kopf._cogs.aiokits.aiotoggles.ToggleSet.__contains__',
                         'kopf._cogs.aiokits.aiotoggles.ToggleSet.is_on', 'kopf._cogs.aiokits.aiotoggles.ToggleSet.is_off',
                         'kopf._cogs.aiokits.aiotoggles.ToggleSet.drop_toggles', 'kopf._cogs.aiokits.aiotoggles.Toggle.name'],
         props=['C13', 'C17', 'C19', 'C09', 'C06'],
         clauses=['init.empty_with_own_condition', 'views.len_iter_contains_reflect_members', 'views.are_pure', 'is_on.any_all_modes',
                  'is_off.negates_is_on', 'drop_toggles.drops_exactly_the_given', 'drop_toggles.wakes_waiters_with_the_reduced_set',
                  'drop_toggles.under_lock', 'drop_toggles.members_untouched', 'toggle.name_as_given'],
         canaries=['canary.always_on', 'canary.always_off', 'canary.nothing_dropped'],
         trusted=['asyncio.Condition by contract (class Cond)', 'builtins all/any (the aggregating fn the real callers pass)',
                  'members bounded by 3 (is_on / difference_update iterate the member set natively); member states symbolic'])
def AK2(vc):
    """
    The rest of aiotoggles.ToggleSet (is_on(all) / make_toggle / drop_toggle: O1t; Toggle.* and ToggleSet.wait_for: O1u).
    ToggleSet(any) is the operator-wide pause (C13/C19: `operator_paused`, one toggle per peering; streaming_block and
    the daemon killer read is_on()/is_off(); orchestration.terminate_redundancies drops the toggles of vanished
    peerings with drop_toggles); ToggleSet(all) is the index gate (C17: `operator_indexed`).
      init.empty_with_own_condition   no members; a fresh Condition of its own; is_on() = fn(()) -- any: off, all: on
      views.len_iter_contains_reflect_members   len == number of members, iteration gives each member once, `t in set` <=> member
                                      (a foreign toggle or None is not in)
      views.are_pure                  reading changes neither the membership nor any toggle, needs no lock
      is_on.any_all_modes             any: on <=> some member is on (off when empty); all: on <=> no member is off (on when empty)
                                      -- 0..3 members, every combination of (symbolic) states
      is_off.negates_is_on            is_off() <=> not is_on()
      drop_toggles.drops_exactly_the_given   members' = members - given, for every subset given as list / set / generator / with
                                      duplicates / with a non-member in it (ignored); the aggregate follows; returns None
      drop_toggles.wakes_waiters_with_the_reduced_set   if a member left: notify_all() under the lock, and when that lock is
                                      released the set is already reduced (what the woken wait_for() sees)
      drop_toggles.under_lock         every notification under the lock; lock free afterwards; cancelled while queueing
                                      for the lock => nothing dropped, nothing notified
      drop_toggles.members_untouched  dropping does not turn or re-bind the toggles themselves
      toggle.name_as_given            Toggle.name is the name it was made with (None, '' or any string)
    """
    k = vc.nondet(4, 'scenario: __init__ / read-only views / drop_toggles / Toggle.name')
    if k == 0:
        return _ak2_init(vc)
    if k == 1:
        return _ak2_views(vc)
    if k == 2:
        return _ak2_drop(vc)
    return _ak2_name(vc)


# =============================================================================================== AK3
@harness('AK3', targets='kopf._cogs.aiokits.aiobindings.condition_chain', props=['C18'],
         clauses=['nothing_forwarded_before_a_source_notification', 'every_source_notification_is_forwarded',
                  'forwarded_under_the_target_lock', 'no_source_notification_missed', 'runs_forever', 'cancellation_releases_both_locks'],
         canaries=['canary.never_notifies', 'canary.never_cancelled'],
         trusted=['asyncio.Condition by contract (class Cond)'])
def AK3(vc):
    """
    aiobindings.condition_chain(source, target) -- the root task "admission insights chain" (running.spawn_tasks:
    source = insights.revised, target = container.changed): whenever the observers revise the insights (new/removed
    resources, CRDs), the configuration managers sleeping in `container.as_changed()` (AK1, M5) are woken and rebuild
    the managed webhook configuration for the resources served NOW.  Loop contract over `while True`, one arbitrary
    round; invariant at the loop head: the source lock is held, the target lock is not.
      nothing_forwarded_before_a_source_notification   the target is not notified before / without a source wake-up
      every_source_notification_is_forwarded   each return of source.wait() is followed, in the same round, by >= 1
                                        target.notify_all()
      forwarded_under_the_target_lock   ... issued while holding the TARGET's lock (a Condition must be held by its
                                        notifier), which is released again before the next wait; source.wait() is
                                        called holding the SOURCE's lock
      no_source_notification_missed     the source lock is given up only inside source.wait() (which releases it and
                                        starts waiting atomically): nobody can notify the source while the chain is
                                        busy forwarding, so no revision falls between two waits
      runs_forever                      the chain never returns on its own (a root task that ends stops the operator);
                                        it fails only if a lock operation fails
      cancellation_releases_both_locks  cancelled at any suspension point (queueing for either lock, waiting): the
                                        CancelledError propagates and neither lock stays held
    """
    source = Cond(vc, 'source')
    target = Cond(vc, 'target')
    st = Opaque('loop-state', head=0)
    tr = vc.trace

    def inv(loc):
        return source.held is True and target.held is False

    def at_entry(loc):
        vc.ensure('nothing_forwarded_before_a_source_notification', not _events(tr, 'notify_all') and not _events(tr, 'acquire', target))

    def havoc(loc):
        st.head = len(tr)
        return {}

    def at_backedge(loc):
        evs = tr[st.head:]
        names = [(ev[0], ev[1]) for ev in evs if ev[0] in ('wait', 'notify_all', 'acquire', 'release')]
        waits = [i for i, x in enumerate(names) if x == ('wait', source)]
        notes = [i for i, x in enumerate(names) if x[0] == 'notify_all']
        vc.ensure('every_source_notification_is_forwarded', len(waits) == 1 and len(notes) >= 1
                  and all(names[i][1] is target for i in notes))
        vc.ensure('nothing_forwarded_before_a_source_notification', bool(waits) and all(i > waits[0] for i in notes)
                  and not _events(evs, 'wait', target))
        vc.ensure('forwarded_under_the_target_lock', all(ev[2] is True for ev in _events(evs, 'notify_all'))
                  and all(ev[2] is True for ev in _events(evs, 'wait')) and target.held is False)
        # the only release of the source lock in a round is the one inside source.wait()
        vc.ensure('no_source_notification_missed', names.count(('release', source)) == 1 and source.waits >= 1
                  and bool(waits) and names[waits[0] + 1] == ('release', source))
        vc.canary('canary.never_notifies', False)
    ld = vc.load('kopf._cogs.aiokits.aiobindings', 'condition_chain',
                 loops={1: LoopSpec('while True', invariant=inv, havoc=havoc, at_entry=at_entry, at_backedge=at_backedge)})
    thrown = []
    form = vc.nondet(2, 'arguments: keywords (as running.spawn_tasks passes them) / positional')
    coro = ld.fn(source=source, target=target) if form == 0 else ld.fn(source, target)
    r, raised = _run(vc, coro, _maybe_cancel(vc, thrown))
    vc.canary('canary.never_cancelled', raised is None)
    vc.ensure('runs_forever', raised is not None and bool(thrown) and raised is thrown[0])
    vc.ensure('cancellation_releases_both_locks', source.held is False and target.held is False)
    return ('cancelled', type(raised).__name__)


# =============================================================================================== AK4
class _Cell:
    """threading.Event / asyncio.Event by contract, as far as the waiters look at it: a boolean cell."""
    def __init__(self, state):
        self.state, self.touched = state, 0

    def is_set(self):
        return self.state

    def set(self):
        self.touched += 1; self.state = True

    def clear(self):
        self.touched += 1; self.state = False

    def wait(self, timeout=None):
        self.touched += 1
        return self.state


def _ak4_setter(vc):
    """A real FlagSetter in an arbitrary state (events equal: class invariant, S6), its reason an opaque flag value."""
    from kopf._cogs.aiokits import aioenums
    ev0 = vc.bool('event@pre')
    me = aioenums.FlagSetter.__new__(aioenums.FlagSetter)
    me.when = None
    me.reason = [None, Opaque('some-reasons')][vc.nondet(2, 'reason: None / some flags')]
    me.sync_event, me.async_event = _Cell(ev0), _Cell(ev0)
    return me, ev0


def _ak4_waiter_init(vc, obj, setter):
    ld = vc.load('kopf._cogs.aiokits.aioenums', 'FlagWaiter.__init__', stubs={'super': _Super})
    ld.fn(obj, setter)


def _ak4_refusals(vc):
    from kopf._cogs.aiokits import aioenums
    me, ev0 = _ak4_setter(vc)
    kind = vc.nondet(3, 'which checker: the base FlagWaiter / the async waiter (awaited directly) / a promise (chained wait)')
    cls = [aioenums.FlagWaiter, aioenums.AsyncFlagWaiter, aioenums.AsyncFlagPromise][kind]
    w = cls.__new__(cls)
    _ak4_waiter_init(vc, w, me)
    timeout = vc.opt('timeout', vc.real)
    ld_wait = vc.load('kopf._cogs.aiokits.aioenums', 'FlagWaiter.wait')
    ld_await = vc.load('kopf._cogs.aiokits.aioenums', 'FlagWaiter.__await__')
    outcomes = []
    if kind != 1:       # AsyncFlagWaiter overrides wait() (S6); FlagWaiter and the promise use the refusing base method
        form = vc.nondet(3, 'wait() / wait(t) / wait(timeout=t)')
        try:
            r = ld_wait.fn(w) if form == 0 else ld_wait.fn(w, timeout) if form == 1 else ld_wait.fn(w, timeout=timeout)
            outcomes.append(('returned', r))
        except Exception as e:
            outcomes.append(('raised', e))
        vc.ensure('unsupported_uses_refused_loudly', type(w).wait is aioenums.FlagWaiter.wait)
    if kind != 2:       # the promise overrides __await__ (S6); `await stopped` on the others is refused
        try:
            r = ld_await.fn(w)
            outcomes.append(('returned', r))
        except Exception as e:
            outcomes.append(('raised', e))
        vc.ensure('unsupported_uses_refused_loudly', type(w).__await__ is aioenums.FlagWaiter.__await__)
    # "loudly": an error that tells the user, never a silent "not stopped yet" / "stopped" answer or a hang
    vc.ensure('unsupported_uses_refused_loudly', all(k == 'raised' and isinstance(v, NotImplementedError) and str(v) for k, v in outcomes))
    vc.ensure('unsupported_uses_refused_loudly', me.sync_event.touched + me.async_event.touched == 0 and me.sync_event.state is ev0)
    vc.canary('canary.waits_fine', any(k == 'returned' for k, v in outcomes))
    return ('refusals', kind)


def _ak4_promise(vc):
    import types
    from kopf._cogs.aiokits import aioenums
    me, ev0 = _ak4_setter(vc)
    w = aioenums.AsyncFlagWaiter.__new__(aioenums.AsyncFlagWaiter)
    _ak4_waiter_init(vc, w, me)
    vc.ensure('waiter_init_binds_setter', w._setter is me)
    timeout = vc.opt('timeout', vc.real)
    promise = aioenums.AsyncFlagPromise.__new__(aioenums.AsyncFlagPromise)
    supers = []

    def super_():
        def init(*a, **kw):
            supers.append((a, kw)); _ak4_waiter_init(vc, promise, *a, **kw)
        return types.SimpleNamespace(__init__=init)
    ld = vc.load('kopf._cogs.aiokits.aioenums', 'AsyncFlagPromise.__init__', stubs={'super': super_})
    ld.fn(promise, w, timeout=timeout)
    ld_b = vc.load('kopf._cogs.aiokits.aioenums', 'FlagWaiter.__bool__')
    ld_is = vc.load('kopf._cogs.aiokits.aioenums', 'FlagWaiter.is_set')
    ld_r = vc.load('kopf._cogs.aiokits.aioenums', 'FlagWaiter.reason')
    vc.ensure('promise_remembers_waiter_and_timeout', promise._waiter is w and
              (promise._timeout is None if timeout is None else Eq(promise._timeout, timeout)))
    # the promise is itself a checker of the SAME flag: `if stopped.wait(5): ...` un-awaited, or `p = stopped.wait(5);
    # ...; bool(p)` must tell the truth about the daemon's stopper, now and later
    vc.ensure('promise_is_a_live_view_of_the_same_flag', promise._setter is me and len(supers) == 1)
    vc.ensure('promise_is_a_live_view_of_the_same_flag', And(Iff(ld_b.fn(promise), ev0), Iff(ld_is.fn(promise), ev0)))
    vc.ensure('promise_is_a_live_view_of_the_same_flag', ld_r.fn(promise) is me.reason)
    later = vc.bool('event@later'); vc.assume(Implies(ev0, later), 'the flag is only ever raised (S6: never_cleared)')
    me.sync_event.state = me.async_event.state = later
    me.reason = Opaque('more-reasons')
    vc.ensure('promise_is_a_live_view_of_the_same_flag', And(Iff(ld_b.fn(promise), later), Iff(ld_is.fn(promise), later),
                                                              Iff(ld_b.fn(w), later)))
    vc.ensure('promise_is_a_live_view_of_the_same_flag', ld_r.fn(promise) is me.reason and ld_r.fn(w) is me.reason)
    vc.canary('canary.never_set', Not(ld_b.fn(promise)))
    return ('promise', timeout is None)


def _ak4_reasons(vc):
    import enum
    from kopf._cogs.aiokits import aioenums
    from kopf._core.intents import stoppers
    SR = stoppers.DaemonStoppingReason
    wanted = ['DONE', 'FILTERS_MISMATCH', 'RESOURCE_DELETED', 'OPERATOR_PAUSING', 'OPERATOR_EXITING',
              'DAEMON_SIGNALLED', 'DAEMON_CANCELLED', 'DAEMON_ABANDONED']
    # by name (iterating a Flag class skips aliases and multi-bit members) plus whatever else the class defines
    members = [m for n, m in SR.__members__.items()]
    members = [m for i, m in enumerate(members) if not any(m is x for x in members[:i])]
    # every reason the daemon engine raises / tests (D1..D5, S6: SymFlag has one independent bit per member) exists,
    # is non-empty, and no two of them share a bit: `r in stopper.reason` is true for exactly the reasons given
    vc.ensure('reasons_are_independent_flags', issubclass(SR, enum.Flag) and all(hasattr(SR, n) for n in wanted)
              and len({getattr(SR, n, None) for n in wanted}) == len(wanted))
    vc.ensure('reasons_are_independent_flags', all(m.value != 0 and m.value & (m.value - 1) == 0 for m in members)
              and all((a & b).value == 0 and a not in b and a in (a | b) and b in (a | b)
                      for i, a in enumerate(members) for b in members[i + 1:]))
    i = vc.nondet(len(members), 'a member')
    rest = SR(0)
    for j, m in enumerate(members):
        if j != i:
            rest = rest | m
    vc.ensure('reasons_are_independent_flags', members[i] not in rest and all(m in rest for j, m in enumerate(members) if j != i))
    # the names the rest of the framework (and the users' annotations) use denote the aioenums classes contracted by S6
    vc.ensure('stopper_aliases_denote_the_flag_classes', all([
        getattr(stoppers.DaemonStopper, '__origin__', stoppers.DaemonStopper) is aioenums.FlagSetter,
        getattr(stoppers.DaemonStopped, '__origin__', stoppers.DaemonStopped) is aioenums.FlagWaiter,
        getattr(stoppers.SyncDaemonStopperChecker, '__origin__', stoppers.SyncDaemonStopperChecker) is aioenums.SyncFlagWaiter,
        getattr(stoppers.AsyncDaemonStopperChecker, '__origin__', stoppers.AsyncDaemonStopperChecker) is aioenums.AsyncFlagWaiter]))
    vc.ensure('stopper_aliases_denote_the_flag_classes', issubclass(aioenums.SyncFlagWaiter, aioenums.FlagWaiter)
              and issubclass(aioenums.AsyncFlagWaiter, aioenums.FlagWaiter) and issubclass(aioenums.AsyncFlagPromise, aioenums.FlagWaiter))
    vc.canary('canary.never_set', i == 0)
    return ('reasons', i)


@harness('AK4', targets=['kopf._cogs.aiokits.aioenums.FlagWaiter.__init__', 'kopf._cogs.aiokits.aioenums.FlagWaiter.wait',
                         'kopf._cogs.aiokits.aioenums.FlagWaiter.__await__', 'kopf._cogs.aiokits.aioenums.AsyncFlagPromise.__init__',
                         'kopf._core.intents.stoppers.DaemonStoppingReason'],
         props=['C09', 'C10', 'C13'],
         clauses=['unsupported_uses_refused_loudly', 'waiter_init_binds_setter', 'promise_remembers_waiter_and_timeout',
                  'promise_is_a_live_view_of_the_same_flag', 'reasons_are_independent_flags', 'stopper_aliases_denote_the_flag_classes'],
         canaries=['canary.waits_fine', 'canary.never_set'],
         trusted=['threading.Event / asyncio.Event: a boolean cell', 'FlagSetter.is_set by contract S6 (the real method runs natively)',
                  'enum.Flag operators of the standard library (checked on the concrete members, not modelled)'])
def AK4(vc):
    """
    What S6 (contracts/w2_admission_misc.py) leaves of the `stopped` kwarg of daemons (docs/daemons.rst: `while not stopped`,
    `stopped.wait(10)`, `await stopped.wait(10)`; docs/kwargs.rst) and kopf/_core/intents/stoppers.py:
      waiter_init_binds_setter            a checker looks at the setter it was made for
      promise_remembers_waiter_and_timeout    AsyncFlagPromise(waiter, timeout=t) keeps both (S6 proves what __await__ does with them)
      promise_is_a_live_view_of_the_same_flag the object returned by `stopped.wait(t)` is a checker of the SAME stopper: its
                                          truth value / is_set() / reason equal the setter's, before and after the flag is
                                          raised by another task (it does not freeze the state of its creation)
      unsupported_uses_refused_loudly     `await stopped` (not `.wait()`), `.wait()` on the bare base checker and chained
                                          `stopped.wait(a).wait(b)` raise NotImplementedError with a message, whatever the
                                          flag's state, without touching the events -- never a silent wrong answer or a hang
      reasons_are_independent_flags       DaemonStoppingReason: the 8 reasons used by the daemon contracts exist, each is one
                                          non-zero bit, pairwise disjoint; `r in (union of the others)` is False -- the bit
                                          model of S6 (SymFlag) / SymStopper (one boolean per member) is the real enum's
      stopper_aliases_denote_the_flag_classes   DaemonStopper / DaemonStopped / the deprecated checker names are the aioenums
                                          classes; all waiters derive from FlagWaiter (what `stopped: kopf.DaemonStopped` promises)
    """
    k = vc.nondet(3, 'scenario: refused uses / the promise as a checker / the reasons enum')
    if k == 0:
        return _ak4_refusals(vc)
    if k == 1:
        return _ak4_promise(vc)
    return _ak4_reasons(vc)


# =============================================================================================== AK5
class _Boom(Exception):
    """any failure of the user's server/tunnel, of the context manager, or of the container"""


@harness('AK5', targets='kopf._core.engines.admission.admission_webhook_server', props=['C18', 'C20'],
         clause_props={'misconfiguration_fails_at_start': ['C18', 'C20'], 'server_end_or_failure_ends_the_task': ['C18', 'C20']},
         clauses=['misconfiguration_fails_at_start', 'not_served_before_resources_are_scanned', 'no_server_idles_forever',
                  'server_gets_the_webhook_function', 'every_client_config_reaches_the_container', 'context_manager_bracket',
                  'server_end_or_failure_ends_the_task'],
         canaries=['canary.never_publishes', 'canary.never_fails', 'canary.always_serves'],
         trusted=['aiovalues.Container.set by contract AK1 (stores + wakes the managers; may suspend on the lock)',
                  'settings.admission.server: the documented protocol (docs/admission.rst "Custom servers/tunnels"): a callable '
                  'taking the webhook function and returning an async iterator of client configs, optionally wrapped into an '
                  'async context manager whose __aenter__ gives that callable',
                  'asyncio.Event().wait() on an event nobody sets never returns', 'WebhooksRegistry.get_all_handlers (R5/M3)'])
def AK5(vc):
    """
    admission_webhook_server -- the root task that runs the user's webhook server/tunnel and publishes every client config
    it yields to the configuration managers (AK1 Container -> M5).  Server: None / a plain callable / an async context
    manager; admission handlers: none / one / several (list or tuple); configs: arbitrary objects.
      misconfiguration_fails_at_start   handlers exist but settings.admission.server is None: an Exception with a hint is
                                        raised at once (docs, AdmissionSettings.server: "an error is raised and the operator
                                        fails to start") -- before waiting for anything, nothing served, nothing published
      not_served_before_resources_are_scanned   the server is neither entered nor called before insights.ready_resources
                                        was awaited (requests arriving earlier would get 404)
      no_server_idles_forever           no server and no handlers: the task sleeps forever (it must not end: a finished
                                        root task stops the operator), publishes nothing; only a cancellation ends it
      server_gets_the_webhook_function  the server callable is called exactly once, with the webhook function it was given
      every_client_config_reaches_the_container   loop contract over `async for client_config in <server>(webhookfn)`: for
                                        EVERY yielded config exactly one `container.set(<that config>)` is completed before
                                        the next config is asked for -- initial one and every later update, in order
      context_manager_bracket           a context-manager server is entered before and exited after the serving, exactly
                                        once, also when the stream fails, the publishing fails or the task is cancelled;
                                        the callable used is the one __aenter__ returned
      server_end_or_failure_ends_the_task   the stream ends => the task returns (docs: "once it exits, the whole operator
                                        stops"); a failure / cancellation propagates as that very exception
    """
    kind = ['none', 'callable', 'context-manager'][vc.nondet(3, 'settings.admission.server: None / callable / async context manager')]
    hs = [[], [Opaque('h1')], (Opaque('h1'), Opaque('h2'))][vc.nondet(3, 'admission handlers: none / one (list) / two (tuple)')]
    tr = vc.trace
    thrown = []
    webhookfn, stream = Opaque('webhookfn'), Opaque('stream-of-client-configs')

    class Webhooks:
        def get_all_handlers(self):
            vc.emit('get_all_handlers'); return hs

    class Ready:
        async def wait(self):
            vc.emit('ready_resources.wait'); await suspend('ready_resources'); vc.emit('ready_resources.done'); return True

    class Forever:
        async def wait(self):
            vc.emit('wait-forever'); await suspend('forever')
            raise Unsupported('an Event nobody sets was "set"')

    class Server:
        def __init__(self, name): self.name = name
        def __repr__(self): return f'<{self.name}>'
        def __call__(self, *a, **kw):
            vc.emit('server.call', self, a, kw); return stream

    inner = Server('server-from-aenter')

    class Manager(Server):
        async def __aenter__(self):
            vc.emit('server.enter', self); await suspend('server.enter')
            if vc.nondet(2, '__aenter__: ok / fails') == 1:
                thrown.append(_Boom('enter')); raise thrown[-1]
            return inner

        async def __aexit__(self, et, ev, tb):
            vc.emit('server.exit', self, ev); return False

    server = None if kind == 'none' else Server('plain-server') if kind == 'callable' else Manager('server-manager')
    expected_callee = server if kind == 'callable' else inner

    class Box:
        async def set(self, value):
            vc.emit('container.set', value); await suspend('container.set')
            if vc.nondet(2, 'container.set: ok / fails') == 1:
                thrown.append(_Boom('set')); raise thrown[-1]
            vc.emit('container.set.done', value)
    container = Box()
    settings = Opaque('settings', admission=Opaque('settings.admission', server=server, managed=None))
    registry = Opaque('registry', _webhooks=Webhooks())
    insights = Opaque('insights', ready_resources=Ready())
    st = Opaque('loop-state', head=None, cfg=None, ended=None)

    def check_call():
        calls = _events(tr, 'server.call')
        vc.ensure('server_gets_the_webhook_function', len(calls) == 1 and calls[0][1] is expected_callee
                  and list(calls[0][2]) == [webhookfn] and not calls[0][3])
        if kind == 'context-manager':
            names = [ev[0] for ev in tr]
            vc.ensure('context_manager_bracket', names.count('server.enter') == 1 and names.index('server.enter') < names.index('server.call')
                      and 'server.exit' not in names)

    def havoc(loc):
        st.head = len(tr); st.cfg = None
        return {}

    def element(loc, iterable):
        vc.ensure('server_gets_the_webhook_function', iterable is stream)
        check_call()
        k = vc.nondet(4, 'the server: yields a client config / ends / fails / the task is cancelled')
        if k == 1:
            st.ended = 'end'; return _STOP
        if k == 2:
            st.ended = 'fail'; thrown.append(_Boom('server')); raise thrown[-1]
        if k == 3:
            st.ended = 'cancel'; thrown.append(asyncio.CancelledError()); raise thrown[-1]
        st.cfg = [Opaque('client-config'), {}, None][vc.nondet(3, 'config: a dict-like / empty dict / None')]
        return st.cfg

    def at_backedge(loc):
        sets = [ev for ev in tr[st.head:] if ev[0] in ('container.set', 'container.set.done')]
        vc.ensure('every_client_config_reaches_the_container', [ev[0] for ev in sets] == ['container.set', 'container.set.done']
                  and all(ev[1] is st.cfg for ev in sets))
        vc.canary('canary.never_publishes', False)
    spec = lambda anchor: LoopSpec(anchor, name='serving', havoc=havoc, element=element, at_backedge=at_backedge)
    ld = vc.load('kopf._core.engines.admission', 'admission_webhook_server', stubs={'asyncio.Event': Forever, 'logger': NullLogger()},
                 loops={1: spec('async for client_config in'), 2: spec('async for client_config in')})

    def on_suspend(site):
        if site == 'forever' or (site != 'container.set' and not thrown and vc.nondet(2, f'cancelled at {site}?') == 1):
            thrown.append(asyncio.CancelledError()); return thrown[-1]
        if site == 'container.set' and not thrown and vc.nondet(2, 'cancelled while publishing?') == 1:
            thrown.append(asyncio.CancelledError()); return thrown[-1]
    r, raised = _run(vc, ld.fn(settings=settings, registry=registry, insights=insights, webhookfn=webhookfn, container=container), on_suspend)
    names = [ev[0] for ev in tr]
    vc.canary('canary.never_fails', raised is None)
    vc.canary('canary.always_serves', 'server.call' in names)
    # ---- before the serving starts
    if kind == 'none' and len(hs) > 0:
        vc.ensure('misconfiguration_fails_at_start', isinstance(raised, Exception) and not thrown and bool(str(raised))
                  and names == ['get_all_handlers'])
        return ('misconfigured',)
    vc.ensure('misconfiguration_fails_at_start', not (raised is not None and not thrown))       # no error of its own otherwise
    started = [i for i, n in enumerate(names) if n in ('server.enter', 'server.call', 'wait-forever', 'container.set')]
    vc.ensure('not_served_before_resources_are_scanned', names.count('ready_resources.wait') == 1
              and all('ready_resources.done' in names[:i] for i in started))
    if kind == 'none':
        vc.ensure('no_server_idles_forever', bool(thrown) and raised is thrown[0] and isinstance(raised, asyncio.CancelledError)
                  and 'container.set' not in names and 'server.call' not in names)
        if 'ready_resources.done' in names:
            vc.ensure('no_server_idles_forever', names.count('wait-forever') == 1)
        return ('no-server', names.count('wait-forever'))
    # ---- how the serving ended (rounds that complete end at the back edge above)
    if kind == 'context-manager' and 'server.enter' in names:
        entered_ok = not (thrown and isinstance(thrown[0], _Boom) and thrown[0].args == ('enter',)) \
            and not (names[-1] == 'server.enter' and raised is not None)
        exits = _events(tr, 'server.exit')
        if entered_ok:
            vc.ensure('context_manager_bracket', len(exits) == 1 and names[-1] == 'server.exit' and exits[0][1] is server
                      and exits[0][2] is raised)
        else:
            vc.ensure('context_manager_bracket', not exits and 'server.call' not in names)
    if kind == 'callable':
        vc.ensure('context_manager_bracket', 'server.enter' not in names and 'server.exit' not in names)
    if thrown:
        vc.ensure('server_end_or_failure_ends_the_task', raised is thrown[0] and len(thrown) == 1)
    else:
        vc.ensure('server_end_or_failure_ends_the_task', raised is None and r is None and st.ended == 'end')
    if st.cfg is not None or (st.head is not None and 'container.set' in names[st.head:]):
        # left from inside a round: the publishing failed or was cancelled -- it was attempted once, with that config
        sets = [ev for ev in tr[st.head:] if ev[0] == 'container.set']
        vc.ensure('every_client_config_reaches_the_container', len(sets) == 1 and sets[0][1] is st.cfg and raised is not None)
    return ('served', kind, st.ended, type(raised).__name__)


# =============================================================================================== AK6
@harness('AK6', targets=['kopf._core.engines.admission.validating_configuration_manager',
                         'kopf._core.engines.admission.mutating_configuration_manager'], props=['C18'],
         clauses=['manages_its_own_kind_of_configuration', 'handler_type_matches_configuration_kind', 'operator_objects_passed_through',
                  'one_manager_run_to_its_end', 'outcome_is_the_managers'],
         canaries=['canary.never_fails', 'canary.always_validating'],
         trusted=['admission.configuration_manager by contract M5 (reason: which handlers; selector: which configuration resource)',
                  'references.Selector.check (R-harnesses of w2_observation) runs natively on two concrete resources'])
def AK6(vc):
    """
    The two root tasks "admission validating/mutating configuration manager" (running.spawn_tasks) are configuration_manager
    (M5) specialised.  M5 proves: the manager patches the resource found by `selector` with the webhooks of the handlers
    whose reason is `reason`.  Here: each wrapper starts exactly one such manager, for the right pair --
      manages_its_own_kind_of_configuration   the selector of the validating manager selects
                                        admissionregistration.k8s.io validatingwebhookconfigurations and NOT the mutating ones,
                                        and vice versa (docs/admission.rst RBAC; the API server reads validating webhooks only
                                        from ValidatingWebhookConfiguration objects)
      handler_type_matches_configuration_kind   reason is WebhookType.VALIDATING for the validating manager, MUTATING for the
                                        mutating one (a mutating handler's patch in a validating configuration is rejected
                                        by Kubernetes; C18 "only handlers matching ... run")
      operator_objects_passed_through   registry / settings / insights / container are the operator's own objects, unswapped
      one_manager_run_to_its_end        exactly one manager is started and the wrapper does not return before it has ended
      outcome_is_the_managers           it returns when the manager returns and fails with the manager's very exception
                                        (also a cancellation) -- nothing is swallowed: the root task's failure stops the operator
    """
    from kopf._cogs.structs import references
    from kopf._core.intents import causes
    which = ['validating', 'mutating'][vc.nondet(2, 'wrapper: validating / mutating')]
    registry, settings, insights, container = Opaque('registry'), Opaque('settings'), Opaque('insights'), Opaque('container')
    calls, thrown = [], []
    outcome = ['returns', 'fails', 'cancelled'][vc.nondet(3, 'the manager: returns / fails / is cancelled')]

    async def configuration_manager(*a, **kw):
        calls.append((a, kw)); vc.emit('manager.started')
        await suspend('manager.running')
        if outcome == 'fails':
            thrown.append(_Boom('manager')); raise thrown[-1]
        vc.emit('manager.ended')
        return None
    ld = vc.load('kopf._core.engines.admission', f'{which}_configuration_manager',
                 stubs={'configuration_manager': configuration_manager, 'logger': NullLogger()})
    vc.used('admission.configuration_manager', 'M5')

    def on_suspend(site):
        if outcome == 'cancelled':
            thrown.append(asyncio.CancelledError()); return thrown[-1]
    r, raised = _run(vc, ld.fn(registry=registry, settings=settings, insights=insights, container=container), on_suspend)
    names = [ev[0] for ev in vc.trace]
    vc.ensure('one_manager_run_to_its_end', len(calls) == 1 and names.count('manager.started') == 1
              and (names == ['manager.started', 'manager.ended'] if outcome == 'returns' else names == ['manager.started']))
    vc.ensure('outcome_is_the_managers', (raised is None and r is None) if outcome == 'returns' else (bool(thrown) and raised is thrown[0]))
    vc.canary('canary.never_fails', raised is None)
    if len(calls) != 1:
        return ('no-single-call', len(calls))
    a, kw = calls[0]
    vc.ensure('operator_objects_passed_through', not a and kw.get('registry') is registry and kw.get('settings') is settings
              and kw.get('insights') is insights and kw.get('container') is container
              and sorted(kw) == ['container', 'insights', 'reason', 'registry', 'selector', 'settings'])
    reason, selector = kw.get('reason'), kw.get('selector')
    WT = causes.WebhookType
    vc.ensure('handler_type_matches_configuration_kind', reason is (WT.VALIDATING if which == 'validating' else WT.MUTATING))
    kinds = {k: references.Resource(group='admissionregistration.k8s.io', version='v1', plural=f'{k}webhookconfigurations',
                                    kind=f'{k.capitalize()}WebhookConfiguration', singular=f'{k}webhookconfiguration',
                                    namespaced=False, preferred=True) for k in ('validating', 'mutating')}
    other = 'mutating' if which == 'validating' else 'validating'
    vc.ensure('manages_its_own_kind_of_configuration', isinstance(selector, references.Selector)
              and selector.check(kinds[which]) is True and selector.check(kinds[other]) is False)
    vc.canary('canary.always_validating', reason is WT.VALIDATING)
    return (which, outcome)
