"""C16/C02: operation SEQUENCES on one patch over an object that already carries records (bounded stand-in E5q)."""
import itertools

from pyvc import *
from pyvc.bounded import bounded


@bounded('E5q', targets=['kopf._cogs.configs.progress.AnnotationsProgressStorage.store', 'kopf._cogs.configs.progress.AnnotationsProgressStorage.purge',
                        'kopf._cogs.configs.progress.StatusProgressStorage.store', 'kopf._cogs.configs.progress.StatusProgressStorage.purge',
                        'kopf._cogs.configs.progress.MultiProgressStorage.store', 'kopf._cogs.configs.progress.MultiProgressStorage.purge',
                        'kopf._cogs.configs.diffbase.AnnotationsDiffBaseStorage.store', 'kopf._cogs.configs.diffbase.StatusDiffBaseStorage.store'],
         props=['C16', 'C02', 'C03', 'C04', 'C06', 'C08', 'C14', 'C15', 'C05'],
         clauses=['last_write_wins', 'sequence_leaves_others_alone', 'diffbase_last_write_wins'],
         universe='progress storages: status + Annotations/Smart/Multi x 3 prefixes x v1 {T,F} (19); object state for the id: no record / record X / '
                  'record Y (as left by an earlier applied store), in 2 bodies (user data shared with another operator; ReplicaSet of a Deployment); '
                  '4 ids (plain, field-suffixed, 64 and 300 chars); ALL sequences of 1..3 operations from {store X, store Y, purge} on ONE patch (39); '
                  'diff-base storages (13 configurations): object state {none, essence A, essence B} x all sequences of 1..2 stores of {A, B}')
def E5q(b):
    """
    Property C16 ("whatever ... is stored ... is read back identically from the patched object, can be purged completely, and never disturbs
    other handlers' records") for operation sequences, as kopf issues them within one processing cycle (State.purge then State.store on the
    same patch when a cause is superseded; several stores of one id from sub-handler bookkeeping):
      last_write_wins               after merge(object, patch_of(op1; ..; opN)) fetch(id) is the record of the LAST store after the last purge,
                                    or None when the last operation is a purge -- whatever the object already carried for that id
                                    (nothing / the same record / another record) and whatever is pending in the patch
      sequence_leaves_others_alone  ... and another id's record, another operator's records and user data are as before
      diffbase_last_write_wins      the same for the last-handled state: fetch == the essence stored last
    Bounded stand-in (labelled B): json.dumps/loads + recursive dicts.ensure/resolve/remove + key forming compose here; exhaustive over the
    stated universe.
    """
    from contracts.c04_essence import PREFIXES, apply_merge_patch, make_config
    from contracts.c16_storage import _e5_bodies, _no_nones, _own_locations, _strip_own, _wire
    from kopf._cogs.structs import bodies, patches

    X = dict(started='2020-01-01T00:00:00', stopped=None, delayed='2020-01-01T00:01:00', purpose='update', retries=1, success=None,
             failure=None, message='first error', subrefs=None)
    Y = dict(started='2020-01-01T00:00:00', stopped='2020-01-01T00:02:00', delayed=None, purpose='update', retries=2, success=True,
             failure=False, message=None, subrefs=None)
    OTHER = dict(started='2019-01-01T00:00:00', retries=0, purpose='create')
    RECS = {'X': X, 'Y': Y}
    OPS = ('store X', 'store Y', 'purge')
    SEQS = [s for n in (1, 2, 3) for s in itertools.product(OPS, repeat=n)]
    IDS = ('fn', 'fn/spec.x', 'x' * 64, 'z' * 300)
    storages = [('status', 'status', None, make_config('status', 'status', PREFIXES[0], True).progress)]
    for pk in ('annotations', 'smart', 'multi'):
        for prefix in PREFIXES:
            for v1 in (True, False):
                storages.append((f'{pk}[{prefix},v1={v1}]', pk, prefix, make_config(pk, 'status', prefix, v1).progress))

    def apply(body, fn):
        patch = patches.Patch()
        fn(bodies.Body(body), patch)
        wire = _wire(patch)
        return apply_merge_patch(body, wire), wire

    for sname, pk, prefix, st in storages:
        other_prefix = next(p for p in PREFIXES if p != prefix)
        other = make_config('annotations', 'annotations', other_prefix, True)
        markers = {f'{p}/kopf-managed' for p in PREFIXES}
        for bname, body0 in _e5_bodies(other.progress)[2:]:
            for hid in IDS:
                hid2 = 'neighbour'
                keys, in_status = _own_locations(pk, st, hid, body0)
                body1, _ = apply(body0, lambda bd, p: st.store(key=hid2, record=dict(OTHER), body=bd, patch=p))
                for initial in (None, 'X', 'Y'):
                    if initial is None:
                        obj = body1
                    else:
                        obj, _ = apply(body1, lambda bd, p: st.store(key=hid, record=dict(RECS[initial]), body=bd, patch=p))
                    for seq in SEQS:
                        b.case(key=(sname, bname, hid if len(hid) < 70 else len(hid), initial, seq))

                        def run(bd, p):
                            for op in seq:
                                if op == 'purge':
                                    st.purge(key=hid, body=bd, patch=p)
                                else:
                                    st.store(key=hid, record=dict(RECS[op[-1]]), body=bd, patch=p)
                        after, wire = apply(obj, run)
                        want = None if seq[-1] == 'purge' else RECS[seq[-1][-1]]
                        got = st.fetch(key=hid, body=bodies.Body(after))
                        ctx = lambda: dict(storage=sname, body=bname, id=hid if len(hid) < 70 else f'{hid[:10]}...({len(hid)})',
                                           object_had=initial, operations=list(seq), fetched=got, expected=want, patch=wire)
                        b.check('last_write_wins', (got is None) if want is None else (got is not None and _no_nones(got) == _no_nones(want)), ctx)
                        b.check('sequence_leaves_others_alone',
                                st.fetch(key=hid2, body=bodies.Body(after)) == st.fetch(key=hid2, body=bodies.Body(obj))
                                and _strip_own(after, keys, in_status, hid, markers) == _strip_own(obj, keys, in_status, hid, markers), ctx)

    # ---- the last-handled state
    A = {'spec': {'x': 1, 'list': [1, 2]}, 'metadata': {'labels': {'a': 'b'}}}
    B = {'spec': {'x': 2}}
    ESS = {'A': A, 'B': B}
    dstorages = [('status', make_config('status', 'status', PREFIXES[0], True).diffbase)]
    for dk in ('annotations', 'multi'):
        for prefix in PREFIXES:
            for v1 in (True, False):
                dstorages.append((f'{dk}[{prefix},v1={v1}]', make_config('status', dk, prefix, v1).diffbase))
    other = make_config('annotations', 'annotations', PREFIXES[0], True)
    for dname, ds in dstorages:
        for bname, body0 in _e5_bodies(other.progress)[:2]:
            for initial in (None, 'A', 'B'):
                obj = body0 if initial is None else apply(body0, lambda bd, p: ds.store(body=bd, patch=p, essence=ESS[initial]))[0]
                for seq in [s for n in (1, 2) for s in itertools.product('AB', repeat=n)]:
                    b.case(key=('diffbase', dname, bname, initial, seq))

                    def run(bd, p):
                        for e in seq:
                            ds.store(body=bd, patch=p, essence=ESS[e])
                    after, wire = apply(obj, run)
                    got = ds.fetch(body=bodies.Body(after))
                    b.check('diffbase_last_write_wins', got == ESS[seq[-1]],
                            lambda: dict(storage=dname, body=bname, object_had=initial, stores=list(seq), fetched=got, expected=ESS[seq[-1]], patch=wire))
