"""Fifth-wave contracts (builder w5-observation): DEDUCTIVE contracts for the two functions of
kopf._core.reactor.observation that had bounded stand-ins only:

  O4d  observation._update_resources   (bounded: O4 in c19_watching.py)  -- for ARBITRARY selectors (Selector.select by its
       contract R14), any number (0..2) of them, every scope (None / a group / the core group '' / a group nobody has)
  O7r  observation.revise_resources    (bounded: O7 in w2_observation.py) -- which dimension is revised with which
       selectors, and the order of update and disabling; alone, and inlined into its two callers
       (process_discovered_resource_event / resource_observer) for the order  scan -> lock -> update -> notify -> ready.

The engine has no symbolic-set proxy: the SETS are real Python sets of real `references.Resource` objects whose membership
is decided by path forks (every combination is a path); what is symbolic -- and what O4 could not quantify over -- is the
behaviour of the selectors: `select(collection)` is ANY deterministic function whose result is a subset of the collection.
"""
import inspect

from pyvc import *
from pyvc.stubs import Opaque, NullLogger, exception_reps
from kopf._cogs.clients import errors
from kopf._cogs.structs import references

from contracts.w2_observation import _Revised, _ReadyFlag, _AsyncioStub, _Idle, _names, _ours

OBS = 'kopf._core.reactor.observation'


# ================================================================================================ O4d
class _ContractSelector:
    """references.Selector by contract R14 (select_filters): select(collection) is a deterministic function of the selector
    and the collection's content; its result holds only objects OF that collection.  Nothing else is promised (the core-v1
    preference makes it more than a per-resource predicate), so the answer for every (collection, member) is a free boolean."""
    def __init__(self, vc, idx, label_of):
        self.vc, self.idx, self.label_of, self.flags, self.asked = vc, idx, label_of, {}, []

    def __hash__(self):          # a stable iteration order of the frozenset the selectors arrive in
        return self.idx

    def __eq__(self, other):
        return self is other

    def __repr__(self):
        return f'<selector{self.idx}>'

    def key(self, rs):
        return tuple(sorted(self.label_of(r) for r in rs))

    def says(self, key, label):
        if (key, label) not in self.flags:
            self.flags[(key, label)] = self.vc.bool(f'selector{self.idx}.select({",".join(key)}) has {label}')
        return self.flags[(key, label)]

    def select(self, rs):
        rs = list(rs)
        key = self.key(rs)
        self.asked.append(key)
        return {r for r in sorted(rs, key=self.label_of) if self.says(key, self.label_of(r))}          # forks


O4D_KINDS = [('example.com', 'v1', 'things'), ('example.com', 'v2', 'things'), ('', 'v1', 'pods')]
O4D_SCOPES = [None, 'example.com', '', 'other.io']


def _o4d_resource(kind, fresh):
    g, v, p = kind
    # Resource.__eq__/__hash__ look at (group, version, plural) only: the old and the fresh object of one kind are EQUAL
    # but differ in what the selectors look at (categories, preferred) and in what the disabling looks at (verbs)
    return references.Resource(group=g, version=v, plural=p, kind=p.capitalize(), singular=p[:-1], shortcuts=frozenset(),
                               categories=frozenset({'fresh'} if fresh else {'stale'}), subresources=frozenset(), namespaced=True,
                               preferred=fresh, verbs=frozenset({'list', 'watch', 'patch'} if fresh else {'list', 'watch'}))


@harness('O4d', targets=f'{OBS}._update_resources', props=['C19', 'C08', 'C15', 'C17', 'C18'],
         clauses=['served_set_is_exactly_the_selected', 'served_objects_are_fresh', 'other_groups_untouched',
                  'selectors_see_the_discovered_resources', 'nothing_foreign_served', 'never_raises'],
         canaries=['canary.nothing_dropped', 'canary.nothing_added', 'canary.stale_objects_kept'],
         trusted=['set.difference_update / set.update (real sets of real Resource objects)'])
def O4d(vc):
    """
    observation._update_resources(served, selectors, group=, source=) -- C19 "for every sequence of ... resource kinds
    appearing and disappearing, exactly one watch per served (resource, namespace) pair and none for anything else":
    after the call, with scope := every group (group=None) or the one re-scanned group,
      * a kind IN scope is served iff it was discovered (is in `source`) and SOME selector selects it from the discovered
        resources -- a kind that is gone, or that still exists but is no longer selected, is not served; one that
        appeared is; the served object IS the freshly discovered one (Resource objects are equal on group/version/plural
        only: a stale object would keep its old categories/preferred/verbs and hide the change from selectors/disabling);
      * a kind OUT of scope is served iff it was before, by the very same object (the core group '' is a group like any
        other, a re-scan of a group that has no resources changes nothing);
      * nothing but old/discovered objects is served; the selectors are consulted with the discovered resources only;
        no exception -- also with no selectors at all and with an empty discovery.
    Selectors: 0, 1 or 2 stubs of Selector.select by contract R14 (a deterministic function of the collection, result a
    subset of it; every answer a free boolean) in a frozenset, as the registry hands them over.
    Sizes: 3 kinds (2 of example.com, 1 of the core group), each with a stale object (served before or not: 8 prior sets) and
    a fresh one (discovered or not; precondition from scanning.scan_resources(groups={g}): the source of a group scan
    holds that group's resources only); scope in {None, 'example.com', '', 'other.io'}; source as tuple / set / list.
    Membership is decided by path forks (no symbolic sets in the engine), the selectors' behaviour is symbolic.
    """
    old = [_o4d_resource(k, False) for k in O4D_KINDS]
    new = [_o4d_resource(k, True) for k in O4D_KINDS]
    labels = {id(r): f'{r!r}:stale' for r in old} | {id(r): f'{r!r}:fresh' for r in new}
    label_of = lambda r: labels.get(id(r), f'{r!r}:foreign')
    group = O4D_SCOPES[vc.nondet(len(O4D_SCOPES), 'scope: None / example.com / core / a group without resources')]
    in_scope = [group is None or k[0] == group for k in O4D_KINDS]
    nsel = vc.nondet(3, 'number of selectors')
    was = [vc.nondet(2, f'served before: {k}') == 1 for k in O4D_KINDS]
    found = [in_scope[i] and vc.nondet(2, f'discovered: {k}') == 1 for i, k in enumerate(O4D_KINDS)]
    served = {r for r, w in zip(old, was) if w}
    src = [r for r, f in zip(new, found) if f]
    source = [tuple, set, list][nsel](src)
    sels = [_ContractSelector(vc, i, label_of) for i in range(nsel)]
    vc.used('references.Selector.select', 'R14')
    ld = vc.load(OBS, '_update_resources', stubs={'logger': NullLogger()})
    raised = None
    try:
        res = ld.fn(served, frozenset(sels), group=group, source=source)
    except Exception as e:
        if _ours(e):
            raise
        raised = e
    vc.ensure('never_raises', raised is None)
    if raised is not None:
        return ('raised', type(raised).__name__)
    src_key = tuple(sorted(label_of(r) for r in src))
    for i, k in enumerate(O4D_KINDS):
        got = [r for r in served if r == old[i]]
        now = len(got) == 1
        if in_scope[i]:
            selected = Or(False, *[s.says(src_key, label_of(new[i])) for s in sels]) if found[i] else False
            vc.ensure('served_set_is_exactly_the_selected', Iff(now, selected))
            vc.ensure('served_objects_are_fresh', not now or got[0] is new[i])
            vc.canary('canary.stale_objects_kept', not now or got[0] is old[i])
        else:
            vc.ensure('other_groups_untouched', now == was[i] and (not now or got[0] is old[i]))
        vc.canary('canary.nothing_dropped', not was[i] or now)
        vc.canary('canary.nothing_added', was[i] or not now)
    vc.ensure('nothing_foreign_served', all(id(r) in labels for r in served) and res is None)
    vc.ensure('selectors_see_the_discovered_resources', all(key == src_key for s in sels for key in s.asked))
    return ('updated', group, nsel, tuple(sorted(label_of(r) for r in served)))


# ================================================================================================ O7r
SECTIONS = ('_webhooks', '_indexing', '_watching', '_spawning', '_changing')


class _Section:
    def __init__(self, vc, name, sels, handlers=()):
        self.vc, self.name, self.sels, self.handlers = vc, name, frozenset(sels), list(handlers)

    def get_all_selectors(self):
        return frozenset(self.sels)

    def get_all_handlers(self):
        return list(self.handlers)


def _o7r_world(vc, fixed=None):
    """insights with three distinguishable dimension sets, a registry whose five sections hold nothing / their own selector
    (+ one selector shared by the indexing and the changing section), and trace-recording contract stubs of the four helpers."""
    dims = {'webhook': set(), 'indexed': set(), 'watched': set()}
    own = {name: Opaque(f'selector:{name}', group=f'{name[1:]}.example.com') for name in SECTIONS}
    shared = Opaque('selector:indexing+changing', group='example.com')
    content = {}
    for name in SECTIONS:
        k = fixed if fixed is not None else vc.nondet(2, f'registry.{name}: no selectors / some')
        content[name] = set() if k == 0 else {own[name]} | ({shared} if name in ('_indexing', '_changing') else set())
    registry = Opaque('registry')
    for name in SECTIONS:
        hs = [Opaque(f'handler-of:{s!r}', selector=s) for s in sorted(content[name], key=repr)]
        setattr(registry, name, _Section(vc, name, content[name], hs))
    insights = Opaque('insights', webhook_resources=dims['webhook'], indexed_resources=dims['indexed'],
                      watched_resources=dims['watched'])

    def dim_of(s):
        for n, d in dims.items():
            if s is d:
                return n
        return 'foreign'

    def _update_resources(resources, selectors, *, group, source):
        # contract O4d: replaces, within the scope `group`, the content of `resources` by what `selectors` select from `source`
        vc.emit('update', dim_of(resources), frozenset(selectors), group, source)

    def disable(what):
        def stub(*, resources, selectors):
            # contracts O7u: remove from `resources` (ambiguous / unsuitable) or only warn (mismatched)
            vc.emit('disable', what, dim_of(resources), frozenset(selectors))
        return stub
    vc.used('observation._update_resources', 'O4d'); vc.used('observation._disable_*', 'O7u')
    stubs = {'_update_resources': _update_resources, '_disable_ambiguous_selectors': disable('ambiguous'),
             '_disable_mismatched_selectors': disable('mismatched'), '_disable_unsuitable_resources': disable('unsuitable'),
             'logger': NullLogger()}
    want = dict(webhook=frozenset(content['_webhooks']), indexed=frozenset(content['_indexing']),
                watched=frozenset(content['_indexing'] | content['_watching'] | content['_spawning'] | content['_changing']),
                patched=frozenset(content['_spawning'] | content['_changing']))
    return insights, registry, stubs, want, content


def _same_group(got, want):
    return got is None if want is None else (got is not None and isinstance(got, str) and got == want)


def _o7r_revision_clauses(vc, want, group, source, pfx=''):
    """the clauses about ONE revision, over the ghost trace of the helper calls"""
    ups = [(i, ev) for i, ev in enumerate(vc.trace) if ev[0] == 'update']
    dis = [(i, ev) for i, ev in enumerate(vc.trace) if ev[0] == 'disable']
    vc.ensure('each_dimension_revised_once', sorted(ev[1] for _, ev in ups) == ['indexed', 'watched', 'webhook'])
    for _, ev in ups:
        if ev[1] in ('webhook', 'indexed', 'watched'):
            vc.ensure(f'{ev[1]}_dimension_selectors', ev[2] == want[ev[1]])
        vc.ensure('scope_and_discovery_passed_on', _same_group(ev[3], group) and ev[4] is source)
    vc.ensure('only_watched_resources_are_disabled', all(ev[2] == 'watched' for _, ev in dis))
    kinds = [ev[1] for _, ev in dis]
    vc.ensure('disabling.each_rule_applied_once', sorted(kinds) == ['ambiguous', 'mismatched', 'unsuitable'])
    iw = [i for i, ev in ups if ev[1] == 'watched']
    vc.ensure('disabling.after_the_update', bool(iw) and all(i > max(iw) for i, _ in dis))
    for _, ev in dis:
        vc.ensure('disabling.selectors', ev[3] == (want['patched'] if ev[1] == 'unsuitable' else want['watched']))
    if sorted(kinds) == ['ambiguous', 'mismatched', 'unsuitable']:
        vc.ensure('disabling.ambiguity_judged_on_all_selected', kinds.index('ambiguous') < kinds.index('unsuitable'))
    return ups, dis


@harness('O7r', targets=[f'{OBS}.revise_resources', f'{OBS}.process_discovered_resource_event', f'{OBS}.resource_observer'],
         props=['C19', 'C03', 'C06', 'C08', 'C13', 'C14', 'C15', 'C17', 'C18'],
         prop_clauses={p: ['each_dimension_revised_once', 'webhook_dimension_selectors', 'indexed_dimension_selectors',
                           'watched_dimension_selectors', 'scope_and_discovery_passed_on', 'only_watched_resources_are_disabled',
                           'disabling.each_rule_applied_once', 'disabling.after_the_update', 'disabling.selectors',
                           'disabling.ambiguity_judged_on_all_selected', 'synchronous']
                       for p in ('C03', 'C06', 'C08', 'C14', 'C15', 'C17', 'C18')},
         clauses=['each_dimension_revised_once', 'webhook_dimension_selectors', 'indexed_dimension_selectors',
                  'watched_dimension_selectors', 'scope_and_discovery_passed_on', 'only_watched_resources_are_disabled',
                  'disabling.each_rule_applied_once', 'disabling.after_the_update', 'disabling.selectors',
                  'disabling.ambiguity_judged_on_all_selected', 'synchronous',
                  'event.rescans_the_group_it_revises', 'event.revised_under_lock_then_notified', 'event.no_suspension_inside_revision',
                  'event.failed_scan_revises_nothing',
                  'startup.full_revision_of_the_first_scan', 'startup.revised_under_lock_then_notified',
                  'startup.no_suspension_inside_revision', 'startup.ready_only_after_the_full_scan'],
         canaries=['canary.webhook_selectors_watched', 'canary.every_watched_selector_needs_patching', 'canary.scan_never_fails'],
         trusted=['registry sections: get_all_selectors() returns a frozenset, get_all_handlers() a list (R-contracts of w2_registries)',
                  'scanning.scan_resources: the resources of the requested groups (None = all) or raises',
                  'asyncio.Condition: lock + notify_all() under the lock; Backbone.fill / wait_for by contract O11b',
                  'queueing.watcher (Q5): runs until it fails; asyncio.Event().wait() on a fresh event never returns'])
def O7r(vc):
    """
    observation.revise_resources(group=, insights=, registry=, resources=), the helpers as contract stubs (_update_resources:
    O4d, _disable_*: O7u) that record their calls on the ghost trace.  Scenario `revise` (the function alone; every
    registry section empty or not, one selector shared by two sections; scope None / a group / the core group ''):
      * each of the three served dimensions of the insights is revised exactly once, with the scope and the discovered
        resources of THIS call: webhook_resources by the selectors of the webhook handlers, indexed_resources by those of the
        indexing handlers, watched_resources by those of every handler that needs a watch-stream -- indexing, on-event
        (watching), daemons/timers (spawning) and change-detecting handlers -- and not by webhook-only selectors
        (references.Insights: "the set excludes all webhook-only resources");
      * the three disabling rules (docs/resources.rst: ambiguous selectors serve nothing; a warning for selectors that
        match nothing; no `list`/`watch` -> not served, no `patch` -> not served if state-keeping handlers select it) are
        each applied once, to watched_resources only (webhook/indexed resources are matched passively), AFTER that set was
        updated (otherwise the update re-adds what was disabled), with the watching selectors (ambiguous, mismatched)
        resp. the state-keeping ones -- spawning + changing -- (unsuitable); ambiguity is judged before unsuitable
        candidates are removed ("if 2 or more resources match ... neither of them will be served");
      * the function is synchronous (no suspension point: the orchestrator never sees a half-revised state).
    Scenario `event` (process_discovered_resource_event with the real revise_resources inlined): ONE revision, whose scope
    includes the CRD's group (that group, or everything) and is exactly what was scanned before it -- a revision of scope
    None fed with one group's scan would drop every other group; a scan wider than the revised scope breaks the
    precondition of O4d; everything is revised while insights.revised is held, with no suspension between the first
    update and the last disabling, and notify_all() follows under the lock; a failed scan revises nothing.
    Scenario `startup` (resource_observer, likewise): the first revision has scope None and the scan result as source, is
    committed the same way, and insights.ready_resources is set only after it (and after the notification).
    """
    sc = ['revise', 'event', 'startup'][vc.nondet(3, 'scenario')]
    if sc == 'revise':
        insights, registry, stubs, want, content = _o7r_world(vc)
        group = [None, 'example.com', ''][vc.nondet(3, 'scope: None / a group / the core group')]
        source = Opaque('discovered-resources')
        ld = vc.load(OBS, 'revise_resources', stubs=stubs)
        res = ld.fn(group=group, insights=insights, registry=registry, resources=source)
        vc.ensure('synchronous', res is None and not inspect.iscoroutinefunction(ld.fn) and not inspect.isgeneratorfunction(ld.fn))
        ups, dis = _o7r_revision_clauses(vc, want, group, source)
        watched_with = [ev[2] for _, ev in ups if ev[1] == 'watched']
        vc.canary('canary.webhook_selectors_watched', all(want['webhook'] <= w for w in watched_with))
        vc.canary('canary.every_watched_selector_needs_patching', want['patched'] == want['watched'])
        vc.canary('canary.scan_never_fails', False)
        return (sc, group, tuple(sorted(n for n in SECTIONS if content[n])))
    return _o7r_callers(vc, sc)


def _o7r_callers(vc, sc):
    insights, registry, stubs, want, content = _o7r_world(vc, fixed=1)
    revised = _Revised(vc)
    insights.revised = revised
    insights.ready_resources = _ReadyFlag(vc, 'resources')
    insights.ready_namespaces = _ReadyFlag(vc, 'namespaces')
    settings = Opaque('settings', scanning=Opaque('scanning', disabled=vc.bool('settings.scanning.disabled')))
    scanned = Opaque('scanned-resources')
    st = dict(scan_exc=None, watch_exc=None)
    reps = exception_reps([errors.APIError, errors.APIForbiddenError], with_base=False)

    def mk(cls):
        return cls(None, status=403, headers={}) if issubclass(cls, errors.APIError) else cls('x')

    class Backbone:
        selectors = [Opaque('sel:namespaces', group=''), Opaque('sel:crds', group='apiextensions.k8s.io')]

        async def fill(self, *, resources):
            vc.emit('backbone.fill', resources, revised.held)
            await suspend('backbone.fill')

        async def wait_for(self, selector):
            vc.emit('backbone.wait_for', selector)
            await suspend('backbone.wait_for')
            return Opaque('crd-resource')
    insights.backbone = Backbone()

    async def scan_resources(*, groups=None, settings=None, logger=None):
        vc.emit('scan', groups, revised.held)
        await suspend('scan_resources')
        k = vc.nondet(1 + len(reps), 'scan_resources: ok / raises')
        if k > 0:
            st['scan_exc'] = mk(reps[k - 1])
            raise st['scan_exc']
        return scanned

    async def watcher(**kw):
        vc.emit('watcher', kw)
        await suspend('queueing.watcher')
        st['watch_exc'] = mk(reps[vc.nondet(len(reps), 'watcher: raises (it never returns by itself)')])
        raise st['watch_exc']

    def on_suspend(site):
        vc.emit('suspended', site)
    vc.used('scanning.scan_resources', 'trusted'); vc.used('references.Backbone.fill/wait_for', 'O11b')
    real_revise = vc.load(OBS, 'revise_resources', stubs=stubs).fn

    def revise(**kw):
        vc.emit('revise', kw)
        return real_revise(**kw)
    outer = dict(stubs)
    outer.update({'revise_resources': revise, 'scanning.scan_resources': scan_resources, 'queueing.watcher': watcher,
                  'asyncio': _AsyncioStub(vc)})
    outcome, raised = 'returned', None
    if sc == 'event':
        group = ['example.com', ''][vc.nondet(2, 'the group of the CRD: a group / the empty string')]
        etype = ['ADDED', 'MODIFIED', 'DELETED'][vc.nondet(3, 'event type')]
        event = {'type': etype, 'object': {'metadata': {'name': 'things.example.com'}, 'spec': {'group': group}}}
        ld = vc.load(OBS, 'process_discovered_resource_event', stubs=outer)
        coro = ld.fn(raw_event=event, settings=settings, registry=registry, insights=insights)
    else:
        group = None
        ld = vc.load(OBS, 'resource_observer', stubs=outer)
        coro = ld.fn(settings=settings, registry=registry, insights=insights)
    try:
        vc.drive(coro, on_suspend=on_suspend)
    except _Idle:
        outcome = 'idle'
    except BaseException as e:
        if _ours(e):
            raise
        outcome, raised = 'raised', e
    tr, names = vc.trace, _names(vc)
    scans = [(i, ev) for i, ev in enumerate(tr) if ev[0] == 'scan']
    work = [i for i, ev in enumerate(tr) if ev[0] in ('update', 'disable')]
    vc.canary('canary.scan_never_fails', st['scan_exc'] is None)
    vc.canary('canary.webhook_selectors_watched', False)
    vc.canary('canary.every_watched_selector_needs_patching', False)
    if st['scan_exc'] is not None:
        vc.ensure(f'{sc}.failed_scan_revises_nothing' if sc == 'event' else 'startup.ready_only_after_the_full_scan',
                  not work and raised is st['scan_exc'] and 'ready.set' not in names and 'revised.notify_all' not in names)
        return (sc, 'scan-failed', type(raised).__name__)
    revs = [ev[1] for ev in tr if ev[0] == 'revise']
    vc.ensure('each_dimension_revised_once', len(revs) == 1 and revs[0].get('insights') is insights and revs[0].get('registry') is registry)
    if len(revs) != 1:
        return (sc, 'not-one-revision', len(revs))
    scope = revs[0].get('group', 'missing')
    ups, dis = _o7r_revision_clauses(vc, want, scope, scanned)
    # -- committed under the lock, atomically, then announced
    ia = [i for i, n in enumerate(names) if n == 'revised.acquire']
    ir = [i for i, n in enumerate(names) if n == 'revised.release']
    ins = [i for i, ev in enumerate(tr) if ev[0] == 'revised.notify_all']
    ok = len(ia) == 1 and len(ir) == 1 and bool(ins) and bool(work) \
        and ia[0] < min(work) and max(work) < ins[-1] < ir[0] and all(tr[i][1] is True for i in ins) \
        and all(ia[0] < i < ir[0] for i in ins)
    vc.ensure(f'{sc}.revised_under_lock_then_notified', ok)
    vc.ensure(f'{sc}.no_suspension_inside_revision',
              bool(work) and not any(ev[0] == 'suspended' for ev in tr[min(work):max(work) + 1]))
    if sc == 'event':
        vc.ensure('event.failed_scan_revises_nothing', raised is None)
        # the scope of the revision includes the CRD's group and is exactly what was scanned: a wider revision drops the
        # groups that were not scanned; a wider scan breaks the precondition of O4d (other groups' resources in the source
        # are added next to their stale -- equal -- objects, and their vanished kinds stay)
        sg = scans[0][1][1] if len(scans) == 1 else 'no-single-scan'
        exact = lambda g: (sg is None) if g is None else (sg is not None and sg != 'no-single-scan' and set(sg) == {g})
        covered = len(scans) == 1 and bool(work) and scans[0][0] < min(work) \
            and (scope is None or _same_group(scope, group)) and exact(scope)
        vc.ensure('event.rescans_the_group_it_revises', covered)
        return (sc, group, outcome)
    vc.ensure('startup.full_revision_of_the_first_scan', len(scans) == 1 and bool(work) and scans[0][0] < min(work)
              and scope is None)
    readies = [i for i, ev in enumerate(tr) if ev[0] == 'ready.set']
    vc.ensure('startup.ready_only_after_the_full_scan', len(readies) == 1 and tr[readies[0]][1] == 'resources' and ok
              and readies[0] > ir[0] and all(readies[0] < i for i, n in enumerate(names) if n in ('watcher', 'idle-forever')))
    return (sc, outcome, type(raised).__name__)
