"""
Fourth wave (builder build4-state): small functions in the cone of influence of several properties which so far were only
used natively (incidentally) by other harnesses, or replaced by trusted stubs.  Each is put against a SPEC FUNCTION of
its arguments (every field of the result, defaults spelled out from docs/errors.rst, docs/admission.rst, docs/timers.rst),
plus a frame clause (the arguments are not modified).

  G10  progression.State.__getitem__ / __iter__ / __len__     the Mapping view of a state         C02 C03 C10 C11 C17 C18
  G11  progression.State.from_scratch                         the empty start state               C02 C03 C10 C11 C17 C18
  G12  progression._get_basetime                              the instant loop time 0 stands for  C02 C03 C10 C11 C17 C18
  G13  execution.TemporaryError.__init__, admission.AdmissionError.__init__, activities.ActivityError.__init__
                                                                                                  C10 C11 C18 C20
  G14  clients.errors.APIError.__init__ / status / headers / code / message / details             C12 C19
  G15  daemons._loop_time (+ the default of DaemonsMemory.idle_reset_time)                        C09 C10 C13 C14 C20
  G16  inventory.ResourceMemories.__init__ / iter_all_daemon_memories                             C09 C10 C13 C14 C20
  G17  lifecycles.get_default_lifecycle                                                           C11

All of them are loop-free (or iterate concrete containers of 0..3 entries) and finish in well under a second.
"""
import asyncio
import logging
import types

from pyvc import *
from pyvc.stubs import Opaque, Clock, StubLoop

PROG = 'kopf._core.actions.progression'
EXEC = 'kopf._core.actions.execution'
ADM = 'kopf._core.engines.admission'
ACT = 'kopf._core.engines.activities'
ERR = 'kopf._cogs.clients.errors'
DMN = 'kopf._core.engines.daemons'
INV = 'kopf._core.reactor.inventory'
LIFE = 'kopf._core.actions.lifecycles'

STATE_PROPS = ['C02', 'C03', 'C10', 'C11', 'C17', 'C18']
MEMORY_PROPS = ['C09', 'C10', 'C13', 'C14', 'C20']


# =========================================================================== helpers
def _super_stub(get_self, base):
    """`super()` inside an extracted method (there is no __class__ cell): an object whose methods are those of `base`
    bound to the instance under construction -- `super().__init__(msg)` runs `base.__init__(self, msg)` for real."""
    class _Bound:
        def __getattribute__(self, name):
            return lambda *a, **kw: getattr(base, name)(get_self(), *a, **kw)
    return lambda *a: object.__new__(_Bound)


def _safely(f):
    """The truth of a claim about what the callers write; an operation of theirs that fails makes the claim false."""
    try:
        return bool(f())
    except (LookupError, TypeError, AttributeError, StopIteration):
        return False


def _same(x, y):
    """The very same object -- for leaves (texts, numbers; symbolic or not): the same value."""
    if x is None or y is None or isinstance(x, (dict, list, set, Opaque)) or isinstance(y, (dict, list, set, Opaque)):
        return x is y
    if isinstance(x, (SV, str, int)) or isinstance(y, (SV, str, int)):
        return Eq(x, y) if type(x) is type(y) or isinstance(x, SV) or isinstance(y, SV) else False
    return x is y


def _same_items(a, b):
    """Two mappings hold the same keys mapped to the very same objects (leaves: the same values)."""
    return len(a) == len(b) and And(*[k in b and _same(b[k], v) for k, v in a.items()])


class _running_loop:
    """For the few lines of REAL code run natively that read `asyncio.get_running_loop()` (dataclass default factories):
    makes `loop` the running loop of this thread for the duration of the block (asyncio's own hook for loop
    implementations), and restores what was there."""
    def __init__(self, loop):
        self.loop = loop

    def __enter__(self):
        self.before = asyncio._get_running_loop()
        asyncio._set_running_loop(self.loop)

    def __exit__(self, *exc):
        asyncio._set_running_loop(self.before)
        return False


def _asyncio_stub(vc, running, other):
    """The `asyncio` module as far as a clock reader may use it: THE running loop -- and, to tell it apart, the
    policy's "current event loop" / a new loop, which are other objects with clocks of their own."""
    def get_running_loop():
        vc.emit('get_running_loop')
        return running
    return types.SimpleNamespace(get_running_loop=get_running_loop, get_event_loop=lambda: other,
                                 new_event_loop=lambda: other, get_event_loop_policy=lambda: Opaque('policy', get_event_loop=lambda: other))


# =========================================================================== G10: the Mapping view of a State
@harness('G10', targets=[f'{PROG}.State.__getitem__', f'{PROG}.State.__iter__', f'{PROG}.State.__len__'], props=STATE_PROPS,
         clauses=['getitem_returns_the_stored_state', 'unknown_id_is_a_KeyError', 'iter_yields_exactly_the_ids', 'iter_order_is_stable',
                  'len_agrees', 'mapping_protocol_follows', 'views_are_pure'],
         canaries=['canary.never_empty', 'canary.every_id_is_known'],
         trusted=['progression.State.__init__ (run natively: keeps the handler states it is given)',
                  'collections.abc.Mapping mixins (__contains__, get, keys, __bool__ via __len__) of CPython'],
         assumes=['G10 is proved for states of 0..3 handler ids (concrete ids incl. a sub-handler id, in several insertion orders); '
                  'the three methods do not look at the ids or the handler states, only at the container'])
def G10(vc):
    """
    progression.State(src) as a read-only Mapping id -> HandlerState.  execute_handlers_once reads `state[h.id].awakened /
    .retries / .started` to decide run-or-skip, the retry number and the timeout window (C02 C11 C17 C18); with_purpose /
    with_handlers copy `dict(self)` and subhandling collects ids by iteration (C02: a dropped id loses the record of a
    finished handler); indexing keeps `state if state else None` (C17: __len__ decides whether failures are remembered).
      getitem_returns_the_stored_state   state[i] is the very HandlerState given for i at construction -- never another
                                         handler's state;
      unknown_id_is_a_KeyError           any other id ('', a prefix, another case, an id never seen) raises KeyError --
                                         not None, not another LookupError: `in` / .get() of Mapping rest on it;
      iter_yields_exactly_the_ids        iter(state) is an iterator over exactly the ids given, each once;
      iter_order_is_stable               two iterations of the same state give the same order;
      len_agrees                         len(state) == the number of ids (an int);
      mapping_protocol_follows           what the callers actually write, over these three methods: bool(state) <=> non-empty,
                                         `i in state` <=> i is a stored id, dict(state) == the entries, state.get(unknown) is None;
      views_are_pure                     reading changes nothing: the same answers afterwards, the source mapping untouched.
    """
    from kopf._core.actions import progression
    id_lists = [(), ('h1',), ('h2', 'h1'), ('b', 'a/sub', 'a'), ('a', 'a/sub', 'b')]
    ids = id_lists[vc.nondet(len(id_lists), 'handler ids (in insertion order)')]
    n = len(ids)
    entries = {i: Opaque(f'handler-state-{i}') for i in ids}
    before = dict(entries)
    ld_get = vc.load(PROG, 'State.__getitem__')
    ld_iter = vc.load(PROG, 'State.__iter__')
    ld_len = vc.load(PROG, 'State.__len__')

    class St(progression.State):
        __getitem__ = ld_get.fn
        __iter__ = ld_iter.fn
        __len__ = ld_len.fn
    purpose = [None, 'update'][vc.nondet(2, 'purpose: none / update')]
    st = St(entries, basetime=Opaque('basetime'), purpose=purpose)

    for i in ids:
        vc.ensure('getitem_returns_the_stored_state', _safely(lambda: ld_get.fn(st, i) is before[i]))
    unknown = ['zz', '', 'h1/', 'H1', 'a/', 'a/sub/deeper']
    raised = {}
    for u in unknown:
        if u in before:
            continue
        try:
            raised[u] = ('returned', ld_get.fn(st, u))
        except KeyError:
            raised[u] = ('KeyError', None)
        except (LookupError, TypeError, AttributeError, StopIteration) as e:
            raised[u] = (type(e).__name__, None)
    vc.ensure('unknown_id_is_a_KeyError', all(kind == 'KeyError' for kind, _ in raised.values()), note=repr(raised))
    vc.canary('canary.every_id_is_known', all(kind == 'returned' for kind, _ in raised.values()))

    it = ld_iter.fn(st)
    vc.ensure('iter_yields_exactly_the_ids', hasattr(it, '__next__'))
    seq1 = list(it)
    seq2 = list(ld_iter.fn(st))
    vc.ensure('iter_yields_exactly_the_ids', len(seq1) == n and all(sum(1 for x in seq1 if x is i or x == i) == 1 for i in ids))
    vc.ensure('iter_order_is_stable', seq1 == seq2)
    length = ld_len.fn(st)
    vc.ensure('len_agrees', type(length) is int and length == n)
    vc.canary('canary.never_empty', length > 0)

    vc.ensure('mapping_protocol_follows', _safely(lambda: bool(st) is (n > 0)))
    vc.ensure('mapping_protocol_follows', _safely(lambda: all(i in st for i in ids) and all(u not in st for u in raised)))
    vc.ensure('mapping_protocol_follows', _safely(lambda: _same_items(dict(st), before) and _same_items(before, dict(st))))
    vc.ensure('mapping_protocol_follows', _safely(lambda: all(st.get(u) is None for u in raised) and all(st.get(i) is before[i] for i in ids)))

    vc.ensure('views_are_pure', _safely(lambda: list(ld_iter.fn(st)) == seq1 and ld_len.fn(st) == n and all(ld_get.fn(st, i) is before[i] for i in ids)))
    vc.ensure('views_are_pure', list(entries.items()) == list(before.items()) and st.purpose is purpose)
    return ('views', ids, [repr(x) for x in seq1], length, sorted(raised))


# =========================================================================== G11: State.from_scratch
@harness('G11', targets=f'{PROG}.State.from_scratch', props=STATE_PROPS,
         clauses=['empty', 'no_purpose', 'basetime_taken_for_this_state', 'class_kept', 'independent_of_earlier_states'],
         canaries=['canary.has_handlers', 'canary.one_basetime_for_all'],
         trusted=['progression._get_basetime by contract G12 (an opaque anchor per call)',
                  'progression.State.__init__ / __len__ / __iter__ / __getitem__ (run natively; the views by contract G10)'])
def G11(vc):
    """
    State.from_scratch(): the in-memory start state of daemons, timers, activities, admission and indexing handlers (and
    of every new cycle of a timer: retries and `started` restart -- C10), before `.with_handlers(...)` adds the handlers:
      empty                          no handler ids at all: len 0, nothing iterated, any id unknown -- nothing of an earlier
                                     run is carried along (a stale finished entry would skip the handler, a stale start time
                                     would shift its timeout window -- C10 C11 C18);
      no_purpose                     purpose is None;
      basetime_taken_for_this_state  .basetime is an anchor obtained from _get_basetime() DURING this call (G12: the
                                     instant the loop clock's zero stands for, as of now), the one the handler states made
                                     from it will share -- not a value cached from an earlier state;
      class_kept                     the result is an instance of the class it is called on (State or a subclass);
      independent_of_earlier_states  a second call gives a separate, equally empty state with its own anchor.
    """
    from kopf._core.actions import progression
    made = []

    def _get_basetime():
        made.append(Opaque(f'basetime#{len(made)}'))
        return made[-1]
    vc.used(f'{PROG}._get_basetime', 'G12')
    ld = vc.load(PROG, 'State.from_scratch', stubs={'_get_basetime': _get_basetime})

    class St(progression.State):
        pass
    cls = [progression.State, St][vc.nondet(2, 'called on: State / a subclass')]
    k0 = len(made)
    a = ld.fn(cls)
    k1 = len(made)
    b = ld.fn(cls)
    k2 = len(made)
    for s, lo, hi in ((a, k0, k1), (b, k1, k2)):
        vc.ensure('empty', len(s) == 0 and list(s) == [] and 'h1' not in s and not s)
        vc.ensure('no_purpose', s.purpose is None)
        vc.ensure('basetime_taken_for_this_state', hi > lo and any(s.basetime is x for x in made[lo:hi]))
        vc.ensure('class_kept', type(s) is cls)
    vc.ensure('independent_of_earlier_states', a is not b and len(a) == 0 and len(b) == 0)
    vc.canary('canary.has_handlers', len(a) > 0)
    vc.canary('canary.one_basetime_for_all', a.basetime is b.basetime)
    return ('scratch', cls.__name__, len(a), len(b))


# =========================================================================== G12: _get_basetime
_UTC = Opaque('timezone.utc')


class _Td:
    """datetime.timedelta as a (symbolic or concrete) number of seconds -- every constructor keyword of the real one."""
    def __init__(self, days=0, seconds=0, microseconds=0, milliseconds=0, minutes=0, hours=0, weeks=0):
        total = 0
        for v, mul, div in ((weeks, 604800, 1), (days, 86400, 1), (hours, 3600, 1), (minutes, 60, 1), (seconds, 1, 1),
                            (milliseconds, 1, 1000), (microseconds, 1, 1000000)):
            if not isinstance(v, SV) and v == 0:
                continue
            total = total + (v * mul if div == 1 else v / div)
        self.s = total

    def total_seconds(self): return self.s
    def __neg__(self): return _Td(seconds=-self.s)

    def __add__(self, o):
        if isinstance(o, _Td): return _Td(seconds=self.s + o.s)
        if isinstance(o, _Dt): return _Dt(o.t + self.s, o.tz)
        return NotImplemented
    __radd__ = __add__

    def __sub__(self, o):
        if isinstance(o, _Td): return _Td(seconds=self.s - o.s)
        return NotImplemented

    def __repr__(self): return f'<timedelta {self.s}s>'


class _Dt:
    """datetime.datetime as seconds since an arbitrary epoch of its OWN time scale, plus its tzinfo (None = naive)."""
    def __init__(self, t, tz):
        self.t, self.tz = t, tz

    @property
    def tzinfo(self): return self.tz

    def __add__(self, o):
        if isinstance(o, _Td): return _Dt(self.t + o.s, self.tz)
        return NotImplemented
    __radd__ = __add__

    def __sub__(self, o):
        if isinstance(o, _Td): return _Dt(self.t - o.s, self.tz)
        if isinstance(o, _Dt):
            if (self.tz is None) != (o.tz is None):
                raise TypeError("can't subtract offset-naive and offset-aware datetimes")
            return _Td(seconds=self.t - o.t)
        return NotImplemented

    def replace(self, *, tzinfo): return _Dt(self.t, tzinfo)
    def __repr__(self): return f'<datetime {self.t} tz={self.tz}>'


def _datetime_stub(vc, wall):
    """The `datetime` module by contract: datetime.now(tz=utc) is the aware UTC wall-clock time; datetime.now() the NAIVE
    LOCAL time (another number: the zone offset is not known to the code), datetime.utcnow() the naive UTC time."""
    class datetime_cls:
        @staticmethod
        def now(tz=None):
            vc.emit('wall-clock', 'now', tz)
            return _Dt(wall['utc'], _UTC) if tz is _UTC else _Dt(wall['local'], tz)

        @staticmethod
        def utcnow():
            vc.emit('wall-clock', 'utcnow', None)
            return _Dt(wall['utc'], None)
    return types.SimpleNamespace(datetime=datetime_cls, timedelta=_Td, UTC=_UTC, timezone=types.SimpleNamespace(utc=_UTC))


@harness('G12', targets=f'{PROG}._get_basetime', props=STATE_PROPS,
         clauses=['basetime_plus_loop_time_is_utc_now', 'aware_utc', 'constant_while_both_clocks_run_together', 'clock_of_the_running_loop'],
         canaries=['canary.basetime_is_now', 'canary.loop_clock_ignored'],
         trusted=['datetime.datetime.now(tz=) / utcnow / timedelta arithmetic by contract (classes _Dt, _Td: datetimes and durations '
                  'as real numbers of seconds); asyncio.get_running_loop().time() = the loop clock (a real)',
                  'the two clock readings of one call are taken at the same instant (the code has no suspension point between them; '
                  'the module docstring accepts the microseconds in between)'])
def G12(vc):
    """
    _get_basetime(): "the imaginary UTC time when the loop clock was zero".  Its call sites need exactly one thing: every
    `now` of progression.py is computed as  basetime + timedelta(seconds=loop.time())  -- HandlerState.sleeping / runtime /
    from_scratch.started / with_outcome.stopped & delayed, State.delays -- and is compared with, or stored next to, the
    `started` / `delayed` timestamps persisted on the object by this or an EARLIER operator process (retries and timeouts
    are counted from `started`, the next attempt is due at `delayed`: C02 C03 C10 C11 C17).  Hence:
      basetime_plus_loop_time_is_utc_now   result + timedelta(seconds=<the running loop's time, now>) == the UTC wall
                                           clock now -- for ANY loop clock reading (a loop clock starts anywhere: uptime,
                                           or 0 under a mocked loop) -- so `now` means the same in every process;
      aware_utc                            the result is an aware datetime in UTC (the persisted stamps are aware UTC:
                                           a naive or local-time anchor cannot be compared with / is shifted against them);
      constant_while_both_clocks_run_together   a later call, after both clocks advanced by the same d >= 0, returns the
                                           same instant (the anchor does not drift while the operator runs);
      clock_of_the_running_loop            the loop clock is read from asyncio.get_running_loop() (the loop the handlers'
                                           delays are slept on), and the wall clock is read at all.
    """
    loop_clock, other_clock = Clock('loop'), Clock('other-loop')
    wall = {'utc': vc.real('utc-now'), 'local': vc.real('local-now')}
    running, other = StubLoop(loop_clock), StubLoop(other_clock)
    ld = vc.load(PROG, '_get_basetime', stubs={'asyncio': _asyncio_stub(vc, running, other), 'datetime': _datetime_stub(vc, wall)})
    t_loop, t_utc = loop_clock.now, wall['utc']
    base = ld.fn()
    vc.ensure('aware_utc', isinstance(base, _Dt) and base.tz is _UTC)
    vc.ensure('basetime_plus_loop_time_is_utc_now', isinstance(base, _Dt) and Eq((base + _Td(seconds=t_loop)).t, t_utc))
    tr = vc.trace
    vc.ensure('clock_of_the_running_loop', any(ev[0] == 'get_running_loop' for ev in tr) and any(ev[0] == 'wall-clock' for ev in tr))
    vc.canary('canary.basetime_is_now', Eq(base.t, t_utc))
    vc.canary('canary.loop_clock_ignored', Eq(base.t + other_clock.now, t_utc))
    # both clocks run on by the same amount
    d = vc.real('elapsed')
    vc.assume(d >= 0, 'time moves forward')
    loop_clock.now = t_loop + d
    wall['utc'] = t_utc + d
    wall['local'] = vc.real('local-now-later')
    later = ld.fn()
    vc.ensure('constant_while_both_clocks_run_together', isinstance(later, _Dt) and Eq(later.t, base.t) and later.tz is base.tz)
    return ('basetime', base.t, later.t)


# =========================================================================== G13: the framework's error classes
def _construct(vc, ld, cls, base, args, kwargs):
    """Run the extracted __init__ on a new instance of `cls` (as `cls(*args, **kwargs)` does)."""
    e = cls.__new__(cls)
    ld.ns['super'] = _super_stub(lambda: e, base)
    ld.fn(e, *args, **kwargs)
    return e


_TEMPORARY = ['temporary.delay_default_is_60', 'temporary.delay_as_given', 'temporary.message_kept']
_ADMISSION = ['admission.defaults_empty_message_code_500', 'admission.code_as_given', 'admission.message_kept',
              'admission.is_a_permanent_error']
_ACTIVITY = ['activity.outcomes_kept', 'activity.message_kept', 'activity.outcomes_not_modified']


@harness('G13', targets=[f'{EXEC}.TemporaryError.__init__', f'{ADM}.AdmissionError.__init__', f'{ACT}.ActivityError.__init__'],
         props=['C10', 'C11', 'C18', 'C20'],
         prop_clauses={'C10': _TEMPORARY, 'C11': _TEMPORARY, 'C18': _TEMPORARY + _ADMISSION, 'C20': _ACTIVITY},
         clauses=_TEMPORARY + _ADMISSION + _ACTIVITY,
         canaries=['canary.always_60', 'canary.always_500', 'canary.no_outcomes'],
         trusted=['Exception.__init__(self, *args) stores args; str(e) of a one-argument exception is str(arg) (CPython)'])
def G13(vc):
    """
    The three error classes whose fields the handling machinery reads back (docs/errors.rst, docs/admission.rst):
     kopf.TemporaryError(msg=None, delay=60)   ("The default delay for temporary errors is hard-coded to 60 seconds ...
                                               Override the default explicitly in code if needed"; execution.py turns
                                               e.delay into the Outcome's delay: the wait C10 / C11 refer to)
      temporary.delay_default_is_60    no delay given => .delay == 60;
      temporary.delay_as_given         a given delay is kept AS IS, by keyword or as 2nd positional argument: any real number
                                       -- including 0 ("immediately") and negative ones -- and None (no delay requested);
      temporary.message_kept           a given message is the text of the error (str(e), reported on denial -- C18 -- and
                                       stored as the handler's message); also for the subclass HandlerChildrenRetry.
     kopf.AdmissionError(message='', code=500)  ("customize the status code and the message of the admission review response")
      admission.defaults_empty_message_code_500   no message => str(e) == ''; no code => .code == 500;
      admission.code_as_given          a given code is kept as is (any int incl. 0; None), by keyword or 2nd positional;
      admission.message_kept           a given message is the text of the error;
      admission.is_a_permanent_error   "behaves the same as kopf.PermanentError": it is one.
     ActivityError(msg, *, outcomes)   (raised by run_activity when a startup/cleanup/login/probe handler failed for good;
                                       the failure `run` re-raises -- C20)
      activity.outcomes_kept           .outcomes maps exactly the given handler ids to the very outcomes given;
      activity.message_kept            str(e) == msg;
      activity.outcomes_not_modified   the mapping passed in is left as it was.
    """
    from kopf._core.actions import execution
    from kopf._core.engines import admission, activities
    which = vc.nondet(3, 'TemporaryError / AdmissionError / ActivityError')
    texts = [None, '', 'The data is not yet ready.']
    if which == 0:
        ld = vc.load(EXEC, 'TemporaryError.__init__')
        cls = [execution.TemporaryError, execution.HandlerChildrenRetry][vc.nondet(2, 'class: TemporaryError / HandlerChildrenRetry')]
        msg_given = vc.nondet(2, 'message: omitted / given') == 1
        msg = texts[vc.nondet(3, 'message: None / empty / a text')] if msg_given else None
        how = vc.nondet(3, 'delay: omitted / by keyword / positional') if msg_given else vc.nondet(2, 'delay: omitted / by keyword')
        delay = vc.opt('delay', vc.real) if how else None
        args = ((msg,) if msg_given else ()) + ((delay,) if how == 2 else ())
        kwargs = {'delay': delay} if how == 1 else {}
        e = _construct(vc, ld, cls, Exception, args, kwargs)
        if how == 0:
            vc.ensure('temporary.delay_default_is_60', e.delay is not None and Eq(e.delay, 60))
        elif delay is None:
            vc.ensure('temporary.delay_as_given', e.delay is None)
        else:
            vc.ensure('temporary.delay_as_given', e.delay is not None and Eq(e.delay, delay))
        if msg_given and msg is not None:
            vc.ensure('temporary.message_kept', str(e) == msg and e.args == (msg,) and type(e) is cls)
        else:
            vc.ensure('temporary.message_kept', type(e) is cls and isinstance(str(e), str))
        vc.canary('canary.always_60', e.delay is not None and Eq(e.delay, 60))
        return ('temporary', cls.__name__, msg_given, msg, how, e.delay)
    if which == 1:
        ld = vc.load(ADM, 'AdmissionError.__init__')
        msg_given = vc.nondet(2, 'message: omitted / given') == 1
        msg = texts[vc.nondet(3, 'message: None / empty / a text')] if msg_given else None
        how = vc.nondet(3, 'code: omitted / by keyword / positional') if msg_given else vc.nondet(2, 'code: omitted / by keyword')
        code = vc.opt('code', vc.int) if how else None
        args = ((msg,) if msg_given else ()) + ((code,) if how == 2 else ())
        kwargs = {'code': code} if how == 1 else {}
        if msg_given and vc.nondet(2, 'message: positional / by keyword') == 1 and how != 2:
            args, kwargs = (), dict(kwargs, message=msg)
        e = _construct(vc, ld, admission.AdmissionError, execution.PermanentError, args, kwargs)
        if not msg_given:
            vc.ensure('admission.defaults_empty_message_code_500', str(e) == '')
        elif msg is not None:
            vc.ensure('admission.message_kept', str(e) == msg)
        if how == 0:
            vc.ensure('admission.defaults_empty_message_code_500', e.code is not None and Eq(e.code, 500))
        elif code is None:
            vc.ensure('admission.code_as_given', e.code is None)
        else:
            vc.ensure('admission.code_as_given', e.code is not None and Eq(e.code, code))
        vc.ensure('admission.is_a_permanent_error', isinstance(e, execution.PermanentError)
                  and not isinstance(e, execution.TemporaryError))
        vc.canary('canary.always_500', e.code is not None and Eq(e.code, 500))
        return ('admission', msg_given, msg, how, e.code)
    ld = vc.load(ACT, 'ActivityError.__init__')
    n = vc.nondet(3, 'outcomes: none / one / two')
    # real outcomes, as run_activity collects them: the failed handler's, and that of a handler that succeeded
    both = {'startup_fn': execution.Outcome(final=True, exception=execution.PermanentError('boo!')),
            'login/sub': execution.Outcome(final=True, result='done')}
    outcomes = {i: both[i] for i in list(both)[:n]}
    before = dict(outcomes)
    msg = ['One or more handlers failed.', ''][vc.nondet(2, 'message: a text / empty')]
    e = _construct(vc, ld, activities.ActivityError, Exception, (msg,), {'outcomes': outcomes})
    vc.ensure('activity.outcomes_kept', _same_items(e.outcomes, before) and _same_items(before, e.outcomes))
    vc.ensure('activity.message_kept', str(e) == msg)
    vc.ensure('activity.outcomes_not_modified', _same_items(outcomes, before) and _same_items(before, outcomes))
    vc.canary('canary.no_outcomes', len(e.outcomes) == 0)
    return ('activity', n, msg, sorted(e.outcomes))


# =========================================================================== G14: APIError
@harness('G14', targets=[f'{ERR}.APIError.__init__', f'{ERR}.APIError.status', f'{ERR}.APIError.headers', f'{ERR}.APIError.code',
                         f'{ERR}.APIError.message', f'{ERR}.APIError.details'], props=['C12', 'C19'],
         clauses=['status_as_given', 'headers_as_given', 'status_object_fields', 'no_status_object_no_fields', 'text_of_the_error',
                  'inputs_not_modified'],
         canaries=['canary.always_has_details', 'canary.never_a_retry_after_header'],
         trusted=['Exception.__init__(self, *args) stores args (CPython)'],
         assumes=['payload is what check_response passes (N1) or the declared type allows: None, a text (any, incl. empty), or a '
                  'mapping -- {} or a Status object with each of code / message / details present or not (details: empty or with '
                  'retryAfterSeconds); leaves symbolic; status any three-digit int; 0..2 headers with symbolic values'])
def G14(vc):
    """
    APIError(payload, status=, headers=) and its read-only fields -- the only carrier of what the server said: api.request
    reads the server-requested wait of a 429 from `e.headers['Retry-After']` (new style) and `e.details['retryAfterSeconds']`
    (old style) -- "never waiting less than a server-requested Retry-After" (C12, C19: the 429 of a watch) -- and the callers
    tell the errors apart by class and `.status`.  Against the spec function of the arguments:
      status_as_given             .status == the status passed;
      headers_as_given            .headers maps exactly the given header names to the very values given;
      status_object_fields        payload is a mapping (a `Status` object): .code / .message / .details are its 'code' /
                                  'message' / 'details' entries (the very objects), None where it has none;
      no_status_object_no_fields  payload is a text or None: .code, .message, .details are all None;
      text_of_the_error           str(e) of a text payload is the text (it is the error's only argument); for a non-empty Status object
                                  the first argument is its message; no payload (None, {}), no arguments;
      inputs_not_modified         neither the payload nor the headers are changed.
    """
    from kopf._cogs.clients import errors
    kind = vc.nondet(4, 'payload: None / a text / {} / a Status object')
    with_code = with_message = False
    details_kind = 0
    if kind == 0:
        payload = None
    elif kind == 1:
        payload = vc.str('text')
    elif kind == 2:
        payload = {}
    else:
        payload = {'kind': 'Status', 'apiVersion': 'v1', 'status': 'Failure', 'reason': vc.str('reason')}
        with_code = vc.nondet(2, 'code: absent / present') == 1
        with_message = vc.nondet(2, 'message: absent / present') == 1
        details_kind = vc.nondet(3, 'details: absent / {} / with retryAfterSeconds')
        if with_code:
            payload['code'] = vc.int('code')
        if with_message:
            payload['message'] = vc.str('message')
        if details_kind:
            payload['details'] = {} if details_kind == 1 else {'retryAfterSeconds': vc.int('retryAfterSeconds'), 'kind': 'pods'}
    payload_before = dict(payload) if isinstance(payload, dict) else payload
    status = vc.int('status')
    vc.assume(And(status >= 100, status <= 999), 'HTTP status: three digits')
    hk = vc.nondet(3, 'headers: none / Retry-After / Retry-After + Content-Type')
    headers = {} if hk == 0 else {'Retry-After': vc.str('Retry-After')}
    if hk == 2:
        headers['Content-Type'] = 'application/json'
    headers_before = dict(headers)
    cls = [errors.APIError, errors.APITooManyRequestsError][vc.nondet(2, 'class: APIError / APITooManyRequestsError')]
    ld = vc.load(ERR, 'APIError.__init__')
    e = _construct(vc, ld, cls, Exception, () if kind == 0 and vc.nondet(2, 'payload None: omitted / passed') == 0 else (payload,),
                   {'status': status, 'headers': headers})
    get = {n: vc.load(ERR, f'APIError.{n}').fn for n in ('status', 'headers', 'code', 'message', 'details')}
    vc.ensure('status_as_given', Eq(get['status'](e), status))
    h = get['headers'](e)
    vc.ensure('headers_as_given', _same_items(h, headers_before) and _same_items(headers_before, h))
    code, message, details = get['code'](e), get['message'](e), get['details'](e)
    if isinstance(payload_before, dict):
        vc.ensure('status_object_fields', And(_same(code, payload_before.get('code')), _same(message, payload_before.get('message')),
                                              _same(details, payload_before.get('details'))))
        vc.ensure('status_object_fields', (code is None) is (not with_code) and (message is None) is (not with_message)
                  and (details is None) is (details_kind == 0))
    else:
        vc.ensure('no_status_object_no_fields', code is None and message is None and details is None)
    if kind == 1:
        # str(e) is the text: the text is the only argument -- or, for the empty text, there is no argument at all
        vc.ensure('text_of_the_error', _same(e.args[0], payload) if len(e.args) == 1 else And(e.args == (), Eq(payload, '')))
    elif kind == 3:
        vc.ensure('text_of_the_error', len(e.args) >= 1 and _same(e.args[0], payload_before.get('message')))
    else:
        vc.ensure('text_of_the_error', e.args == ())
    vc.ensure('inputs_not_modified', _same_items(headers, headers_before) and _same_items(headers_before, headers))
    if isinstance(payload, dict):
        vc.ensure('inputs_not_modified', _same_items(payload, payload_before) and _same_items(payload_before, payload))
    vc.canary('canary.always_has_details', details is not None)
    vc.canary('canary.never_a_retry_after_header', 'Retry-After' not in h)
    return ('api-error', kind, with_code, with_message, details_kind, hk, cls.__name__)


# =========================================================================== G15: daemons._loop_time
@harness('G15', targets=f'{DMN}._loop_time', props=MEMORY_PROPS,
         clauses=['reads_the_running_loops_clock'],
         canaries=['canary.starts_at_zero', 'canary.any_loop_will_do'],
         trusted=['asyncio.get_running_loop().time() = the loop clock (a real)'])
def G15(vc):
    """
    daemons._loop_time() is the default of DaemonsMemory.idle_reset_time: "the creation of a resource is considered as a
    change, so idling also shifts the very first invocation by that time" (docs/timers.rst), and the timer compares it
    with the clock of the running loop (D1/D2: `loop.time() - memory.idle_reset_time >= idle`; they ASSUME that
    idle_reset_time is a past reading of that very clock):
      reads_the_running_loops_clock   the result == asyncio.get_running_loop().time() now -- not 0, not the wall clock, not
                                      another loop's clock;
      fresh_daemons_memory_counts_idle_time_from_now   DaemonsMemory() made while the loop clock reads t has
                                      idle_reset_time == t (and no body, no daemons, nothing stopped).
    """
    from kopf._core.engines import daemons
    loop_clock, other_clock = Clock('loop'), Clock('other-loop')
    running, other = StubLoop(loop_clock), StubLoop(other_clock)
    ld = vc.load(DMN, '_loop_time', stubs={'asyncio': _asyncio_stub(vc, running, other)})
    t = ld.fn()
    vc.ensure('reads_the_running_loops_clock', Eq(t, loop_clock.now))
    vc.canary('canary.starts_at_zero', Eq(t, 0))
    vc.canary('canary.any_loop_will_do', Eq(t, other_clock.now))
    return ('loop-time', t)


@harness('G15m', targets=f'{DMN}.DaemonsMemory', props=MEMORY_PROPS,
         clauses=['fresh_daemons_memory_counts_idle_time_from_now', 'fresh_daemons_memory_is_empty_and_unshared'],
         canaries=['canary.starts_at_zero'],
         trusted=['dataclasses default / default_factory (CPython); DaemonsMemory() itself runs natively, with THE running loop set '
                  'through asyncio._set_running_loop; asyncio.get_running_loop().time() = the loop clock'])
def G15m(vc):
    """
    daemons.DaemonsMemory() -- the per-object memory of daemons/timers, made when an object is first seen by this process
    (inventory.ResourceMemory): "the creation of a resource is considered as a change, so idling also shifts the very first
    invocation by that time" (docs/timers.rst), and `_timer` compares idle_reset_time with the clock of the running loop
    (D5*: they ASSUME that idle_reset_time is a past reading of that very clock, never older than the first sight):
      fresh_daemons_memory_counts_idle_time_from_now   DaemonsMemory() made while the loop clock reads t (any t, not only 0)
                                      has idle_reset_time == t -- however that default is produced;
      fresh_daemons_memory_is_empty_and_unshared       no body, no running daemons, nothing stopped for ever; two memories
                                      share none of these containers (a daemon of one object is not another object's).
    """
    from kopf._core.engines import daemons
    loop_clock = Clock('loop')
    running = StubLoop(loop_clock)
    with _running_loop(running):
        dm = daemons.DaemonsMemory()
        dm2 = daemons.DaemonsMemory()
    vc.ensure('fresh_daemons_memory_counts_idle_time_from_now', Eq(dm.idle_reset_time, loop_clock.now))
    vc.canary('canary.starts_at_zero', Eq(dm.idle_reset_time, 0))
    vc.ensure('fresh_daemons_memory_is_empty_and_unshared', dm.live_fresh_body is None and dm.running_daemons == {}
              and dm.forever_stopped == set())
    vc.ensure('fresh_daemons_memory_is_empty_and_unshared', dm.running_daemons is not dm2.running_daemons
              and dm.forever_stopped is not dm2.forever_stopped)
    return ('memory', dm.idle_reset_time)


# =========================================================================== G16: ResourceMemories.__init__ / iter_all_daemon_memories
@harness('G16', targets=[f'{INV}.ResourceMemories.__init__', f'{INV}.ResourceMemories.iter_all_daemon_memories'], props=MEMORY_PROPS,
         clauses=['init.starts_empty', 'init.own_container', 'iter.every_daemon_of_every_object_once', 'iter.only_stored_daemons_memories',
                  'iter.reiterable_and_current', 'iter.pure'],
         canaries=['canary.no_daemons', 'canary.every_memory_has_daemons'],
         trusted=['ResourceMemories.recall by contract V1 (run natively here: stores a new memory under the uid)',
                  'ResourceMemory() / DaemonsMemory() construction (dataclass defaults, G15)'],
         assumes=['G16 is proved for 0..3 remembered objects with 0..2 running daemons each (the method does not look at them)'])
def G16(vc):
    """
    inventory.ResourceMemories: the operator's per-object memories.
     __init__
      init.starts_empty     a new container remembers nothing: no memories, no daemon memories ("once per operator process"
                            -- C14 -- starts from here after a restart);
      init.own_container    what one container remembers, another one does not (no state shared between instances).
     iter_all_daemon_memories()  -- the ONLY way the daemon killer sees the daemons, when the operator pauses (C13) or
     exits (C09 C20): for every yielded memory it stops every daemon in .running_daemons:
      iter.every_daemon_of_every_object_once   over the yielded memories, every running daemon of every remembered object is
                            met exactly once (none skipped -- it would keep running through the pause / past the exit;
                            none twice);
      iter.only_stored_daemons_memories   every yielded item is the .daemons_memory of a remembered object (the very object);
      iter.reiterable_and_current   each call iterates anew over what is remembered NOW (the killer comes back at every
                            pause): an object remembered after the first call is seen by the second;
      iter.pure             the container and the memories are left as they were.
    """
    from kopf._core.reactor import inventory
    loop = StubLoop(Clock('loop'))
    ld_init = vc.load(INV, 'ResourceMemories.__init__')
    ld_iter = vc.load(INV, 'ResourceMemories.iter_all_daemon_memories')

    def new_container():
        rm = inventory.ResourceMemories.__new__(inventory.ResourceMemories)
        ld_init.ns['super'] = _super_stub(lambda: rm, object)
        ld_init.fn(rm)
        return rm

    def met(view):
        """The daemons the killer meets: those of every yielded memory."""
        return [d for dmem in view for d in getattr(dmem, 'running_daemons', {}).values()]

    if vc.nondet(2, '__init__ / iter_all_daemon_memories') == 0:
        a, b = new_container(), new_container()
        vc.ensure('init.starts_empty', list(ld_iter.fn(a)) == [] and list(a.iter_all_memories()) == [])
        with _running_loop(loop):
            memory = vc.drive(a.recall({'metadata': {'uid': 'uid-1'}}))
        daemon = Opaque('daemon')
        memory.daemons_memory.running_daemons['daemon_fn'] = daemon         # as spawn_daemons does
        seen_a, seen_b = met(ld_iter.fn(a)), met(ld_iter.fn(b))
        vc.ensure('init.own_container', len(seen_a) == 1 and seen_a[0] is daemon and list(a.iter_all_memories()) == [memory])
        vc.ensure('init.own_container', seen_b == [] and list(b.iter_all_memories()) == [])
        vc.canary('canary.no_daemons', len(seen_a) == 0)
        return ('init', len(seen_a), len(seen_b))

    rm = new_container()
    n = vc.nondet(4, 'remembered objects')
    memories, daemons_of = {}, {}
    for k in range(n):
        m = vc.nondet(3, f'object {k}: running daemons 0 / 1 / 2')
        running = {f'daemon{j}': Opaque(f'daemon-{k}.{j}') for j in range(m)}
        dm = Opaque(f'daemons-memory-{k}', running_daemons=running, forever_stopped=set(), live_fresh_body=None)
        memories[f'uid-{k}'] = Opaque(f'memory-{k}', daemons_memory=dm, indexing_memory=Opaque(f'indexing-memory-{k}'))
        daemons_of[f'uid-{k}'] = dict(running)
    rm._items.update(memories)

    view1 = list(ld_iter.fn(rm))
    all_daemons = [d for ds in daemons_of.values() for d in ds.values()]
    found = met(view1)
    vc.ensure('iter.every_daemon_of_every_object_once', len(found) == len(all_daemons) and all(sum(1 for f in found if f is d) == 1 for d in all_daemons))
    vc.ensure('iter.only_stored_daemons_memories', all(any(x is mem.daemons_memory for mem in memories.values()) for x in view1)
              and all(sum(1 for y in view1 if y is x) == 1 for x in view1))
    vc.canary('canary.no_daemons', len(found) == 0)
    vc.canary('canary.every_memory_has_daemons', all(len(ds) > 0 for ds in daemons_of.values()))
    # a new object appears, with a daemon, between two rounds of the killer
    late_daemon = Opaque('daemon-late')
    late = Opaque('memory-late', daemons_memory=Opaque('daemons-memory-late', running_daemons={'daemon0': late_daemon}))
    view1_again = list(ld_iter.fn(rm))
    rm._items['uid-late'] = late
    view2 = list(ld_iter.fn(rm))
    found2 = met(view2)
    vc.ensure('iter.reiterable_and_current', len(view1_again) == len(view1) and all(any(x is y for y in view1) for x in view1_again))
    vc.ensure('iter.reiterable_and_current', sum(1 for f in found2 if f is late_daemon) == 1 and len(found2) == len(all_daemons) + 1
              and all(sum(1 for f in found2 if f is d) == 1 for d in all_daemons))
    vc.ensure('iter.pure', len(rm._items) == n + 1 and all(rm._items[k] is mem for k, mem in memories.items())
              and all(_same_items(memories[k].daemons_memory.running_daemons, ds) and _same_items(ds, memories[k].daemons_memory.running_daemons)
                      for k, ds in daemons_of.items()))
    return ('iter', n, len(view1), len(found), len(found2))


# =========================================================================== G17: get_default_lifecycle
@harness('G17', targets=f'{LIFE}.get_default_lifecycle', props=['C11'],
         clauses=['returns_the_lifecycle_set', 'default_runs_one_handler_at_a_time_in_order', 'reset_gives_the_default_again', 'pure'],
         canaries=['canary.always_the_default'],
         trusted=['lifecycles.set_default_lifecycle (run natively: the setter of the process-wide default; None resets it)',
                  'the lifecycle functions asap / one_by_one (run natively on two handlers without retries)'])
def G17(vc):
    """
    lifecycles.get_default_lifecycle(): the lifecycle of every handling cycle whose caller passes none (change handlers,
    sub-handlers, activities).  The lifecycle selects WHICH of the due handlers run in this round -- with retries=N /
    timeout=T / the error delays of C11 counted per handler, a lifecycle that drops or repeats handlers changes how often
    and when they are invoked:
      returns_the_lifecycle_set       after kopf.set_default_lifecycle(fn): the result is fn itself;
      default_runs_one_handler_at_a_time_in_order   with nothing set (and after a reset) the result is a lifecycle that,
                                      of handlers none of which was retried yet, selects exactly the first registered one
                                      ("The default behaviour of the framework is the most simplistic: execute in the order
                                      they are registered, one by one" -- lifecycles.py);
      reset_gives_the_default_again   after set_default_lifecycle(None) the result is that default again, not the one set before;
      pure                            asking does not change the setting (two calls, one answer).
    """
    from kopf._core.actions import lifecycles
    at_entry = lifecycles._default_lifecycle if hasattr(lifecycles, '_default_lifecycle') else None
    h1, h2 = Opaque('handler-1', id='h1'), Opaque('handler-2', id='h2')
    state = {'h1': Opaque('hs1', retries=0), 'h2': Opaque('hs2', retries=0)}

    def get_twice():
        ld = vc.load(LIFE, 'get_default_lifecycle')             # loaded anew: with the module's globals as they are NOW
        return ld.fn(), ld.fn()

    def one_at_a_time_in_order(lc):
        return callable(lc) and list(lc([h1, h2], state=state)) == [h1] and list(lc([h2, h1], state=state)) == [h2] \
            and list(lc([], state=state)) == []
    scenario = vc.nondet(3, 'nothing set / set / set and reset')
    custom = [lifecycles.all_at_once, (lambda handlers, **_: handlers[-1:])][vc.nondet(2, 'set: all_at_once / a user function') if scenario else 0]
    logging.disable(logging.CRITICAL)       # the setter warns about overriding: not what is checked here
    try:
        if scenario == 0:
            got, again = get_twice()
            vc.ensure('default_runs_one_handler_at_a_time_in_order', one_at_a_time_in_order(got))
        elif scenario == 1:
            lifecycles.set_default_lifecycle(custom)
            got, again = get_twice()
            vc.ensure('returns_the_lifecycle_set', got is custom)
        else:
            lifecycles.set_default_lifecycle(custom)
            lifecycles.set_default_lifecycle(None)
            got, again = get_twice()
            vc.ensure('reset_gives_the_default_again', got is not custom and one_at_a_time_in_order(got))
        vc.ensure('pure', again is got)
        vc.canary('canary.always_the_default', one_at_a_time_in_order(got))
    finally:
        logging.disable(logging.NOTSET)
        if at_entry is not None:
            lifecycles._default_lifecycle = at_entry
    return ('lifecycle', scenario, getattr(got, '__name__', '?'))
