"""Contracts for property C18 (admission responses): admission.build_response (M1),
registries.WebhooksRegistry.iter_handlers (R5), patches.Patch.as_json_patch (A5, bounded)."""
import base64
import copy
import itertools
import json

from pyvc import *
from pyvc.bounded import bounded
from pyvc.stubs import Opaque, NullLogger, exception_reps
from kopf._core.actions import execution
from kopf._core.engines import admission
from kopf._core.intents import causes, handlers, registries
from kopf._cogs.structs import patches


# =============================================================================================== M1
AE, PE, TE = admission.AdmissionError, execution.PermanentError, execution.TemporaryError
# "any exception a handler may leave in an Outcome": the three named classes, a fresh subclass of each, classes
# inheriting from two of them, and an unrelated Exception (Outcome.exception: Exception | None, so no BaseException).
M1_REPS = exception_reps([AE, PE, TE], with_base=False)
M1_NAMED = [AE, PE, TE, M1_REPS[-1]]
PLANTED_CODE = 418      # a `.code` attribute on errors that are NOT admission errors: must never be reported
M1_PATCHES = [
    [],
    [{'op': 'add', 'path': '/spec/a~1b', 'value': {'k': [1, None, 'é "']}}, {'op': 'remove', 'path': '/metadata/labels/~0x'}],
]


def spec_priority(e):
    """The statement's order: admission error, then permanent, temporary, other."""
    return 0 if isinstance(e, AE) else 1 if isinstance(e, PE) else 2 if isinstance(e, TE) else 3


@harness('M1', targets='kopf._core.engines.admission.build_response', props=['C18'],
         clauses=['allowed_iff_no_exception', 'status_on_denial', 'message_from_most_specific', 'code_from_admission_error_only',
                  'warnings_in_order', 'patch_iff_nonempty_b64_json'],
         canaries=['canary.always_allowed', 'canary.never_patch'],
         assumes=['M1 BOUNDS: the outcomes mapping has 0..3 entries (0..2 entries: every exception representative of '
                  'pyvc.stubs.exception_reps over AdmissionError/PermanentError/TemporaryError, AdmissionError.code None or int; '
                  '3 entries: the three named classes + an unrelated Exception, int codes); warnings: a list of 0..2 strings; '
                  'the JSON patch is one of 2 concrete lists (json/base64 are C code). Messages, codes, warning texts are symbolic.'])
def M1(vc):
    """
    build_response(request, outcomes, warnings, jsonpatch):
      allowed  <=>  no outcome carries an exception;
      denied   =>   status.message is str(e*) (when non-empty) and status.code is e*.code if e* is an AdmissionError
                    (any subclass) with an HTTP code, and 500 for every other error even if it has a `.code` attribute
                    (docs/admission.rst "Admission errors"), where e* is the FIRST error (in the order of the outcomes
                    mapping) of the most specific kind present: admission, then permanent, then temporary, then other;
      warnings are returned as given, in order (absent or empty when there are none);
      `patch` is present iff the JSON patch is non-empty; it base64/JSON-decodes to exactly the given list, with
      patchType 'JSONPatch'.
    Domain: see `assumes` -- the number of outcomes/warnings is BOUNDED (native sort/comprehensions over real lists),
    the contents are symbolic; every named error class, subclass and double inheritance is covered for up to 2
    outcomes, the named classes for 3 (first-of-equals across an interleaved error of another kind).
    Preconditions (call site serve_admission_request / AdmissionError signature): an int `code` is an HTTP status
    100..599; warnings are strings; outcome exceptions are Exception instances or None.
    """
    n = vc.nondet(4, '#outcomes')
    outcomes, excs = {}, []
    for i in range(n):
        reps = M1_REPS if n <= 2 else M1_NAMED
        k = vc.nondet(len(reps) + 1, f'outcome[{i}] kind')
        exc = None
        if k > 0:
            cls = reps[k - 1]
            msg = vc.str(f'msg[{i}]')
            if issubclass(cls, AE):
                code = None
                if n >= 3 or vc.nondet(2, f'code[{i}] is None?') == 1:
                    code = vc.int(f'code[{i}]')
                    vc.assume(And(code >= 100, code <= 599), 'an int code of an AdmissionError is an HTTP status')
                exc = cls(msg, code)
            else:
                exc = cls(msg)
                exc.code = PLANTED_CODE
        excs.append(exc)
        outcomes[f'h{i}'] = execution.Outcome(final=True, exception=exc)
    n_warn = vc.nondet(3, '#warnings')
    jsonpatch = M1_PATCHES[vc.nondet(len(M1_PATCHES), 'jsonpatch')]
    warnings = [vc.str(f'warning[{j}]') for j in range(n_warn)]
    request = {'apiVersion': 'admission.k8s.io/v1', 'kind': 'AdmissionReview', 'request': {'uid': 'uid1'}}
    jsonpatch_in = copy.deepcopy(jsonpatch)
    ld = vc.load('kopf._core.engines.admission', 'build_response')
    response = ld.fn(request=request, outcomes=outcomes, warnings=list(warnings), jsonpatch=jsonpatch_in)
    payload_out = response['response']

    errors = [e for e in excs if e is not None]
    vc.ensure('allowed_iff_no_exception', payload_out['allowed'] is (not errors))
    vc.canary('canary.always_allowed', payload_out['allowed'] is True)
    status = payload_out.get('status')
    kind = None
    if errors:
        best = min(range(len(errors)), key=lambda j: (spec_priority(errors[j]), j))
        chosen = errors[best]
        kind = type(chosen).__name__
        vc.ensure('status_on_denial', status is not None)
        if status is not None:
            m = chosen.args[0]
            vc.ensure('message_from_most_specific', Implies(Not(Eq(m, '')), Eq(status.get('message'), m)))
            if isinstance(chosen, AE):
                if chosen.code is not None:
                    vc.ensure('code_from_admission_error_only', Eq(status.get('code'), chosen.code))
            else:
                vc.ensure('code_from_admission_error_only', Eq(status.get('code'), 500))
    got_w = payload_out.get('warnings', [])
    vc.ensure('warnings_in_order', isinstance(got_w, list) and len(got_w) == len(warnings)
              and And(*[Eq(a, b) for a, b in zip(got_w, warnings)], True))
    has_patch = 'patch' in payload_out
    vc.ensure('patch_iff_nonempty_b64_json', has_patch == bool(jsonpatch))
    vc.canary('canary.never_patch', not has_patch)
    if has_patch:
        try:
            decoded = json.loads(base64.b64decode(payload_out['patch'], validate=True).decode('utf-8'))
        except Exception:
            decoded = Ellipsis
        vc.ensure('patch_iff_nonempty_b64_json', decoded == jsonpatch and payload_out.get('patchType') == 'JSONPatch')
    return ('response', payload_out['allowed'], kind, status.get('code') if status else None, len(got_w), has_patch)
