"""Contracts for property C18 (admission responses): admission.build_response (M1),
registries.WebhooksRegistry.iter_handlers (R5), patches.Patch.as_json_patch (A5, bounded)."""
import base64
import copy
import itertools
import json

from pyvc import *
from pyvc.bounded import bounded
from pyvc.stubs import Opaque, NullLogger, exception_reps
from kopf._core.actions import execution
from kopf._core.engines import admission
from kopf._core.intents import causes, handlers, registries
from kopf._cogs.structs import patches


# =============================================================================================== M1
AE, PE, TE = admission.AdmissionError, execution.PermanentError, execution.TemporaryError
# "any exception a handler may leave in an Outcome": the three named classes, a fresh subclass of each, classes
# inheriting from two of them, and an unrelated Exception (Outcome.exception: Exception | None, so no BaseException).
M1_REPS = exception_reps([AE, PE, TE], with_base=False)
M1_NAMED = [AE, PE, TE, M1_REPS[-1]]
PLANTED_CODE = 418      # a `.code` attribute on errors that are NOT admission errors: must never be reported
M1_PATCHES = [
    [],
    [{'op': 'add', 'path': '/spec/a~1b', 'value': {'k': [1, None, 'é "']}}, {'op': 'remove', 'path': '/metadata/labels/~0x'}],
]


def spec_priority(e):
    """The statement's order: admission error, then permanent, temporary, other."""
    return 0 if isinstance(e, AE) else 1 if isinstance(e, PE) else 2 if isinstance(e, TE) else 3


@harness('M1', targets='kopf._core.engines.admission.build_response', props=['C18'],
         clauses=['allowed_iff_no_exception', 'status_on_denial', 'message_from_most_specific', 'code_from_admission_error_only',
                  'warnings_in_order', 'patch_iff_nonempty_b64_json'],
         canaries=['canary.always_allowed', 'canary.never_patch'],
         assumes=['M1 BOUNDS: the outcomes mapping has 0..3 entries (0..2 entries: every exception representative of '
                  'pyvc.stubs.exception_reps over AdmissionError/PermanentError/TemporaryError, AdmissionError.code None or int; '
                  '3 entries: the three named classes + an unrelated Exception, int codes); warnings: a list of 0..2 strings (0 or 2 when there are 2+ outcomes); '
                  'the JSON patch is one of 2 concrete lists (json/base64 are C code). Messages, codes, warning texts are symbolic.'])
def M1(vc):
    """
    build_response(request, outcomes, warnings, jsonpatch):
      allowed  <=>  no outcome carries an exception;
      denied   =>   status.message is str(e*) (when non-empty) and status.code is e*.code if e* is an AdmissionError
                    (any subclass) with an HTTP code, and 500 for every other error even if it has a `.code` attribute
                    (docs/admission.rst "Admission errors"), where e* is the FIRST error (in the order of the outcomes
                    mapping) of the most specific kind present: admission, then permanent, then temporary, then other;
      warnings are returned as given, in order (absent or empty when there are none);
      `patch` is present iff the JSON patch is non-empty; it base64/JSON-decodes to exactly the given list, with
      patchType 'JSONPatch'.
    Domain: see `assumes` -- the number of outcomes/warnings is BOUNDED (native sort/comprehensions over real lists),
    the contents are symbolic; every named error class, subclass and double inheritance is covered for up to 2
    outcomes, the named classes for 3 (first-of-equals across an interleaved error of another kind).
    Preconditions (call site serve_admission_request / AdmissionError signature): an int `code` is an HTTP status
    100..599; warnings are strings; outcome exceptions are Exception instances or None.
    """
    n = vc.nondet(4, '#outcomes')
    outcomes, excs = {}, []
    for i in range(n):
        reps = M1_REPS if n <= 2 else M1_NAMED
        k = vc.nondet(len(reps) + 1, f'outcome[{i}] kind')
        exc = None
        if k > 0:
            cls = reps[k - 1]
            msg = vc.str(f'msg[{i}]')
            if issubclass(cls, AE):
                code = None
                if n >= 3 or vc.nondet(2, f'code[{i}] is None?') == 1:
                    code = vc.int(f'code[{i}]')
                    vc.assume(And(code >= 100, code <= 599), 'an int code of an AdmissionError is an HTTP status')
                exc = cls(msg, code)
            else:
                exc = cls(msg)
                exc.code = PLANTED_CODE
        excs.append(exc)
        outcomes[f'h{i}'] = execution.Outcome(final=True, exception=exc)
    n_warn = vc.nondet(3, '#warnings') if n <= 1 else 2 * vc.nondet(2, '#warnings/2')
    jsonpatch = M1_PATCHES[vc.nondet(len(M1_PATCHES), 'jsonpatch')]
    warnings = [vc.str(f'warning[{j}]') for j in range(n_warn)]
    request = {'apiVersion': 'admission.k8s.io/v1', 'kind': 'AdmissionReview', 'request': {'uid': 'uid1'}}
    jsonpatch_in = copy.deepcopy(jsonpatch)
    ld = vc.load('kopf._core.engines.admission', 'build_response')
    response = ld.fn(request=request, outcomes=outcomes, warnings=list(warnings), jsonpatch=jsonpatch_in)
    payload_out = response['response']

    errors = [e for e in excs if e is not None]
    vc.ensure('allowed_iff_no_exception', payload_out['allowed'] is (not errors))
    if n <= 1:      # canaries are evaluated on the small configurations only (each refutation costs a model)
        vc.canary('canary.always_allowed', payload_out['allowed'] is True)
    status = payload_out.get('status')
    kind = None
    if errors:
        best = min(range(len(errors)), key=lambda j: (spec_priority(errors[j]), j))
        chosen = errors[best]
        kind = type(chosen).__name__
        vc.ensure('status_on_denial', status is not None)
        if status is not None:
            m = chosen.args[0]
            vc.ensure('message_from_most_specific', Implies(Not(Eq(m, '')), Eq(status.get('message'), m)))
            if isinstance(chosen, AE):
                if chosen.code is not None:
                    vc.ensure('code_from_admission_error_only', Eq(status.get('code'), chosen.code))
            else:
                vc.ensure('code_from_admission_error_only', Eq(status.get('code'), 500))
    got_w = payload_out.get('warnings', [])
    vc.ensure('warnings_in_order', isinstance(got_w, list) and len(got_w) == len(warnings)
              and And(*[Eq(a, b) for a, b in zip(got_w, warnings)], True))
    has_patch = 'patch' in payload_out
    vc.ensure('patch_iff_nonempty_b64_json', has_patch == bool(jsonpatch))
    if n <= 1:
        vc.canary('canary.never_patch', not has_patch)
    if has_patch:
        try:
            decoded = json.loads(base64.b64decode(payload_out['patch'], validate=True).decode('utf-8'))
        except Exception:
            decoded = Ellipsis
        vc.ensure('patch_iff_nonempty_b64_json', decoded == jsonpatch and payload_out.get('patchType') == 'JSONPatch')
    return ('response', payload_out['allowed'], kind, status.get('code') if status else None, len(got_w), has_patch)


# =============================================================================================== R5
WT = causes.WebhookType
OPS = ('CREATE', 'UPDATE', 'DELETE', 'CONNECT')            # reviews.Operation
# handler.operations: None (= all operations) or a NON-EMPTY collection of operations (kopf.on._verify_operations
# rejects empty ones): every non-empty subset, as lists and as the frozensets the deprecated `operation=` makes.
# Every subset in EVERY collection type the declared type (Collection[str]) admits: list, tuple, set, frozenset.
R5_OPERATIONS = [None] + [list(c) if i % 2 == 0 else frozenset(c)
                          for i, c in enumerate(c for r in range(1, 5) for c in itertools.combinations(OPS, r))]
# R5t: the declared type is Collection[str] -- every collection type, for the single-operation declarations and a pair
R5T_OPERATIONS = [kind(c) for c in (('DELETE',), ('CREATE',), ('DELETE', 'UPDATE')) for kind in (list, tuple, set, frozenset)]


class _Container:
    """`excluded`: an arbitrary container -- membership of the one id in play is a free boolean."""
    def __init__(self, member):
        self.member = member

    def __contains__(self, x):
        return bool(self.member)


def _fin_where(x, pred):
    """pred(x) for a value drawn with vc.fin, as a formula over its alternatives (no case split)."""
    if isinstance(x, SFin):
        from pyvc.values import _UNRESOLVED
        return pred(x._chosen) if x._chosen is not _UNRESOLVED else x._where(pred)
    return pred(x)


@harness('R5t', targets=['kopf._core.intents.registries.WebhooksRegistry.iter_handlers'], props=['C18', 'C15'],
         clauses=['excluded', 'webhook_id_and_type', 'operation', 'subresource_and_filters', 'mutating_on_delete',
                  'selected_when_all_match', 'frame'],
         canaries=['canary.yields_all', 'canary.never_yields'],
         trusted=['as R5'])
def R5t(vc):
    """R5's clauses for `operations` given as a list, tuple, set or frozenset (the declared type is Collection[str]; the
    deprecated `operation=` keyword makes a frozenset, users write tuples and sets): the selection may not depend on the
    collection TYPE.  The other dimensions are narrowed (one id, two subresources) -- R5 covers them in full."""
    return _r5(vc, R5T_OPERATIONS, True)


@harness('R5', targets=['kopf._core.intents.registries.WebhooksRegistry.iter_handlers',
                        'kopf._core.intents.registries._matches_subresource'], props=['C18', 'C09', 'C15', 'C17'],
         clauses=['excluded', 'webhook_id_and_type', 'operation', 'subresource_and_filters', 'mutating_on_delete',
                  'selected_when_all_match', 'frame'],
         canaries=['canary.yields_all', 'canary.never_yields'],
         trusted=['registries.match(handler, cause) == _matches_subresource(handler, cause) and <the other filters> (contract R4); '
                  'the other filters are an arbitrary boolean of (handler, cause)'])
def R5(vc):
    return _r5(vc, R5_OPERATIONS, False)


def _r5(vc, operations_domain, narrow):
    """
    WebhooksRegistry.iter_handlers -- loop contract: ONE arbitrary registered handler h (the loop keeps no state
    between iterations), so the clauses hold for every handler of a registry of any size.  h is yielded at most once, and
      yielded  =>  h.id not excluded                                                            [excluded]
      yielded  =>  (no webhook id hinted or == h.id) and (no webhook type hinted or == h.reason) [webhook_id_and_type]
      yielded  =>  h declares no operations, or the review's operation is among them
                   (a review without an operation is left unconstrained)                        [operation]
      yielded  =>  h.subresource == '*' or == the review's subresource (None == None), and the
                   other filters match                                                          [subresource_and_filters]
      a MUTATING h on a DELETE review: yielded => DELETE is among its declared operations
                   (unset = not opted in)                                                       [mutating_on_delete]
      all of the above hold, the review has an operation or h declares none, and -- for a mutating h on DELETE --
                   h.operations == {'DELETE'}   =>   yielded                                    [selected_when_all_match]
      (a mutating handler with a mixed set containing DELETE on a DELETE review is deliberately left unconstrained).
    `match` runs by contract: the real `_matches_subresource` (second target, inlined through the loader) and a free
    boolean for the label/annotation/field/callback filters.
    """
    from pyvc.loader import _STOP, vc_is
    h = handlers.WebhookHandler(
        id=vc.fin('h.id', ['h', 'g'] if not narrow else ['h']), fn=Opaque('fn'), param=None, errors=None, timeout=None, retries=None, backoff=None,
        selector=None, labels=None, annotations=None, when=None, field=None, value=None,
        reason=vc.fin('h.reason', [WT.VALIDATING, WT.MUTATING]),
        operations=vc.fin('h.operations', operations_domain),
        subresource=vc.fin('h.subresource', [None, '*', 'status', 'scale'] if not narrow else [None, '*']),
        persistent=None, side_effects=None, ignore_failures=None)
    cause = causes.WebhookCause(
        logger=NullLogger(), indices=Opaque('indices'), memo=Opaque('memo'), resource=Opaque('resource'),
        patch=Opaque('patch'), body=Opaque('body'), dryrun=False,
        reason=vc.fin('cause.reason', [None, WT.VALIDATING, WT.MUTATING] if not narrow else [None, WT.MUTATING]),
        webhook=vc.fin('cause.webhook', [None, 'h', 'g', 'other'] if not narrow else [None, 'h']),
        headers={}, sslpeer={}, userinfo={}, warnings=[],
        operation=vc.fin('cause.operation', [None] + list(OPS)),
        subresource=vc.fin('cause.subresource', [None, 'status', 'scale', '*'] if not narrow else [None, 'status']))
    excluded = vc.bool('h.id in excluded')
    others = vc.bool('other filters match(h, cause)')
    match_calls = []
    sub = vc.load('kopf._core.intents.registries', '_matches_subresource')

    def match(handler, cause):
        match_calls.append((handler, cause))
        return And(sub.fn(handler, cause), others)
    vc.used('registries.match', 'R4')
    reg = registries.WebhooksRegistry()
    reg._handlers = Opaque('handlers-list')
    yielded = []

    def element(loc, iterable):
        vc.ensure('frame', iterable is reg._handlers)
        if vc.nondet(2, 'exhausted?') == 0:
            return _STOP
        return h

    def spec_and_check(loc):
        if loc.get('handler') is not h:
            return True
        hops, op = h.operations, cause.operation         # hops is NOT resolved: predicates over the finite alternatives
        declared = _fin_where(hops, lambda m: m is not None)
        op_known = Not(vc_is(op, None))
        op_among = Or(*[And(Eq(op, o), _fin_where(hops, lambda m, o=o: m is not None and o in m)) for o in OPS], False)
        is_delete = Eq(op, 'DELETE')
        mutating = Eq(h.reason, WT.MUTATING)
        only_delete = _fin_where(hops, lambda m: m is not None and set(m) == {'DELETE'})
        has_delete = _fin_where(hops, lambda m: m is not None and 'DELETE' in m)
        id_ok = Or(vc_is(cause.webhook, None), Eq(cause.webhook, h.id))
        type_ok = Or(vc_is(cause.reason, None), Eq(cause.reason, h.reason))
        sub_ok = Or(Eq(h.subresource, '*'), Eq(h.subresource, cause.subresource))
        got = len(yielded) == 1
        vc.ensure('frame', len(yielded) <= 1 and all(y is h for y in yielded))
        for mh, mc in match_calls:
            vc.ensure('frame', mh is h and mc is cause)
        rest = And(Not(excluded), id_ok, type_ok, sub_ok, others, Implies(And(mutating, is_delete), has_delete))
        vc.ensure('excluded', Implies(got, Not(excluded)))
        vc.ensure('webhook_id_and_type', Implies(got, And(id_ok, type_ok)))
        vc.ensure('operation', Implies(got, Or(Not(declared), Not(op_known), op_among)),
                  excuse={'F-C18-1': And(got, declared, op_known, Not(op_among), rest)})
        vc.ensure('subresource_and_filters', Implies(got, And(sub_ok, others)))
        vc.ensure('mutating_on_delete', Implies(And(got, mutating, is_delete), has_delete))
        must = And(Not(excluded), id_ok, type_ok, sub_ok, others, Or(Not(declared), And(op_known, op_among)),
                   Implies(And(mutating, is_delete), only_delete))
        vc.ensure('selected_when_all_match', Implies(must, got))
        vc.canary('canary.yields_all', got)
        vc.canary('canary.never_yields', not got)
        return True
    first = [True]

    def inv(loc):       # called at the loop entry (nothing to state) and at the back edge of the iteration for h
        if first[0]:
            first[0] = False
            return True
        return spec_and_check(loc)
    ld = vc.load('kopf._core.intents.registries', 'WebhooksRegistry.iter_handlers', stubs={'match': match},
                 loops={1: LoopSpec('for handler in self._handlers', invariant=inv, element=element)})
    for y in ld.fn(reg, cause, _Container(excluded)):
        yielded.append(y)
    return ('done', len(yielded))


# =============================================================================================== A5
# Independent references (no kopf code, no `jsonpatch`/`jsonpointer` library).
def merge7386(target, patch):
    """RFC 7386 section 2 (MergePatch), verbatim; returns a new value."""
    if isinstance(patch, dict):
        target = dict(target) if isinstance(target, dict) else {}
        for name, value in patch.items():
            if value is None:
                target.pop(name, None)
            else:
                target[name] = merge7386(target.get(name), value)
        return target
    return copy.deepcopy(patch)


class PatchError(Exception):
    """The JSON patch does not apply to the document (RFC 6902: the whole patch fails)."""


def _pointer(path):
    """RFC 6901: '' is the root; otherwise '/'-prefixed reference tokens with ~1 -> '/', then ~0 -> '~'."""
    if path == '':
        return []
    if not isinstance(path, str) or not path.startswith('/'):
        raise PatchError(f'bad pointer {path!r}')
    return [t.replace('~1', '/').replace('~0', '~') for t in path[1:].split('/')]


def _index(token, size, allow_end):
    if token == '-' and allow_end:
        return size
    if not token.isdigit() or (len(token) > 1 and token[0] == '0'):
        raise PatchError(f'bad array index {token!r}')
    i = int(token)
    if i > size or (i == size and not allow_end):
        raise PatchError(f'array index {i} out of range')
    return i


def _walk(doc, tokens):
    for t in tokens:
        if isinstance(doc, dict):
            if t not in doc:
                raise PatchError(f'no member {t!r}')
            doc = doc[t]
        elif isinstance(doc, list):
            doc = doc[_index(t, len(doc), False)]
        else:
            raise PatchError(f'cannot descend into a scalar at {t!r}')
    return doc


def _get(doc, path):
    return _walk(doc, _pointer(path))


def _add(doc, path, value):
    tokens = _pointer(path)
    if not tokens:
        return value
    parent = _walk(doc, tokens[:-1])
    if isinstance(parent, dict):
        parent[tokens[-1]] = value
    elif isinstance(parent, list):
        parent.insert(_index(tokens[-1], len(parent), True), value)
    else:
        raise PatchError('add into a scalar')
    return doc


def _remove(doc, path):
    tokens = _pointer(path)
    if not tokens:
        raise PatchError('removing the root')
    parent = _walk(doc, tokens[:-1])
    if isinstance(parent, dict):
        if tokens[-1] not in parent:
            raise PatchError(f'remove: no member {tokens[-1]!r}')
        del parent[tokens[-1]]
    elif isinstance(parent, list):
        del parent[_index(tokens[-1], len(parent), False)]
    else:
        raise PatchError('remove from a scalar')
    return doc


def apply6902(doc, ops):
    """RFC 6902 section 4: add / remove / replace / move / copy / test, applied in order to a copy of `doc`."""
    doc = copy.deepcopy(doc)
    for op in ops:
        kind, path = op['op'], op['path']
        if kind == 'add':
            doc = _add(doc, path, copy.deepcopy(op['value']))
        elif kind == 'remove':
            doc = _remove(doc, path)
        elif kind == 'replace':
            _get(doc, path)                                   # the target location MUST exist
            doc = _add(_remove(doc, path), path, copy.deepcopy(op['value'])) if path else copy.deepcopy(op['value'])
        elif kind == 'move':
            if (path + '/').startswith(op['from'] + '/') and path != op['from']:
                raise PatchError('move into its own child')
            value = _get(doc, op['from'])
            doc = _add(_remove(doc, op['from']), path, value)
        elif kind == 'copy':
            doc = _add(doc, path, copy.deepcopy(_get(doc, op['from'])))
        elif kind == 'test':
            if _canon(_get(doc, path)) != _canon(op['value']):
                raise PatchError('test failed')
        else:
            raise PatchError(f'unknown op {kind!r}')
    return doc


def _prune(v):
    """Normal form for "up to the presence of empty mappings": mapping members that are (recursively) empty mappings
    are dropped; list elements are normalised but never dropped."""
    if isinstance(v, dict):
        out = {k: _prune(x) for k, x in v.items()}
        return {k: x for k, x in out.items() if not (isinstance(x, dict) and not x)}
    if isinstance(v, list):
        return [_prune(x) for x in v]
    return v


def _canon(v):
    """JSON text with sorted keys: 1, 1.0, true and "1" are all different, as in JSON."""
    return json.dumps(v, sort_keys=True)


def _fresh(v):
    """A copy without any sharing between sub-values (copy.deepcopy keeps aliases; JSON documents have none)."""
    return json.loads(json.dumps(v))


def similar(a, b):
    return _canon(_prune(a)) == _canon(_prune(b))


def in_type_change_class(body, patch):
    """F-C18-2's class: somewhere the merge-patch has a MAPPING where the body has a present value that is not a mapping."""
    if not isinstance(patch, dict):
        return False
    if not isinstance(body, dict):
        return True
    return any(k in body and isinstance(v, dict) and in_type_change_class(body[k], v) for k, v in patch.items())


def in_library_diff_class(body, target, also=()):
    """F-C18-3's class: the third-party diff is itself wrong for (body -> the CORRECT target): jsonpatch.from_diff
    raises, or its ops -- applied by the independent RFC 6902 interpreter -- do not yield that target exactly.
    `also`: further targets the library may have been given (the merged body as kopf builds it internally, which
    may differ from the reference result in the presence of empty mappings only)."""
    import jsonpatch
    for t in (target, _prune(target)) + tuple(also):
        try:
            ops = jsonpatch.JsonPatch.from_diff(_fresh(body), _fresh(t)).patch
            if _canon(apply6902(body, ops)) != _canon(t):
                return True
        except Exception:
            return True
    return False


# -- transformation functions: total, and insensitive to the presence of empty mappings
def fn_append(body):
    if isinstance(body.get('a'), list):
        body['a'].append(1)
    else:
        body['a'] = [1]


def fn_set(body):
    if not isinstance(body.get('b'), dict):
        body['b'] = {}
    body['b']['~x'] = 'set'


def fn_delete(body):
    body.pop('a/b', None)
    if isinstance(body.get('a'), dict):
        body['a'].pop('b', None)


A5_LEAVES = [None, 0, 1, '', 'x', [], [0], {}]
A5_KEYS = ['a', 'b', 'a/b', '~x']
A5_FNS = [(), (fn_append,), (fn_set,), (fn_delete,), (fn_set, fn_delete, fn_append)]
_ABSENT = object()


def a5_universe():
    """Yields (tag, body, patch, fns): see the `universe` text of A5."""
    L, K = A5_LEAVES, A5_KEYS
    one = [_ABSENT] + L + [{k: v} for k in K for v in L]
    # A: one top-level key, value absent / leaf / one-member mapping on both sides, every fn set
    for t in K:
        for bv in one:
            for pv in one:
                for fns in A5_FNS:
                    yield 'A', ({} if bv is _ABSENT else {t: bv}), ({} if pv is _ABSENT else {t: pv}), fns
    # B: nested merge with siblings: two members below one top-level key
    small = [None, 1, 'x', {}]
    for k1, k2 in [('a', 'b'), ('a/b', '~x')]:
        for b1 in L:
            for b2 in L:
                nested = [{k1: p} for p in small] + [{k2: p} for p in small] + [{k1: p, k2: q} for p in small for q in small]
                for pn in nested:
                    yield 'B', {'a': {k1: b1, k2: b2}}, {'a': pn}, ()
    # C: two top-level keys (cross-key effects of the diff: moves/copies), with and without fns
    vals = [_ABSENT, None, 1, 'x', [0], {}, {'b': 1}]
    for v1 in vals:
        for v2 in vals:
            for w1 in vals:
                for w2 in vals:
                    body = {k: v for k, v in (('a', v1), ('a/b', v2)) if v is not _ABSENT}
                    patch = {k: v for k, v in (('a', w1), ('a/b', w2)) if v is not _ABSENT}
                    for fns in ((), (fn_delete, fn_append)):
                        yield 'C', body, patch, fns
    for body, patch in A5_DIRECTED:
        yield 'L', body, patch, ()


A5_DIRECTED = [      # L: list diffs -- multi-element lists, removed values re-added elsewhere, number-like keys
    ({'l': ['p', 'q'], 'm': {}}, {'l': [], 'm': {'k': 'p'}}),
    ({'l': ['p', 'q'], 'm': {}}, {'l': [], 'm': {'k': 'q'}}),
    ({'l': ['p', 'q']}, {'l': [], 'x': 'q', 'y': 'p'}),
    ({'l': ['p', 'q', 'p']}, {'l': ['p'], 'x': 'p'}),
    ({'a': [0, 1, 2]}, {'a': [2, 1, 0]}),
    ({'a': [0, 1, 2]}, {'a': [1]}),
    ({'a': [0, 1, 2], 'b': {}}, {'a': [0, 2], 'b': {'a/b': 1}}),
    ({'a': [{'a': 1}, {'b': 2}]}, {'a': [{'b': 2}, {'a': 1}, {}]}),
    ({'c': [{'a': None}], '0': {}, 'b': [0]}, {'c': None, '0': None, 'b': [[], {}], 'a': [1]}),
    ({'0': 5, 'b': [0], 'c': [7]}, {'0': None, 'c': None, 'b': [[], 5]}),
    ({'0': 5, '1': [5]}, {'0': None, '1': [5, 5]}),
]


def a5_finalizer_universe():
    """The transformations kopf itself uses (C06/C08): finalizers.block_deletion / allow_deletion as patch fns."""
    import functools
    from kopf._cogs.structs import finalizers
    block = functools.partial(finalizers.block_deletion, finalizer='f')
    allow = functools.partial(finalizers.allow_deletion, finalizer='f')
    metas = [_ABSENT, {}, {'finalizers': []}, {'finalizers': ['f']}, {'finalizers': ['g']}, {'finalizers': ['g', 'f']},
             {'finalizers': ['f', 'g', 'f']}, {'name': 'n', 'finalizers': ['f']}, {'name': 'n'}]
    merges = [{}, {'metadata': {'labels': {'a/b': '1'}}}, {'status': {'a': 1}}, {'metadata': {'finalizers': None}},
              {'metadata': {'annotations': {'~x': None}}}, {'metadata': None}]
    for meta in metas:
        for patch in merges:
            for fns in [(block,), (allow,), (block, allow), (allow, block), (block, block)]:
                body = {'spec': {'a': 1}} if meta is _ABSENT else {'metadata': copy.deepcopy(meta), 'spec': {'a': 1}}
                yield 'F', body, patch, fns


def a5_random(rng, depth):
    """A random JSON mapping of the given depth over a slightly larger alphabet (incl. bools and floats)."""
    keys = A5_KEYS + ['', 'c', 'a~1b', '0']
    leaves = A5_LEAVES + [True, False, 1.5, 'a/b', [{'a': None}], [[], {}], ['x', 'y'], [0, 1, 'x'], [1, 1]]

    def value(d):
        if d > 0 and rng.random() < 0.6:
            return {rng.choice(keys): value(d - 1) for _ in range(rng.randint(0, 3))}
        return copy.deepcopy(rng.choice(leaves))

    def patch_for(body, d):
        out = {}
        for k in list(body) + [rng.choice(keys) for _ in range(rng.randint(0, 2))]:
            r = rng.random()
            if r < 0.35:
                continue
            if r < 0.5:
                out[k] = None
            elif r < 0.75 and d > 0 and isinstance(body.get(k, {}), dict):
                out[k] = patch_for(body.get(k, {}), d - 1)        # a nested merge (never over a non-mapping)
            elif r < 0.8 and d > 0:
                out[k] = patch_for({}, d - 1)                       # possibly a mapping over a scalar
            else:
                out[k] = value(d - 1) if d > 0 else copy.deepcopy(rng.choice(leaves))
        return out
    body = {rng.choice(keys): value(depth - 1) for _ in range(rng.randint(0, 4))}
    return body, patch_for(body, depth - 1)


@bounded('A5', targets=['kopf._cogs.structs.patches.Patch.as_json_patch', 'kopf._cogs.structs.patches.Patch._apply_patch'],
         props=['C18', 'C06', 'C08', 'C03', 'C13', 'C16'], clauses=['merge_fidelity', 'fns_fidelity'],
         universe='(body, merge-patch, fns): exhaustive over A: one top-level key t in {a, b, "a/b", "~x"} whose value on either '
                  'side is absent, a leaf of {null, 0, 1, "", "x", [], [0], {}} or a one-member mapping over those keys/leaves, '
                  'times 5 fn sets (none, append-to-list, set-nested-key, delete-keys, all three); B: two sibling members '
                  'below one key, merged with 1-2 member nested patches; C: two top-level keys a, "a/b" with values in '
                  '{absent, null, 1, "x", [0], {}, {"b": 1}} on both sides, with/without fns; F: metadata.finalizers shapes x '
                  '6 merge-patches x kopf\'s own block_deletion/allow_deletion as fns; L: 11 directed list-diff cases; plus seeded random bodies/patches of '
                  'depth <= 4 over a larger alphabet (bools, floats, "", "0", "a~1b" keys): 4000 quick / 100000 thorough',
         trusted=['the `jsonpatch` library only through its result: the ops are applied by an independent RFC 6902 interpreter'])
def A5(b):
    """
    BOUNDED (recursion over arbitrary JSON trees + the third-party `jsonpatch` diff: no deductive contract in reach).
    For every (body, merge-style patch, transformation fns) of the universe:
        apply6902(body, Patch(patch, fns=fns).as_json_patch(body))  ==  fns(merge7386(body, patch))
    up to the presence of empty mappings, where merge7386 / apply6902 are independent implementations of RFC 7386 and
    RFC 6902 (+ RFC 6901 pointers) written in this file: set, overwrite, delete (also of absent keys), recursive merge,
    type changes (mapping over scalar, scalar over mapping), "/" and "~" in keys, list values replaced wholesale.
    The patch must apply cleanly (RFC 6902 errors fail the case) and as_json_patch must not raise.  The reference body is
    given both ways the code base does it: as an argument (patching.patch_obj) and as Patch(body=...) (admission).
    Known finding F-C18-2: a mapping in the patch over a present non-mapping in the body (type change) raises TypeError
    or is silently dropped -- excused exactly for the cases of in_type_change_class().
    Known finding F-C18-3 (directed part L and the random part; partly depends on PYTHONHASHSEED): jsonpatch.from_diff itself emits a wrong patch
    (stale list index after a remove, before a move) or raises TypeError on number-like keys -- excused exactly when
    the library's diff of (body -> the reference result) is itself unfaithful, see in_library_diff_class().
    """
    from kopf._cogs.structs import bodies

    def one(tag, body, patch, fns, n):
        body0, patch0 = copy.deepcopy(body), copy.deepcopy(patch)
        expected = merge7386(copy.deepcopy(body), patch)       # the reference works on its own copy
        for fn in fns:
            fn(expected)
        clause = 'fns_fidelity' if fns else 'merge_fidelity'
        known = in_type_change_class(body, patch)
        b.case(key=(tag, n), nontrivial=bool(patch) or bool(fns))
        why, ops, actual = None, None, None
        try:
            if n % 2 == 0:
                ops = patches.Patch(patch, fns=fns).as_json_patch(body)
            else:
                ops = patches.Patch(patch, body=bodies.Body(body), fns=fns).as_json_patch()
        except Exception as e:
            why = f'as_json_patch raised {type(e).__name__}: {e}'
        if why is None:
            try:
                actual = apply6902(body0, ops)
            except PatchError as e:
                why = f'the JSON patch does not apply: {e}'
        if why is None and not similar(actual, expected):
            why = 'the patched object differs from merge+fns'
        excuse = None
        if why is not None:         # classify a failure: the known classes are decided on the INPUTS, not on the failure
            internal = ()
            try:        # what kopf hands to the library: the real merge (Patch._apply_patch) + fns on a copy of the body
                to_be = copy.deepcopy(body0)
                pp = patches.Patch(patch0, fns=fns)
                pp._apply_patch(to_be, (), dict(pp))
                for fn in fns:
                    fn(to_be)
                if similar(to_be, expected):      # only if kopf's own part is right: then a wrong result is the library's
                    internal = (to_be,)
            except Exception:
                pass
            excuse = 'F-C18-3' if in_library_diff_class(body0, expected, internal) else 'F-C18-2' if known else None
        b.check(clause, why is None, excuse=excuse,
                witness=lambda: dict(body=body0, merge_patch=patch0, fns=[getattr(f, '__name__', repr(f)) for f in fns],
                                     json_patch=ops, expected=expected, actual=actual, why=why))

    n = 0
    for tag, body, patch, fns in itertools.chain(a5_universe(), a5_finalizer_universe()):
        n += 1
        one(tag, _fresh(body), _fresh(patch), fns, n)
    count = 100000 if b.thorough else 4000
    b.sampled(f'{count} seeded random (body, patch) pairs of depth <= 4 (seed {b.seed}); the parts A, B, C, F, L are exhaustive')
    for i in range(count):
        body, patch = a5_random(b.rng, b.rng.randint(1, 4))
        fns = A5_FNS[i % len(A5_FNS)] if i % 3 == 0 else ()
        n += 1
        one('R', _fresh(body), _fresh(patch), fns, n)
