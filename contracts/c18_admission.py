"""Contracts for property C18 (admission responses): admission.build_response (M1),
registries.WebhooksRegistry.iter_handlers (R5), patches.Patch.as_json_patch (A5, bounded)."""
import base64
import copy
import itertools
import json

from pyvc import *
from pyvc.bounded import bounded
from pyvc.stubs import Opaque, NullLogger, exception_reps
from kopf._core.actions import execution
from kopf._core.engines import admission
from kopf._core.intents import causes, handlers, registries
from kopf._cogs.structs import patches


# =============================================================================================== M1
AE, PE, TE = admission.AdmissionError, execution.PermanentError, execution.TemporaryError
# "any exception a handler may leave in an Outcome": the three named classes, a fresh subclass of each, classes
# inheriting from two of them, and an unrelated Exception (Outcome.exception: Exception | None, so no BaseException).
M1_REPS = exception_reps([AE, PE, TE], with_base=False)
M1_NAMED = [AE, PE, TE, M1_REPS[-1]]
PLANTED_CODE = 418      # a `.code` attribute on errors that are NOT admission errors: must never be reported
M1_PATCHES = [
    [],
    [{'op': 'add', 'path': '/spec/a~1b', 'value': {'k': [1, None, 'é "']}}, {'op': 'remove', 'path': '/metadata/labels/~0x'}],
]


def spec_priority(e):
    """The statement's order: admission error, then permanent, temporary, other."""
    return 0 if isinstance(e, AE) else 1 if isinstance(e, PE) else 2 if isinstance(e, TE) else 3


@harness('M1', targets='kopf._core.engines.admission.build_response', props=['C18'],
         clauses=['allowed_iff_no_exception', 'status_on_denial', 'message_from_most_specific', 'code_from_admission_error_only',
                  'warnings_in_order', 'patch_iff_nonempty_b64_json'],
         canaries=['canary.always_allowed', 'canary.never_patch'],
         assumes=['M1 BOUNDS: the outcomes mapping has 0..3 entries (0..2 entries: every exception representative of '
                  'pyvc.stubs.exception_reps over AdmissionError/PermanentError/TemporaryError, AdmissionError.code None or int; '
                  '3 entries: the three named classes + an unrelated Exception, int codes); warnings: a list of 0..2 strings (0 or 2 when there are 2+ outcomes); '
                  'the JSON patch is one of 2 concrete lists (json/base64 are C code). Messages, codes, warning texts are symbolic.'])
def M1(vc):
    """
    build_response(request, outcomes, warnings, jsonpatch):
      allowed  <=>  no outcome carries an exception;
      denied   =>   status.message is str(e*) (when non-empty) and status.code is e*.code if e* is an AdmissionError
                    (any subclass) with an HTTP code, and 500 for every other error even if it has a `.code` attribute
                    (docs/admission.rst "Admission errors"), where e* is the FIRST error (in the order of the outcomes
                    mapping) of the most specific kind present: admission, then permanent, then temporary, then other;
      warnings are returned as given, in order (absent or empty when there are none);
      `patch` is present iff the JSON patch is non-empty; it base64/JSON-decodes to exactly the given list, with
      patchType 'JSONPatch'.
    Domain: see `assumes` -- the number of outcomes/warnings is BOUNDED (native sort/comprehensions over real lists),
    the contents are symbolic; every named error class, subclass and double inheritance is covered for up to 2
    outcomes, the named classes for 3 (first-of-equals across an interleaved error of another kind).
    Preconditions (call site serve_admission_request / AdmissionError signature): an int `code` is an HTTP status
    100..599; warnings are strings; outcome exceptions are Exception instances or None.
    """
    n = vc.nondet(4, '#outcomes')
    outcomes, excs = {}, []
    for i in range(n):
        reps = M1_REPS if n <= 2 else M1_NAMED
        k = vc.nondet(len(reps) + 1, f'outcome[{i}] kind')
        exc = None
        if k > 0:
            cls = reps[k - 1]
            msg = vc.str(f'msg[{i}]')
            if issubclass(cls, AE):
                code = None
                if n >= 3 or vc.nondet(2, f'code[{i}] is None?') == 1:
                    code = vc.int(f'code[{i}]')
                    vc.assume(And(code >= 100, code <= 599), 'an int code of an AdmissionError is an HTTP status')
                exc = cls(msg, code)
            else:
                exc = cls(msg)
                exc.code = PLANTED_CODE
        excs.append(exc)
        outcomes[f'h{i}'] = execution.Outcome(final=True, exception=exc)
    n_warn = vc.nondet(3, '#warnings') if n <= 1 else 2 * vc.nondet(2, '#warnings/2')
    jsonpatch = M1_PATCHES[vc.nondet(len(M1_PATCHES), 'jsonpatch')]
    warnings = [vc.str(f'warning[{j}]') for j in range(n_warn)]
    request = {'apiVersion': 'admission.k8s.io/v1', 'kind': 'AdmissionReview', 'request': {'uid': 'uid1'}}
    jsonpatch_in = copy.deepcopy(jsonpatch)
    ld = vc.load('kopf._core.engines.admission', 'build_response')
    response = ld.fn(request=request, outcomes=outcomes, warnings=list(warnings), jsonpatch=jsonpatch_in)
    payload_out = response['response']

    errors = [e for e in excs if e is not None]
    vc.ensure('allowed_iff_no_exception', payload_out['allowed'] is (not errors))
    if n <= 1:      # canaries are evaluated on the small configurations only (each refutation costs a model)
        vc.canary('canary.always_allowed', payload_out['allowed'] is True)
    status = payload_out.get('status')
    kind = None
    if errors:
        best = min(range(len(errors)), key=lambda j: (spec_priority(errors[j]), j))
        chosen = errors[best]
        kind = type(chosen).__name__
        vc.ensure('status_on_denial', status is not None)
        if status is not None:
            m = chosen.args[0]
            vc.ensure('message_from_most_specific', Implies(Not(Eq(m, '')), Eq(status.get('message'), m)))
            if isinstance(chosen, AE):
                if chosen.code is not None:
                    vc.ensure('code_from_admission_error_only', Eq(status.get('code'), chosen.code))
            else:
                vc.ensure('code_from_admission_error_only', Eq(status.get('code'), 500))
    got_w = payload_out.get('warnings', [])
    vc.ensure('warnings_in_order', isinstance(got_w, list) and len(got_w) == len(warnings)
              and And(*[Eq(a, b) for a, b in zip(got_w, warnings)], True))
    has_patch = 'patch' in payload_out
    vc.ensure('patch_iff_nonempty_b64_json', has_patch == bool(jsonpatch))
    if n <= 1:
        vc.canary('canary.never_patch', not has_patch)
    if has_patch:
        try:
            decoded = json.loads(base64.b64decode(payload_out['patch'], validate=True).decode('utf-8'))
        except Exception:
            decoded = Ellipsis
        vc.ensure('patch_iff_nonempty_b64_json', decoded == jsonpatch and payload_out.get('patchType') == 'JSONPatch')
    return ('response', payload_out['allowed'], kind, status.get('code') if status else None, len(got_w), has_patch)


# =============================================================================================== R5
WT = causes.WebhookType
OPS = ('CREATE', 'UPDATE', 'DELETE', 'CONNECT')            # reviews.Operation
# handler.operations: None (= all operations) or a NON-EMPTY collection of operations (kopf.on._verify_operations
# rejects empty ones): every non-empty subset, as lists, and as the frozensets the deprecated `operation=` makes.
R5_OPERATIONS = [None] + [list(c) if i % 2 == 0 else frozenset(c)
                          for i, c in enumerate(c for r in range(1, 5) for c in itertools.combinations(OPS, r))]


class _Container:
    """`excluded`: an arbitrary container -- membership of the one id in play is a free boolean."""
    def __init__(self, member):
        self.member = member

    def __contains__(self, x):
        return bool(self.member)


def _fin_where(x, pred):
    """pred(x) for a value drawn with vc.fin, as a formula over its alternatives (no case split)."""
    if isinstance(x, SFin):
        from pyvc.values import _UNRESOLVED
        return pred(x._chosen) if x._chosen is not _UNRESOLVED else x._where(pred)
    return pred(x)


@harness('R5', targets=['kopf._core.intents.registries.WebhooksRegistry.iter_handlers',
                        'kopf._core.intents.registries._matches_subresource'], props=['C18'],
         clauses=['excluded', 'webhook_id_and_type', 'operation', 'subresource_and_filters', 'mutating_on_delete',
                  'selected_when_all_match', 'frame'],
         canaries=['canary.yields_all', 'canary.never_yields'],
         trusted=['registries.match(handler, cause) == _matches_subresource(handler, cause) and <the other filters> (contract R4); '
                  'the other filters are an arbitrary boolean of (handler, cause)'])
def R5(vc):
    """
    WebhooksRegistry.iter_handlers -- loop contract: ONE arbitrary registered handler h (the loop keeps no state
    between iterations), so the clauses hold for every handler of a registry of any size.  h is yielded at most once, and
      yielded  =>  h.id not excluded                                                            [excluded]
      yielded  =>  (no webhook id hinted or == h.id) and (no webhook type hinted or == h.reason) [webhook_id_and_type]
      yielded  =>  h declares no operations, or the review's operation is among them
                   (a review without an operation is left unconstrained)                        [operation]
      yielded  =>  h.subresource == '*' or == the review's subresource (None == None), and the
                   other filters match                                                          [subresource_and_filters]
      a MUTATING h on a DELETE review: yielded => DELETE is among its declared operations
                   (unset = not opted in)                                                       [mutating_on_delete]
      all of the above hold, the review has an operation or h declares none, and -- for a mutating h on DELETE --
                   h.operations == {'DELETE'}   =>   yielded                                    [selected_when_all_match]
      (a mutating handler with a mixed set containing DELETE on a DELETE review is deliberately left unconstrained).
    `match` runs by contract: the real `_matches_subresource` (second target, inlined through the loader) and a free
    boolean for the label/annotation/field/callback filters.
    """
    from pyvc.loader import _STOP, vc_is
    h = handlers.WebhookHandler(
        id=vc.fin('h.id', ['h', 'g']), fn=Opaque('fn'), param=None, errors=None, timeout=None, retries=None, backoff=None,
        selector=None, labels=None, annotations=None, when=None, field=None, value=None,
        reason=vc.fin('h.reason', [WT.VALIDATING, WT.MUTATING]),
        operations=vc.fin('h.operations', R5_OPERATIONS),
        subresource=vc.fin('h.subresource', [None, '*', 'status', 'scale']),
        persistent=None, side_effects=None, ignore_failures=None)
    cause = causes.WebhookCause(
        logger=NullLogger(), indices=Opaque('indices'), memo=Opaque('memo'), resource=Opaque('resource'),
        patch=Opaque('patch'), body=Opaque('body'), dryrun=False,
        reason=vc.fin('cause.reason', [None, WT.VALIDATING, WT.MUTATING]),
        webhook=vc.fin('cause.webhook', [None, 'h', 'g', 'other']),
        headers={}, sslpeer={}, userinfo={}, warnings=[],
        operation=vc.fin('cause.operation', [None] + list(OPS)),
        subresource=vc.fin('cause.subresource', [None, 'status', 'scale', '*']))
    excluded = vc.bool('h.id in excluded')
    others = vc.bool('other filters match(h, cause)')
    match_calls = []
    sub = vc.load('kopf._core.intents.registries', '_matches_subresource')

    def match(handler, cause):
        match_calls.append((handler, cause))
        return And(sub.fn(handler, cause), others)
    vc.used('registries.match', 'R4')
    reg = registries.WebhooksRegistry()
    reg._handlers = Opaque('handlers-list')
    yielded = []

    def element(loc, iterable):
        vc.ensure('frame', iterable is reg._handlers)
        if vc.nondet(2, 'exhausted?') == 0:
            return _STOP
        return h

    def spec_and_check(loc):
        if loc.get('handler') is not h:
            return True
        hops, op = h.operations, cause.operation         # hops is NOT resolved: predicates over the finite alternatives
        declared = _fin_where(hops, lambda m: m is not None)
        op_known = Not(vc_is(op, None))
        op_among = Or(*[And(Eq(op, o), _fin_where(hops, lambda m, o=o: m is not None and o in m)) for o in OPS], False)
        is_delete = Eq(op, 'DELETE')
        mutating = Eq(h.reason, WT.MUTATING)
        only_delete = _fin_where(hops, lambda m: m is not None and set(m) == {'DELETE'})
        has_delete = _fin_where(hops, lambda m: m is not None and 'DELETE' in m)
        id_ok = Or(vc_is(cause.webhook, None), Eq(cause.webhook, h.id))
        type_ok = Or(vc_is(cause.reason, None), Eq(cause.reason, h.reason))
        sub_ok = Or(Eq(h.subresource, '*'), Eq(h.subresource, cause.subresource))
        got = len(yielded) == 1
        vc.ensure('frame', len(yielded) <= 1 and all(y is h for y in yielded))
        for mh, mc in match_calls:
            vc.ensure('frame', mh is h and mc is cause)
        rest = And(Not(excluded), id_ok, type_ok, sub_ok, others, Implies(And(mutating, is_delete), has_delete))
        vc.ensure('excluded', Implies(got, Not(excluded)))
        vc.ensure('webhook_id_and_type', Implies(got, And(id_ok, type_ok)))
        vc.ensure('operation', Implies(got, Or(Not(declared), Not(op_known), op_among)),
                  excuse={'F-C18-1': And(got, declared, op_known, Not(op_among), rest)})
        vc.ensure('subresource_and_filters', Implies(got, And(sub_ok, others)))
        vc.ensure('mutating_on_delete', Implies(And(got, mutating, is_delete), has_delete))
        must = And(Not(excluded), id_ok, type_ok, sub_ok, others, Or(Not(declared), And(op_known, op_among)),
                   Implies(And(mutating, is_delete), only_delete))
        vc.ensure('selected_when_all_match', Implies(must, got))
        vc.canary('canary.yields_all', got)
        vc.canary('canary.never_yields', not got)
        return True
    first = [True]

    def inv(loc):       # called at the loop entry (nothing to state) and at the back edge of the iteration for h
        if first[0]:
            first[0] = False
            return True
        return spec_and_check(loc)
    ld = vc.load('kopf._core.intents.registries', 'WebhooksRegistry.iter_handlers', stubs={'match': match},
                 loops={1: LoopSpec('for handler in self._handlers', invariant=inv, element=element)})
    for y in ld.fn(reg, cause, _Container(excluded)):
        yielded.append(y)
    return ('done', len(yielded))
