"""Contracts for the per-cycle orchestration in kopf._core.reactor.processing (H2-H6) and the finalizer
list edits of kopf._cogs.structs.finalizers (K3, K3b)."""
import types

from pyvc import *
from pyvc.stubs import Opaque, NullLogger, Clock, StubLoop, StubEvent, make_sleep
from kopf._core.intents import causes

R = causes.Reason
ETYPES = [None, 'ADDED', 'MODIFIED', 'DELETED']


def _b(x):
    """Truth value of a harness-side flag as something the combinators accept (no fork)."""
    return x


class SymPatch:
    """
    patches.Patch as the orchestration sees it (contract of Patch.__bool__/fns): `bool(patch)` is
    "the merge-patch content is non-empty or there are transformation fns"; `fns` is a real list.
    The content's non-emptiness is one (symbolic) boolean that callee stubs havoc.
    """
    def __init__(self, content, fns=()):
        self.content = content
        self.fns = list(fns)

    def __bool__(self):
        if self.fns:
            return True
        return bool(self.content)


# =================================================================== process_resource_causes world
def causes_world(vc, *, pressure_may_be_none=False):
    """
    Runs the real `process_resource_causes` once over havocked callee results and returns everything
    observed.  Callee contracts used (each callee is a stub, never the body):
      _detect_causes (H5)            -> any combination of present/absent causes; with K1 composed in:
                                        changing_cause.reason is GONE  <=>  event type == 'DELETED';
      process_watching_cause         -> returns None; may add to the patch content (trusted: delivers results);
      process_spawning_cause (H7)    -> returns an arbitrary list of reals; may add to the patch content;
      process_changing_cause (H1)    -> returns an arbitrary list of reals or raises; may add to the patch content;
      registry._changing.prematch / *.requires_finalizer (R2) -> arbitrary booleans (pure);
      finalizers.is_deletion_ongoing / is_deletion_blocked (K2) -> arbitrary booleans, functions of (body[, finalizer]);
      aiotime.sleep (T1) via pyvc.stubs.make_sleep on a ghost clock; loop.time() == the ghost clock.
    Every awaited callee is a suspension point at which the clock advances and the stream-pressure event may get set.
    """
    from kopf._core.reactor import processing
    W = types.SimpleNamespace()
    W.etype = vc.fin('event.type', ETYPES)
    W.deleted_event = Eq(W.etype, 'DELETED')
    W.raw_event = {'type': W.etype, 'object': {}}
    W.body, W.resource = Opaque('body'), Opaque('resource')
    W.finalizer = 'fin.example.com/kopf'
    W.has_watching = vc.nondet(2, 'watching cause?') == 1
    W.has_spawning = vc.nondet(2, 'spawning cause?') == 1
    W.has_changing = vc.nondet(2, 'changing cause?') == 1
    W.watching = Opaque('watching_cause') if W.has_watching else None
    W.spawning = Opaque('spawning_cause') if W.has_spawning else None
    W.reason = vc.fin('cause.reason', list(R))
    W.changing = Opaque('changing_cause', reason=W.reason) if W.has_changing else None
    if W.has_changing:
        vc.assume(Iff(Eq(W.reason, R.GONE), W.deleted_event), 'K1 via H5: reason is GONE iff the event type is DELETED')
    vc.used('processing._detect_causes', 'H5'); vc.used('causes.detect_changing_cause', 'K1')
    W.prematch, W.sp_req, W.ch_req = vc.bool('prematch'), vc.bool('spawning.requires_finalizer'), vc.bool('changing.requires_finalizer')
    W.ongoing, W.blocked = vc.bool('deletion_ongoing'), vc.bool('deletion_blocked')
    vc.used('finalizers.is_deletion_ongoing', 'K2'); vc.used('finalizers.is_deletion_blocked', 'K2')
    vc.used('registries.*.requires_finalizer/prematch', 'R2')
    W.carried = [Opaque('carried-fn')] if vc.nondet(2, 'carried fns?') == 1 else []
    W.content0 = vc.bool('patch.content@pre')
    W.patch = SymPatch(W.content0, W.carried)
    W.patch0_empty = And(Not(W.content0), len(W.carried) == 0)
    W.consistency_time = vc.opt('consistency_time', vc.real)
    W.clock = clock = Clock()
    if pressure_may_be_none and vc.nondet(2, 'stream_pressure is None?') == 0:
        W.pressure = None
    else:
        W.pressure = StubEvent('stream_pressure')
    W.operator_paused, W.lifecycle, W.indexers = Opaque('operator_paused'), Opaque('lifecycle'), Opaque('indexers')
    forever_stopped = Opaque('forever_stopped')
    W.memory = Opaque('memory', daemons_memory=Opaque('daemons_memory', forever_stopped=forever_stopped))
    W.settings = Opaque('settings', persistence=Opaque('persistence', finalizer=W.finalizer))
    W.sp_delays = W.ch_delays = None
    W.applied = []                      # what an appended fn does when it is applied to a body
    W.frame_ok = True                   # arguments handed to callees are the right objects

    def chk(ok):
        W.frame_ok = W.frame_ok and bool(ok)

    def detect(**kw):
        vc.emit('detect', kw)
        chk(kw.get('body') is W.body and kw.get('patch') is W.patch and kw.get('raw_event') is W.raw_event
            and kw.get('memory') is W.memory and kw.get('registry') is W.registry and kw.get('settings') is W.settings
            and kw.get('resource') is W.resource and kw.get('indexers') is W.indexers)
        return processing._Causes(W.watching, W.spawning, W.changing)

    async def watching(**kw):
        vc.emit('watching', kw)
        chk(kw.get('cause') is W.watching and kw.get('registry') is W.registry and kw.get('settings') is W.settings)
        await suspend('process_watching_cause')
        W.patch.content = Or(W.patch.content, vc.bool('patch.content+watching'))

    async def spawning(**kw):
        vc.emit('spawning', kw)
        chk(kw.get('cause') is W.spawning and kw.get('memory') is W.memory and kw.get('registry') is W.registry
            and kw.get('settings') is W.settings and kw.get('operator_paused') is W.operator_paused)
        await suspend('process_spawning_cause')
        W.patch.content = Or(W.patch.content, vc.bool('patch.content+spawning'))
        W.sp_delays = vc.seq('spawning_delays', 'real')
        return W.sp_delays

    async def changing(**kw):
        vc.emit('changing', kw, W.clock.now, list(W.patch.fns))
        chk(kw.get('cause') is W.changing and kw.get('memory') is W.memory and kw.get('registry') is W.registry
            and kw.get('settings') is W.settings and kw.get('lifecycle') is W.lifecycle)
        await suspend('process_changing_cause')
        if vc.nondet(2, 'process_changing_cause raises?') == 1:
            raise _HandlingError('any exception out of process_changing_cause')
        W.patch.content = Or(W.patch.content, vc.bool('patch.content+changing'))
        W.ch_delays = vc.seq('changing_delays', 'real')
        return W.ch_delays
    vc.used('processing.process_changing_cause', 'H1'); vc.used('processing.process_spawning_cause', 'H7')

    changing_reg, spawning_reg = Opaque('registry._changing'), Opaque('registry._spawning')

    def prematch(cause):
        vc.emit('prematch', cause); chk(cause is W.changing); return W.prematch

    def ch_requires(cause):
        vc.emit('ch_requires_finalizer', cause); chk(cause is W.changing); return W.ch_req

    def sp_requires(cause, excluded):
        vc.emit('sp_requires_finalizer', cause); chk(cause is W.spawning and excluded is forever_stopped); return W.sp_req
    changing_reg.prematch, changing_reg.requires_finalizer, spawning_reg.requires_finalizer = prematch, ch_requires, sp_requires
    W.registry = Opaque('registry', _changing=changing_reg, _spawning=spawning_reg, _watching=Opaque('registry._watching'))

    def is_ongoing(body):
        chk(body is W.body); return W.ongoing

    def is_blocked(body, finalizer):
        chk(body is W.body and finalizer is W.finalizer); return W.blocked

    def on_suspend(site):
        if site != 'aiotime.sleep':
            clock.advance(0)
        if W.pressure is not None:
            W.pressure.havoc(only_set=True)

    ld = vc.load('kopf._core.reactor.processing', 'process_resource_causes', stubs={
        '_detect_causes': detect,
        'process_watching_cause': watching, 'process_spawning_cause': spawning, 'process_changing_cause': changing,
        'finalizers.is_deletion_ongoing': is_ongoing, 'finalizers.is_deletion_blocked': is_blocked,
        'finalizers.block_deletion': lambda body, finalizer: W.applied.append(('block', body, finalizer)),
        'finalizers.allow_deletion': lambda body, finalizer: W.applied.append(('allow', body, finalizer)),
        'asyncio.get_running_loop': lambda: StubLoop(clock),
        'aiotime.sleep': make_sleep(clock),
    })
    vc.used('aiotime.sleep', 'T1')
    W.raised, W.result = None, None
    try:
        W.result = vc.drive(ld.fn(
            lifecycle=W.lifecycle, indexers=W.indexers, registry=W.registry, settings=W.settings, resource=W.resource,
            raw_event=W.raw_event, body=W.body, patch=W.patch, memory=W.memory, local_logger=NullLogger(),
            event_logger=NullLogger(), stream_pressure=W.pressure, operator_paused=W.operator_paused,
            consistency_time=W.consistency_time), on_suspend=on_suspend)
    except _HandlingError as e:
        W.raised = e

    # ---- observations, all in terms of parameters, results and the ghost trace
    tr = W.trace = list(vc.trace)
    W.names = [ev[0] for ev in tr]
    W.pos = lambda name: [i for i, n in enumerate(W.names) if n == name]
    W.sleeps = [ev for ev in tr if ev[0] == 'sleep']
    W.changing_called = 'changing' in W.names
    # what was appended to patch.fns, classified by what each appended fn does to a body
    W.fns_prefix_kept = W.patch.fns[:len(W.carried)] == W.carried and all(a is b for a, b in zip(W.patch.fns, W.carried))
    W.appended = []
    probe = Opaque('probe-body')
    for fn in W.patch.fns[len(W.carried):]:
        del W.applied[:]
        fn(probe)
        kinds = [k for k, b, f in W.applied if b is probe and f is W.finalizer]
        W.appended.append(kinds[0] if len(kinds) == 1 and len(W.applied) == 1 else 'other')
    W.n_allow = W.appended.count('allow')
    W.n_block = W.appended.count('block')
    W.n_other = W.appended.count('other')
    # the statement's notions
    W.matched_changing = And(W.has_changing, W.prematch)             # a changing cause survives the filters
    W.must_block = Or(And(W.has_spawning, W.sp_req), And(W.matched_changing, W.ch_req))
    W.slept_in_full = any(ev[3] is None for ev in W.sleeps)          # a sleep returned None ("timed out", not "woken")
    W.consistent = And(W.patch0_empty, Or(W.consistency_time is None, W.slept_in_full))
    no_sp = True if W.sp_delays is None else (vc_len(W.sp_delays) == 0)
    no_ch = True if W.ch_delays is None else (vc_len(W.ch_delays) == 0)
    W.no_delays = And(no_sp, no_ch)
    return W


class _HandlingError(Exception):
    """an arbitrary exception escaping process_changing_cause"""


def _summary(W):
    return ('raise' if W.raised is not None else 'return', W.names.count('watching'), W.names.count('spawning'),
            W.names.count('changing'), len(W.sleeps), W.n_allow, W.n_block,
            None if W.result is None else W.result[1])


# ----------------------------------------------------------------------------------------------- H2
@harness('H2', targets='kopf._core.reactor.processing.process_resource_causes', props=['C06'],
         clauses=['removal_only_if', 'addition_iff', 'dedicated_cycles_skip_handlers', 'eventual_release_step',
                  'own_finalizer_only'],
         canaries=['canary.never_releases', 'canary.never_adds'],
         trusted=['process_watching_cause: returns None, may add to the patch content',
                  'patches.Patch.__bool__ == content non-empty or fns non-empty (SymPatch)'])
def H2(vc):
    """
    process_resource_causes, over havocked callee results.  With
      must_block := (spawning cause and spawning.requires_finalizer) or (changing cause prematched and changing.requires_finalizer)
      consistent := patch empty on entry and (consistency_time is None or the sleep until it returned None):
    (never early) the finalizer-removal transformation is appended to patch.fns ONLY IF
      (not must_block and blocked)  or  (type != DELETED and ongoing and blocked and no delays at all and
      (no prematched changing cause or consistent));
    (added when needed) the finalizer-adding transformation is appended IFF must_block and not blocked and not ongoing, once;
    in both dedicated cycles process_changing_cause is not called;
    (one-step release) type != DELETED and ongoing and blocked and no delays and (no changing cause or consistent) and
      normal return  =>  the removal is appended;  nothing but these two kinds of fns is appended, each bound to
      settings.persistence.finalizer.
    """
    W = causes_world(vc)
    live = Not(W.deleted_event)
    stale = And(Not(W.must_block), W.blocked)                       # nothing requires the finalizer any more
    adding = And(W.must_block, Not(W.blocked), Not(W.ongoing))
    release = And(live, W.ongoing, W.blocked, W.no_delays, Or(Not(W.matched_changing), W.consistent))
    vc.ensure('removal_only_if', Implies(W.n_allow > 0, Or(stale, release)))
    vc.ensure('addition_iff', Iff(W.n_block > 0, adding))
    vc.ensure('addition_iff', W.n_block <= 1)
    vc.ensure('dedicated_cycles_skip_handlers', Implies(Or(adding, stale), not W.changing_called))
    if W.raised is None:
        vc.ensure('eventual_release_step', Implies(release, W.n_allow > 0))
        vc.ensure('eventual_release_step', Implies(stale, W.n_allow > 0))
    vc.ensure('own_finalizer_only', W.n_other == 0 and W.fns_prefix_kept and W.frame_ok)
    vc.canary('canary.never_releases', W.n_allow == 0)
    vc.canary('canary.never_adds', W.n_block == 0)
    return _summary(W)


# ----------------------------------------------------------------------------------------------- H3
@harness('H3', targets='kopf._core.reactor.processing.process_resource_causes', props=['C07'],
         clauses=['changing_precondition', 'low_level_first', 'passes_through'],
         canaries=['canary.never_waits', 'canary.handlers_only_without_expectation'],
         trusted=['process_watching_cause: returns None, may add to the patch content',
                  'patches.Patch.__bool__ == content non-empty or fns non-empty (SymPatch)'])
def H3(vc):
    """
    The consistency barrier in process_resource_causes (call-site precondition of process_changing_cause):
    process_changing_cause is called at most once, and only if cause.reason is GONE or (the patch was
    empty on entry and (consistency_time is None or (a sleep returned None, i.e. ran its full time,
    and the loop clock at the call is >= consistency_time))).  process_watching_cause and
    process_spawning_cause are called exactly when their causes exist -- also when the cycle ends at the
    barrier -- and precede every aiotime.sleep on the trace (raw handlers/daemons are not delayed).
    stream_pressure may be None or an event that other tasks may set at any suspension point.
    """
    W = causes_world(vc, pressure_may_be_none=True)
    ct = W.consistency_time
    calls = W.pos('changing')
    vc.ensure('changing_precondition', len(calls) <= 1)
    for i in calls:
        _, kw, clock_at_call, _fns = W.trace[i]
        slept_before = any(ev[0] == 'sleep' and ev[3] is None for ev in W.trace[:i])
        elapsed = True if ct is None else And(slept_before, clock_at_call >= ct)
        vc.ensure('changing_precondition', Or(Eq(W.reason, R.GONE), And(W.patch0_empty, elapsed)))
        vc.ensure('passes_through', kw.get('cause') is W.changing and W.matched_changing)
        vc.canary('canary.handlers_only_without_expectation', ct is None)
    lows = W.pos('watching') + W.pos('spawning')
    vc.ensure('low_level_first', len(W.pos('watching')) == (1 if W.has_watching else 0)
              and len(W.pos('spawning')) == (1 if W.has_spawning else 0))
    vc.ensure('low_level_first', all(i < s for i in lows for s in W.pos('sleep')))
    vc.ensure('passes_through', W.frame_ok)
    for ev in W.sleeps:
        vc.ensure('passes_through', ev[2] is W.pressure)        # the wait is interruptible by the object's own stream
    vc.canary('canary.never_waits', len(W.sleeps) == 0)
    return _summary(W)


# ----------------------------------------------------------------------------------------------- H4
@harness('H4', targets='kopf._core.reactor.processing.process_resource_causes', props=['C15', 'C03'],
         clauses=['unmatched_dropped_before_persistence', 'nothing_matched_untouched', 'quiescent_fixpoint'],
         canaries=['canary.always_matched', 'canary.never_touches'],
         trusted=['process_watching_cause: returns None, may add to the patch content',
                  'patches.Patch.__bool__ == content non-empty or fns non-empty (SymPatch)'])
def H4(vc):
    """
    Stealth for unmatched objects: if the changing cause does not prematch, it is dropped before any
    persistence decision -- prematch is consulted before requires_finalizer, the barrier and
    process_changing_cause, and on a mismatch none of them happens and the cycle reports "not matched".
    With no matching handler of any kind (no watching cause, no spawning cause, no prematched changing
    cause): no handler routine runs, nothing waits, the returned delays are empty, the only thing ever
    appended is the removal of the framework's own (stale) finalizer, and without that finalizer the patch
    is untouched (content and fns).  Quiescence is a fixpoint (C03): whenever finalizer presence equals
    must_block, nothing is delayed and no handler wrote, patch.fns is untouched and no delays are returned.
    """
    W = causes_world(vc)
    first_pre = min(W.pos('prematch'), default=None)
    later = W.pos('ch_requires_finalizer') + W.pos('changing') + W.pos('sleep')
    if W.has_changing:
        vc.ensure('unmatched_dropped_before_persistence', first_pre is not None and all(first_pre < j for j in later))
        vc.ensure('unmatched_dropped_before_persistence', Implies(Not(W.prematch), len(later) == 0))
        if W.result is not None:
            vc.ensure('unmatched_dropped_before_persistence', Implies(Not(W.prematch), W.result[1] is False))
    nothing = And(not W.has_watching, not W.has_spawning, Not(W.matched_changing))
    quiet = len(W.pos('watching') + W.pos('spawning') + W.pos('changing') + W.pos('sleep')) == 0
    vc.ensure('nothing_matched_untouched', Implies(nothing, quiet and W.raised is None))
    if W.result is not None:
        vc.ensure('nothing_matched_untouched', Implies(nothing, And(vc_len(W.result[0]) == 0, W.result[1] is False)))
    vc.ensure('nothing_matched_untouched', Implies(nothing, W.n_block == 0 and W.n_other == 0 and W.fns_prefix_kept))
    vc.ensure('nothing_matched_untouched', Implies(And(nothing, Not(W.blocked)),
                                                   And(len(W.appended) == 0, Iff(W.patch.content, W.content0))))
    if W.result is not None:
        settled = And(Iff(W.blocked, W.must_block), W.no_delays, Not(And(W.ongoing, W.blocked)))
        vc.ensure('quiescent_fixpoint', Implies(settled, And(len(W.appended) == 0, vc_len(W.result[0]) == 0)))
        vc.canary('canary.always_matched', W.result[1] is True)
    vc.canary('canary.never_touches', len(W.appended) == 0)
    return _summary(W)


# ----------------------------------------------------------------------------------------------- H5
@harness('H5', targets='kopf._core.reactor.processing._detect_causes', props=['C03', 'C04', 'C10', 'C14'],
         clauses=['old_is_cleared_stored', 'new_is_cleared_built', 'one_diff', 'initial_formula', 'reset_is_essential_change',
                  'detectors_gated', 'passes_through'],
         canaries=['canary.always_initial', 'canary.always_all_causes'],
         trusted=['diffbase_storage.fetch/build, progress_storage.clear (E1) and diffs.diff (E3) by contract: pure functions of their arguments',
                  'causes.detect_watching_cause/detect_spawning_cause: plain constructors of the cause records'])
def H5(vc):
    """
    _detect_causes: `old` is the *stored* essence (diffbase fetch of this body) passed through
    progress_storage.clear (None stays None), `new` is the essence *built from this body* -- with the
    extra fields of all three registries -- passed through clear; exactly one diffs.diff(old, new) is
    computed and that one result goes to the changing detector, its truth value as `reset` to the spawning
    detector; initial == memory.noticed_by_listing and not memory.fully_handled_once; each detector is
    called (once) iff its registry has handlers for the resource, else its cause is None; event, body,
    patch, memo, resource, indices and settings.persistence.finalizer are handed through unchanged.
    """
    body, patch, resource, memo, indices = Opaque('body'), Opaque('patch'), Opaque('resource'), Opaque('memo'), Opaque('indices')
    raw_event = {'type': vc.fin('event.type', ETYPES), 'object': {}}
    nbl, fho = vc.bool('memory.noticed_by_listing'), vc.bool('memory.fully_handled_once')
    memory = Opaque('memory', memo=memo, noticed_by_listing=nbl, fully_handled_once=fho)
    indexers = Opaque('indexers', indices=indices)
    has = {k: vc.bool(f'{k}.has_handlers') for k in ('watching', 'spawning', 'changing')}
    extra = {'watching': {('status', 'w')}, 'spawning': {('status', 's')}, 'changing': {('status', 'c'), ('spec', 'x')}}
    regs = {}
    for k in has:
        r = Opaque(f'registry._{k}')
        r.has_handlers = (lambda k: lambda resource: (vc.emit('has_handlers', k, resource), has[k])[1])(k)
        r.get_extra_fields = (lambda k: lambda resource: (vc.emit('get_extra_fields', k, resource), frozenset(extra[k]))[1])(k)
        regs[k] = r
    registry = Opaque('registry', _watching=regs['watching'], _spawning=regs['spawning'], _changing=regs['changing'])
    stored = vc.fin('stored essence', [None, {'spec': {'x': 1}}])
    stored = resolve(stored)
    built = {'spec': {'x': 2}}
    cleared = {}                        # id(input essence) -> the cleared essence returned for it

    def fetch(body):
        vc.emit('fetch', body); return stored

    def build(body, extra_fields=None):
        vc.emit('build', body, extra_fields); return built

    def clear(essence):
        vc.emit('clear', essence)                 # a pure function of the essence: same argument, same result
        if id(essence) not in cleared:
            cleared[id(essence)] = {'cleared': essence}
        return cleared[id(essence)]
    diff_nonempty = vc.bool('diff non-empty')
    diff_obj = Opaque('diff', truth=diff_nonempty)

    def diff(a, b):
        vc.emit('diff', a, b); return diff_obj
    settings = Opaque('settings', persistence=Opaque(
        'persistence', finalizer='fin.example.com/kopf',
        diffbase_storage=Opaque('diffbase_storage', fetch=fetch, build=build),
        progress_storage=Opaque('progress_storage', clear=clear)))
    made = {k: Opaque(f'{k}_cause') for k in has}

    def detector(k):
        def detect(**kw):
            vc.emit('detect', k, kw); return made[k]
        return detect
    vc.used('causes.detect_changing_cause', 'K1'); vc.used('diffs.diff', 'E3'); vc.used('diffbase/progress storages', 'E1')
    ld = vc.load('kopf._core.reactor.processing', '_detect_causes', stubs={
        'diffs.diff': diff,
        'causes.detect_watching_cause': detector('watching'),
        'causes.detect_spawning_cause': detector('spawning'),
        'causes.detect_changing_cause': detector('changing'),
    })
    local_logger, event_logger = NullLogger(), NullLogger()
    res = ld.fn(indexers=indexers, registry=registry, settings=settings, resource=resource, raw_event=raw_event,
                body=body, patch=patch, memory=memory, local_logger=local_logger, event_logger=event_logger)
    tr = vc.trace
    calls = {k: [ev[2] for ev in tr if ev[0] == 'detect' and ev[1] == k] for k in has}
    for n, k in enumerate(('watching', 'spawning', 'changing')):
        vc.ensure('detectors_gated', Iff(len(calls[k]) == 1, has[k]) and len(calls[k]) <= 1)
        vc.ensure('detectors_gated', res[n] is (made[k] if calls[k] else None))
    vc.ensure('detectors_gated', len(res) == 3)
    diffs_ = [ev for ev in tr if ev[0] == 'diff']
    fetches = [ev for ev in tr if ev[0] == 'fetch']
    builds = [ev for ev in tr if ev[0] == 'build']
    want_old = None if stored is None else cleared.get(id(stored))
    want_new = cleared.get(id(built))
    vc.ensure('old_is_cleared_stored', all(ev[1] is body for ev in fetches) and len(fetches) >= 1
              and (stored is None or want_old is not None))
    vc.ensure('new_is_cleared_built', all(ev[1] is body for ev in builds) and len(builds) >= 1 and want_new is not None
              and all(ev[2] == extra['watching'] | extra['spawning'] | extra['changing'] for ev in builds))
    vc.ensure('one_diff', len(diffs_) == 1 and diffs_[0][1] is want_old and diffs_[0][2] is want_new)
    for kw in calls['changing']:
        vc.ensure('old_is_cleared_stored', kw['old'] is want_old)
        vc.ensure('new_is_cleared_built', kw['new'] is want_new)
        vc.ensure('one_diff', kw['diff'] is diff_obj)
        vc.ensure('initial_formula', Iff(kw['initial'], And(nbl, Not(fho))))
        vc.canary('canary.always_initial', kw['initial'])
        vc.ensure('passes_through', kw['finalizer'] is settings.persistence.finalizer and kw['memo'] is memo)
    for kw in calls['spawning']:
        vc.ensure('reset_is_essential_change', Iff(kw['reset'], diff_nonempty))
    for k in has:
        for kw in calls[k]:
            vc.ensure('passes_through', kw['body'] is body and kw['patch'] is patch and kw['resource'] is resource
                      and kw['indices'] is indices and kw['memo'] is memo
                      and (k == 'spawning' or kw['raw_event'] is raw_event))
    vc.ensure('passes_through', all(ev[2] is resource for ev in tr if ev[0] in ('has_handlers', 'get_extra_fields')))
    vc.canary('canary.always_all_causes', all(r is not None for r in res))
    return ('return', [r is not None for r in res], stored is None)
