"""Contracts for the per-cycle orchestration in kopf._core.reactor.processing (H2-H6) and the finalizer
list edits of kopf._cogs.structs.finalizers (K3, K3b)."""
import types

from pyvc import *
from pyvc.stubs import Opaque, NullLogger, Clock, StubLoop, StubEvent, make_sleep
from kopf._core.intents import causes

R = causes.Reason
ETYPES = [None, 'ADDED', 'MODIFIED', 'DELETED']


class SymPatch:
    """
    patches.Patch as the orchestration sees it (contract of Patch.__bool__/fns): `bool(patch)` is
    "the merge-patch content is non-empty or there are transformation fns"; `fns` is a real list.
    The content's non-emptiness is one (symbolic) boolean that callee stubs havoc.
    """
    def __init__(self, content, fns=()):
        self.content = content
        self.fns = list(fns)

    def __bool__(self):
        if self.fns:
            return True
        return bool(self.content)

    def vc_len(self):
        # Patch is a dict: len() counts the merge-patch keys only -- NOT the transformation fns
        return If(self.content, 1, 0) if isinstance(self.content, SV) else (1 if self.content else 0)

    def __len__(self):
        return 1 if self.content else 0


# =================================================================== process_resource_causes world
def causes_world(vc, *, pressure_may_be_none=False, changing_may_raise=False):
    """
    Runs the real `process_resource_causes` once over havocked callee results and returns everything
    observed.  Callee contracts used (each callee is a stub, never the body):
      _detect_causes (H5)            -> any combination of present/absent causes; with K1 composed in:
                                        changing_cause.reason is GONE  <=>  event type == 'DELETED';
      process_watching_cause         -> returns None; may add to the patch content (trusted: delivers results);
      process_spawning_cause (H7)    -> returns an arbitrary list of reals; may add to the patch content;
      process_changing_cause (H1)    -> returns an arbitrary list of reals or (`changing_may_raise`; nothing happens after
                                        it in the caller, so only H2 looks at that case) raises; may add to the patch content;
      registry._changing.prematch / *.requires_finalizer (R2) -> arbitrary booleans (pure);
      finalizers.is_deletion_ongoing / is_deletion_blocked (K2) -> arbitrary booleans, functions of (body[, finalizer]);
      aiotime.sleep (T1) via pyvc.stubs.make_sleep on a ghost clock; loop.time() == the ghost clock.
    Every awaited callee is a suspension point at which the clock advances and the stream-pressure event may get set.
    """
    from kopf._core.reactor import processing
    W = types.SimpleNamespace()
    W.etype = vc.fin('event.type', ETYPES)
    W.deleted_event = Eq(W.etype, 'DELETED')
    W.raw_event = {'type': W.etype, 'object': {}}
    W.body, W.resource = Opaque('body'), Opaque('resource')
    W.finalizer = 'fin.example.com/kopf'
    W.has_watching = vc.nondet(2, 'watching cause?') == 1
    W.has_spawning = vc.nondet(2, 'spawning cause?') == 1
    W.has_changing = vc.nondet(2, 'changing cause?') == 1
    W.watching = Opaque('watching_cause') if W.has_watching else None
    W.spawning = Opaque('spawning_cause') if W.has_spawning else None
    W.reason = vc.fin('cause.reason', list(R))
    W.changing = Opaque('changing_cause', reason=W.reason) if W.has_changing else None
    if W.has_changing:
        vc.assume(Iff(Eq(W.reason, R.GONE), W.deleted_event), 'K1 via H5: reason is GONE iff the event type is DELETED')
    vc.used('processing._detect_causes', 'H5'); vc.used('causes.detect_changing_cause', 'K1')
    W.prematch, W.sp_req, W.ch_req = vc.bool('prematch'), vc.bool('spawning.requires_finalizer'), vc.bool('changing.requires_finalizer')
    W.ongoing, W.blocked = vc.bool('deletion_ongoing'), vc.bool('deletion_blocked')
    vc.used('finalizers.is_deletion_ongoing', 'K2'); vc.used('finalizers.is_deletion_blocked', 'K2')
    vc.used('registries.*.requires_finalizer/prematch', 'R2')
    W.carried = [Opaque('carried-fn')] if vc.nondet(2, 'carried fns?') == 1 else []
    W.content0 = vc.bool('patch.content@pre')
    W.patch = SymPatch(W.content0, W.carried)
    W.patch0_empty = And(Not(W.content0), len(W.carried) == 0)
    W.consistency_time = vc.opt('consistency_time', vc.real)
    W.clock = clock = Clock()
    if pressure_may_be_none and vc.nondet(2, 'stream_pressure is None?') == 0:
        W.pressure = None
    else:
        W.pressure = StubEvent('stream_pressure')
    W.operator_paused, W.lifecycle, W.indexers = Opaque('operator_paused'), Opaque('lifecycle'), Opaque('indexers')
    forever_stopped = Opaque('forever_stopped')
    W.memory = Opaque('memory', daemons_memory=Opaque('daemons_memory', forever_stopped=forever_stopped))
    W.settings = Opaque('settings', persistence=Opaque('persistence', finalizer=W.finalizer))
    W.sp_delays = W.ch_delays = None
    W.applied = []                      # what an appended fn does when it is applied to a body
    W.frame_ok = True                   # arguments handed to callees are the right objects

    def chk(ok):
        W.frame_ok = W.frame_ok and bool(ok)

    def detect(**kw):
        vc.emit('detect', kw)
        chk(kw.get('body') is W.body and kw.get('patch') is W.patch and kw.get('raw_event') is W.raw_event
            and kw.get('memory') is W.memory and kw.get('registry') is W.registry and kw.get('settings') is W.settings
            and kw.get('resource') is W.resource and kw.get('indexers') is W.indexers)
        return processing._Causes(W.watching, W.spawning, W.changing)

    async def watching(**kw):
        vc.emit('watching', kw)
        chk(kw.get('cause') is W.watching and kw.get('registry') is W.registry and kw.get('settings') is W.settings)
        await suspend('process_watching_cause')
        W.patch.content = Or(W.patch.content, vc.bool('patch.content+watching'))

    async def spawning(**kw):
        vc.emit('spawning', kw)
        chk(kw.get('cause') is W.spawning and kw.get('memory') is W.memory and kw.get('registry') is W.registry
            and kw.get('settings') is W.settings and kw.get('operator_paused') is W.operator_paused)
        await suspend('process_spawning_cause')
        W.patch.content = Or(W.patch.content, vc.bool('patch.content+spawning'))
        W.sp_delays = vc.seq('spawning_delays', 'real')
        return W.sp_delays

    async def changing(**kw):
        vc.emit('changing', kw, W.clock.now, list(W.patch.fns))
        chk(kw.get('cause') is W.changing and kw.get('memory') is W.memory and kw.get('registry') is W.registry
            and kw.get('settings') is W.settings and kw.get('lifecycle') is W.lifecycle)
        await suspend('process_changing_cause')
        if changing_may_raise and vc.nondet(2, 'process_changing_cause raises?') == 1:
            raise _HandlingError('any exception out of process_changing_cause')
        W.patch.content = Or(W.patch.content, vc.bool('patch.content+changing'))
        W.ch_delays = vc.seq('changing_delays', 'real')
        return W.ch_delays
    vc.used('processing.process_changing_cause', 'H1'); vc.used('processing.process_spawning_cause', 'H7')

    changing_reg, spawning_reg = Opaque('registry._changing'), Opaque('registry._spawning')

    def prematch(cause):
        vc.emit('prematch', cause); chk(cause is W.changing); return W.prematch

    def ch_requires(cause):
        vc.emit('ch_requires_finalizer', cause); chk(cause is W.changing); return W.ch_req

    def sp_requires(cause, excluded):
        vc.emit('sp_requires_finalizer', cause); chk(cause is W.spawning and excluded is forever_stopped); return W.sp_req
    changing_reg.prematch, changing_reg.requires_finalizer, spawning_reg.requires_finalizer = prematch, ch_requires, sp_requires
    W.registry = Opaque('registry', _changing=changing_reg, _spawning=spawning_reg, _watching=Opaque('registry._watching'))

    def is_ongoing(body):
        chk(body is W.body); return W.ongoing

    def is_blocked(body, finalizer):
        chk(body is W.body and finalizer is W.finalizer); return W.blocked

    def on_suspend(site):
        if site != 'aiotime.sleep':
            clock.advance(0)
        if W.pressure is not None:
            W.pressure.havoc(only_set=True)

    ld = vc.load('kopf._core.reactor.processing', 'process_resource_causes', stubs={
        '_detect_causes': detect,
        'process_watching_cause': watching, 'process_spawning_cause': spawning, 'process_changing_cause': changing,
        'finalizers.is_deletion_ongoing': is_ongoing, 'finalizers.is_deletion_blocked': is_blocked,
        'finalizers.block_deletion': lambda body, finalizer: W.applied.append(('block', body, finalizer)),
        'finalizers.allow_deletion': lambda body, finalizer: W.applied.append(('allow', body, finalizer)),
        'asyncio.get_running_loop': lambda: StubLoop(clock),
        'aiotime.sleep': make_sleep(clock),
    })
    vc.used('aiotime.sleep', 'T1')
    W.raised, W.result = None, None
    try:
        W.result = vc.drive(ld.fn(
            lifecycle=W.lifecycle, indexers=W.indexers, registry=W.registry, settings=W.settings, resource=W.resource,
            raw_event=W.raw_event, body=W.body, patch=W.patch, memory=W.memory, local_logger=NullLogger(),
            event_logger=NullLogger(), stream_pressure=W.pressure, operator_paused=W.operator_paused,
            consistency_time=W.consistency_time), on_suspend=on_suspend)
    except _HandlingError as e:
        W.raised = e

    # ---- observations, all in terms of parameters, results and the ghost trace
    tr = W.trace = list(vc.trace)
    W.names = [ev[0] for ev in tr]
    W.pos = lambda name: [i for i, n in enumerate(W.names) if n == name]
    W.sleeps = [ev for ev in tr if ev[0] == 'sleep']
    W.changing_called = 'changing' in W.names
    # what was appended to patch.fns, classified by what each appended fn does to a body
    W.fns_prefix_kept = W.patch.fns[:len(W.carried)] == W.carried and all(a is b for a, b in zip(W.patch.fns, W.carried))
    W.appended = []
    probe = Opaque('probe-body')
    for fn in W.patch.fns[len(W.carried):]:
        del W.applied[:]
        fn(probe)
        kinds = [k for k, b, f in W.applied if b is probe and f is W.finalizer]
        W.appended.append(kinds[0] if len(kinds) == 1 and len(W.applied) == 1 else 'other')
    W.n_allow = W.appended.count('allow')
    W.n_block = W.appended.count('block')
    W.n_other = W.appended.count('other')
    # the statement's notions
    W.matched_changing = And(W.has_changing, W.prematch)             # a changing cause survives the filters
    W.must_block = Or(And(W.has_spawning, W.sp_req), And(W.matched_changing, W.ch_req))
    W.slept_in_full = any(ev[3] is None for ev in W.sleeps)          # a sleep returned None ("timed out", not "woken")
    W.consistent = And(W.patch0_empty, Or(W.consistency_time is None, W.slept_in_full))
    no_sp = True if W.sp_delays is None else (vc_len(W.sp_delays) == 0)
    no_ch = True if W.ch_delays is None else (vc_len(W.ch_delays) == 0)
    W.no_delays = And(no_sp, no_ch)
    return W


class _HandlingError(Exception):
    """an arbitrary exception escaping process_changing_cause"""


def _summary(W):
    return ('raise' if W.raised is not None else 'return', W.names.count('watching'), W.names.count('spawning'),
            W.names.count('changing'), len(W.sleeps), W.n_allow, W.n_block,
            None if W.result is None else W.result[1])


# ----------------------------------------------------------------------------------------------- H2
@harness('H2', targets='kopf._core.reactor.processing.process_resource_causes', props=['C06', 'C09', 'C11', 'C15', 'C03'],
         prop_clauses={'C09': ['removal_only_if', 'addition_iff'], 'C11': ['removal_only_if'], 'C15': ['addition_iff', 'eventual_release_step'], 'C03': ['removal_only_if', 'addition_iff', 'eventual_release_step']},
         clauses=['removal_only_if', 'addition_iff', 'dedicated_cycles_skip_handlers', 'eventual_release_step',
                  'own_finalizer_only'],
         canaries=['canary.never_releases', 'canary.never_adds'],
         trusted=['process_watching_cause: returns None, may add to the patch content',
                  'patches.Patch.__bool__ == content non-empty or fns non-empty (SymPatch)'])
def H2(vc):
    """
    process_resource_causes, over havocked callee results.  With
      must_block := (spawning cause and spawning.requires_finalizer) or (changing cause prematched and changing.requires_finalizer)
      consistent := patch empty on entry and (consistency_time is None or the sleep until it returned None):
    (never early) the finalizer-removal transformation is appended to patch.fns ONLY IF
      (not must_block and blocked)  or  (type != DELETED and ongoing and blocked and no delays at all and
      (no prematched changing cause or consistent));
    (added when needed) the finalizer-adding transformation is appended IFF must_block and not blocked and not ongoing, once;
    in both dedicated cycles process_changing_cause is not called;
    (one-step release) type != DELETED and ongoing and blocked and no delays and (no changing cause or consistent) and
      normal return  =>  the removal is appended;  nothing but these two kinds of fns is appended, each bound to
      settings.persistence.finalizer.
    """
    W = causes_world(vc, changing_may_raise=True)
    live = Not(W.deleted_event)
    stale = And(Not(W.must_block), W.blocked)                       # nothing requires the finalizer any more
    adding = And(W.must_block, Not(W.blocked), Not(W.ongoing))
    release = And(live, W.ongoing, W.blocked, W.no_delays, Or(Not(W.matched_changing), W.consistent))
    vc.ensure('removal_only_if', Implies(W.n_allow > 0, Or(stale, release)))
    vc.ensure('addition_iff', Iff(W.n_block > 0, adding))
    vc.ensure('addition_iff', W.n_block <= 1)
    vc.ensure('dedicated_cycles_skip_handlers', Implies(Or(adding, stale), not W.changing_called))
    if W.raised is None:
        vc.ensure('eventual_release_step', Implies(release, W.n_allow > 0))
        vc.ensure('eventual_release_step', Implies(stale, W.n_allow > 0))
    vc.ensure('own_finalizer_only', W.n_other == 0 and W.fns_prefix_kept and W.frame_ok)
    vc.canary('canary.never_releases', W.n_allow == 0)
    vc.canary('canary.never_adds', W.n_block == 0)
    return _summary(W)


# ----------------------------------------------------------------------------------------------- H3
@harness('H3', targets='kopf._core.reactor.processing.process_resource_causes', props=['C07', 'C08', 'C02', 'C14', 'C05', 'C06', 'C09', 'C10', 'C11', 'C15'],
         prop_clauses={'C05': ['changing_precondition'], 'C06': ['low_level_first'], 'C09': ['low_level_first', 'passes_through'], 'C10': ['low_level_first', 'passes_through'], 'C11': ['changing_precondition'], 'C15': ['passes_through', 'low_level_first']},
         clauses=['changing_precondition', 'low_level_first', 'passes_through'],
         canaries=['canary.never_waits', 'canary.handlers_only_without_expectation'],
         trusted=['process_watching_cause: returns None, may add to the patch content',
                  'patches.Patch.__bool__ == content non-empty or fns non-empty (SymPatch)'])
def H3(vc):
    """
    The consistency barrier in process_resource_causes (call-site precondition of process_changing_cause):
    process_changing_cause is called at most once, and only if cause.reason is GONE or (the patch was
    empty on entry and (consistency_time is None or (a sleep returned None, i.e. ran its full time,
    and the loop clock at the call is >= consistency_time))).  process_watching_cause and
    process_spawning_cause are called exactly when their causes exist -- also when the cycle ends at the
    barrier -- and precede every aiotime.sleep on the trace (raw handlers/daemons are not delayed).
    stream_pressure may be None or an event that other tasks may set at any suspension point.
    """
    W = causes_world(vc, pressure_may_be_none=True)
    ct = W.consistency_time
    calls = W.pos('changing')
    vc.ensure('changing_precondition', len(calls) <= 1)
    for i in calls:
        _, kw, clock_at_call, _fns = W.trace[i]
        slept_before = any(ev[0] == 'sleep' and ev[3] is None for ev in W.trace[:i])
        elapsed = True if ct is None else And(slept_before, clock_at_call >= ct)
        vc.ensure('changing_precondition', Or(Eq(W.reason, R.GONE), And(W.patch0_empty, elapsed)))
        vc.ensure('passes_through', kw.get('cause') is W.changing and W.matched_changing)
        vc.canary('canary.handlers_only_without_expectation', ct is None)
    lows = W.pos('watching') + W.pos('spawning')
    vc.ensure('low_level_first', len(W.pos('watching')) == (1 if W.has_watching else 0)
              and len(W.pos('spawning')) == (1 if W.has_spawning else 0))
    vc.ensure('low_level_first', all(i < s for i in lows for s in W.pos('sleep')))
    vc.ensure('passes_through', W.frame_ok)
    for ev in W.sleeps:
        vc.ensure('passes_through', ev[2] is W.pressure)        # the wait is interruptible by the object's own stream
    vc.canary('canary.never_waits', len(W.sleeps) == 0)
    return _summary(W)


# ----------------------------------------------------------------------------------------------- H4
@harness('H4', targets='kopf._core.reactor.processing.process_resource_causes', props=['C15', 'C03'],
         clauses=['unmatched_dropped_before_persistence', 'nothing_matched_untouched', 'quiescent_fixpoint'],
         canaries=['canary.always_matched', 'canary.never_touches'],
         trusted=['process_watching_cause: returns None, may add to the patch content',
                  'patches.Patch.__bool__ == content non-empty or fns non-empty (SymPatch)'])
def H4(vc):
    """
    Stealth for unmatched objects: if the changing cause does not prematch, it is dropped before any
    persistence decision -- prematch is consulted before requires_finalizer, the barrier and
    process_changing_cause, and on a mismatch none of them happens and the cycle reports "not matched".
    With no matching handler of any kind (no watching cause, no spawning cause, no prematched changing
    cause): no handler routine runs, nothing waits, the returned delays are empty, the only thing ever
    appended is the removal of the framework's own (stale) finalizer, and without that finalizer the patch
    is untouched (content and fns).  Quiescence is a fixpoint (C03): whenever finalizer presence equals
    must_block, nothing is delayed and no handler wrote, patch.fns is untouched and no delays are returned.
    """
    W = causes_world(vc)
    first_pre = min(W.pos('prematch'), default=None)
    later = W.pos('ch_requires_finalizer') + W.pos('changing') + W.pos('sleep')
    if W.has_changing:
        vc.ensure('unmatched_dropped_before_persistence', first_pre is not None and all(first_pre < j for j in later))
        vc.ensure('unmatched_dropped_before_persistence', Implies(Not(W.prematch), len(later) == 0))
        if W.result is not None:
            vc.ensure('unmatched_dropped_before_persistence', Implies(Not(W.prematch), W.result[1] is False))
    nothing = And(not W.has_watching, not W.has_spawning, Not(W.matched_changing))
    quiet = len(W.pos('watching') + W.pos('spawning') + W.pos('changing') + W.pos('sleep')) == 0
    vc.ensure('nothing_matched_untouched', Implies(nothing, quiet and W.raised is None))
    if W.result is not None:
        vc.ensure('nothing_matched_untouched', Implies(nothing, And(vc_len(W.result[0]) == 0, W.result[1] is False)))
    vc.ensure('nothing_matched_untouched', Implies(nothing, W.n_block == 0 and W.n_other == 0 and W.fns_prefix_kept))
    vc.ensure('nothing_matched_untouched', Implies(And(nothing, Not(W.blocked)),
                                                   And(len(W.appended) == 0, Iff(W.patch.content, W.content0))))
    if W.result is not None:
        settled = And(Iff(W.blocked, W.must_block), W.no_delays, Not(And(W.ongoing, W.blocked)))
        vc.ensure('quiescent_fixpoint', Implies(settled, And(len(W.appended) == 0, vc_len(W.result[0]) == 0)))
        vc.canary('canary.always_matched', W.result[1] is True)
    vc.canary('canary.never_touches', len(W.appended) == 0)
    return _summary(W)


# ----------------------------------------------------------------------------------------------- H5
@harness('H5', targets='kopf._core.reactor.processing._detect_causes', props=['C03', 'C04', 'C05', 'C10', 'C14', 'C15', 'C06', 'C09', 'C11', 'C13', 'C02'],
         prop_clauses={'C06': ['detectors_gated', 'passes_through'], 'C09': ['detectors_gated', 'passes_through'], 'C11': ['old_is_cleared_stored', 'new_is_cleared_built', 'one_diff', 'initial_formula'], 'C13': ['initial_formula'], 'C02': ['passes_through']},
         clauses=['old_is_cleared_stored', 'new_is_cleared_built', 'one_diff', 'initial_formula', 'reset_is_essential_change',
                  'detectors_gated', 'passes_through'],
         canaries=['canary.always_initial', 'canary.always_all_causes'],
         trusted=['diffbase_storage.fetch/build, progress_storage.clear (E1) and diffs.diff (E3) by contract: pure functions of their arguments',
                  'causes.detect_watching_cause/detect_spawning_cause: plain constructors of the cause records'])
def H5(vc):
    """
    _detect_causes: `old` is the *stored* essence (diffbase fetch of this body) passed through
    progress_storage.clear (None stays None), `new` is the essence *built from this body* -- with the
    extra fields of all three registries -- passed through clear; exactly one diffs.diff(old, new) is
    computed and that one result goes to the changing detector, its truth value as `reset` to the spawning
    detector; initial == memory.noticed_by_listing and not memory.fully_handled_once; each detector is
    called (once) iff its registry has handlers for the resource, else its cause is None; event, body,
    patch, memo, resource, indices and settings.persistence.finalizer are handed through unchanged.
    """
    body, patch, resource, memo, indices = Opaque('body'), Opaque('patch'), Opaque('resource'), Opaque('memo'), Opaque('indices')
    raw_event = {'type': vc.fin('event.type', ETYPES), 'object': {}}
    nbl, fho = vc.bool('memory.noticed_by_listing'), vc.bool('memory.fully_handled_once')
    memory = Opaque('memory', memo=memo, noticed_by_listing=nbl, fully_handled_once=fho)
    indexers = Opaque('indexers', indices=indices)
    has = {k: vc.bool(f'{k}.has_handlers') for k in ('watching', 'spawning', 'changing')}
    extra = {'watching': {('status', 'w')}, 'spawning': {('status', 's')}, 'changing': {('status', 'c'), ('spec', 'x')}}
    regs = {}
    for k in has:
        r = Opaque(f'registry._{k}')
        r.has_handlers = (lambda k: lambda resource: (vc.emit('has_handlers', k, resource), has[k])[1])(k)
        r.get_extra_fields = (lambda k: lambda resource: (vc.emit('get_extra_fields', k, resource), frozenset(extra[k]))[1])(k)
        regs[k] = r
    registry = Opaque('registry', _watching=regs['watching'], _spawning=regs['spawning'], _changing=regs['changing'])
    # absent (never handled), EMPTY (handled; an object with no spec/labels: falsy but stored!), non-empty
    stored = vc.fin('stored essence', [None, {}, {'spec': {'x': 1}}])
    stored = resolve(stored)
    built = {'spec': {'x': 2}}
    cleared = {}                        # id(input essence) -> the cleared essence returned for it

    def fetch(body):
        vc.emit('fetch', body); return stored

    def build(body, extra_fields=None):
        vc.emit('build', body, extra_fields); return built

    def clear(essence):
        vc.emit('clear', essence)                 # a pure function of the essence: same argument, same result
        if id(essence) not in cleared:
            cleared[id(essence)] = {'cleared': essence}
        return cleared[id(essence)]
    diff_nonempty = vc.bool('diff non-empty')
    diff_obj = Opaque('diff', truth=diff_nonempty)

    def diff(a, b):
        vc.emit('diff', a, b); return diff_obj
    settings = Opaque('settings', persistence=Opaque(
        'persistence', finalizer='fin.example.com/kopf',
        diffbase_storage=Opaque('diffbase_storage', fetch=fetch, build=build),
        progress_storage=Opaque('progress_storage', clear=clear)))
    made = {k: Opaque(f'{k}_cause') for k in has}

    def detector(k):
        def detect(**kw):
            vc.emit('detect', k, kw); return made[k]
        return detect
    vc.used('causes.detect_changing_cause', 'K1'); vc.used('diffs.diff', 'E3w + E3d (deductive); E3 bounded'); vc.used('diffbase/progress storages', 'E1')
    ld = vc.load('kopf._core.reactor.processing', '_detect_causes', stubs={
        'diffs.diff': diff,
        'causes.detect_watching_cause': detector('watching'),
        'causes.detect_spawning_cause': detector('spawning'),
        'causes.detect_changing_cause': detector('changing'),
    })
    local_logger, event_logger = NullLogger(), NullLogger()
    res = ld.fn(indexers=indexers, registry=registry, settings=settings, resource=resource, raw_event=raw_event,
                body=body, patch=patch, memory=memory, local_logger=local_logger, event_logger=event_logger)
    tr = vc.trace
    calls = {k: [ev[2] for ev in tr if ev[0] == 'detect' and ev[1] == k] for k in has}
    for n, k in enumerate(('watching', 'spawning', 'changing')):
        vc.ensure('detectors_gated', Iff(len(calls[k]) == 1, has[k]) and len(calls[k]) <= 1)
        vc.ensure('detectors_gated', res[n] is (made[k] if calls[k] else None))
    vc.ensure('detectors_gated', len(res) == 3)
    diffs_ = [ev for ev in tr if ev[0] == 'diff']
    fetches = [ev for ev in tr if ev[0] == 'fetch']
    builds = [ev for ev in tr if ev[0] == 'build']
    want_old = None if stored is None else cleared.get(id(stored))
    want_new = cleared.get(id(built))
    vc.ensure('old_is_cleared_stored', all(ev[1] is body for ev in fetches) and len(fetches) >= 1
              and (stored is None or want_old is not None))
    vc.ensure('new_is_cleared_built', all(ev[1] is body for ev in builds) and len(builds) >= 1 and want_new is not None
              and all(ev[2] == extra['watching'] | extra['spawning'] | extra['changing'] for ev in builds))
    vc.ensure('one_diff', len(diffs_) == 1 and diffs_[0][1] is want_old and diffs_[0][2] is want_new)
    for kw in calls['changing']:
        vc.ensure('old_is_cleared_stored', kw['old'] is want_old)
        vc.ensure('new_is_cleared_built', kw['new'] is want_new)
        vc.ensure('one_diff', kw['diff'] is diff_obj)
        vc.ensure('initial_formula', Iff(kw['initial'], And(nbl, Not(fho))))
        vc.canary('canary.always_initial', kw['initial'])
        vc.ensure('passes_through', kw['finalizer'] is settings.persistence.finalizer and kw['memo'] is memo)
    for kw in calls['spawning']:
        vc.ensure('reset_is_essential_change', Iff(kw['reset'], diff_nonempty))
    for k in has:
        for kw in calls[k]:
            vc.ensure('passes_through', kw['body'] is body and kw['patch'] is patch and kw['resource'] is resource
                      and kw['indices'] is indices and kw['memo'] is memo
                      and (k == 'spawning' or kw['raw_event'] is raw_event))
    vc.ensure('passes_through', all(ev[2] is resource for ev in tr if ev[0] in ('has_handlers', 'get_extra_fields')))
    vc.canary('canary.always_all_causes', all(r is not None for r in res))
    return ('return', [r is not None for r in res], stored is None)


# ----------------------------------------------------------------------------------------------- H6
@harness('H6', targets='kopf._core.reactor.processing.process_resource_event', props=['C03', 'C08', 'C17', 'C14', 'C12', 'C07', 'C05', 'C06', 'C09', 'C10', 'C11', 'C13', 'C15', 'C01', 'C02'],
         prop_clauses={'C05': ['order', 'apply_unless_deleted', 'patch_threaded', 'recall_flag', 'passes_through'], 'C06': ['order', 'apply_unless_deleted', 'patch_threaded', 'passes_through'], 'C09': ['order', 'apply_unless_deleted', 'patch_threaded', 'inside_throttled', 'throttled_at_call_site', 'passes_through'], 'C10': ['order', 'index_gate', 'passes_through'], 'C11': ['apply_unless_deleted', 'patch_threaded', 'passes_through'], 'C13': ['passes_through'], 'C15': ['passes_through'], 'C01': ['order', 'index_gate', 'inside_throttled', 'throttled_at_call_site', 'passes_through'], 'C02': ['order', 'apply_unless_deleted', 'patch_threaded', 'passes_through']},
         clauses=['order', 'index_gate', 'apply_unless_deleted', 'patch_threaded', 'inside_throttled', 'throttled_at_call_site',
                  'posting_context', 'recall_flag', 'passes_through'],
         canaries=['canary.always_applies', 'canary.never_forgets', 'canary.remaining_never_changes'],
         trusted=['throttlers.throttled by contract T2: yields should_run; swallows an Exception of the block iff should_run',
                  'application.apply by contract A1: returns (applied, resource_version, remaining_patch) or raises',
                  'indexing.index_resource (I2), ToggleSet.drop_toggle/wait_for, ResourceMemories.recall/forget (V1): awaited, may suspend',
                  'bodies.Body, patches.Patch constructors and contextlib.nullcontext run as real code (inlined)'])
def H6(vc):
    """
    process_resource_event, on the ghost trace: recall memory -> (forget, iff the event is DELETED) ->
    index_resource -> drop the object's own toggle (iff both toggles are given) -> wait for operator_indexed
    (iff given) -> process_resource_causes -> application.apply (iff the event is not DELETED).  The Patch
    handed to the causes starts from the previous memory.remaining_patch (same content, same fns in the same
    order) and the same Patch object goes to apply together with the delays the causes returned;
    memory.remaining_patch := what apply returned, and is left as it was whenever apply did not return
    (DELETED, throttled, or an error) so that carried transformations are not lost; the result is apply's
    resource version.  Everything from indexing on runs inside the `throttled` block and only if it
    yields should_run.  recall is told noticed_by_listing == (event type is None).
    (C12) Called the way the operator calls it -- running.py's functools.partial plus queueing.worker's keywords, neither
    of which passes `no_throttling` -- the cycle runs under throttlers.throttled with the object's own
    memory.error_throttler: an unexpected error pauses this object instead of escaping into the worker.
    (documented kopf.event()/info()/logger-to-K8s-events of docs/events.rst, need of posting.enqueue) before any step
    that runs handlers (indexing, causes) the posting context variables are set in this task: the queue := the
    event_queue given, the loop := the running loop.
    """
    from kopf._cogs.structs import patches
    etype = vc.fin('event.type', ETYPES)
    deleted = Eq(etype, 'DELETED')
    raw_body = {'metadata': {'name': 'obj', 'uid': 'uid1'}}
    raw_event = {'type': etype, 'object': raw_body}
    carried_fn = Opaque('carried-fn')
    prev_kind = vc.nondet(2, 'previous remaining patch')
    prev = [None, patches.Patch({'status': {'k': 'v'}}, fns=[carried_fn])][prev_kind]
    prev_content = dict(prev) if prev is not None else {}
    prev_fns = list(prev.fns) if prev is not None else []

    class LiveBody(dict):
        def _replace_with(self, src):
            vc.emit('live_body.replace', src)
    live = LiveBody() if vc.nondet(2, 'live body kept by daemons?') == 1 else None
    throttler, memo, indexing_memory = Opaque('throttler'), Opaque('memo'), Opaque('indexing_memory')
    memory = Opaque('memory', daemons_memory=Opaque('daemons_memory', live_fresh_body=live), remaining_patch=prev,
                    error_throttler=throttler, memo=memo, indexing_memory=indexing_memory)
    memobase = Opaque('memobase')

    class Memories:
        async def recall(self, raw_body, *, noticed_by_listing=False, memobase=None):
            vc.emit('recall', raw_body, noticed_by_listing, memobase)
            await suspend('memories.recall')
            return memory

        async def forget(self, raw_body):
            vc.emit('forget', raw_body)
            await suspend('memories.forget')
    should_run = vc.bool('throttled.should_run')
    # 0: not passed at all -- the real call site (running.py partial + queueing.worker); 1/2: passed by tests/simulations
    throttling_arg = vc.nondet(3, 'no_throttling: omitted (operator) / False / True')
    no_throttling = throttling_arg == 2
    throttling_kw = {} if throttling_arg == 0 else {'no_throttling': no_throttling}
    pressure = StubEvent('stream_pressure')
    # settings.queueing.error_delays: any collection, the EMPTY one included ("every error-delay configuration (empty, ...)":
    # errors are contained by the throttler also when there is nothing to sleep for)
    error_delays = Opaque('error_delays', truth=vc.bool('error_delays non-empty'))
    settings = Opaque('settings', queueing=Opaque('queueing', error_delays=error_delays))

    class Throttled:
        def __init__(self, **kw):
            vc.emit('throttled', kw)

        async def __aenter__(self):
            await suspend('throttled: 1st sleep')
            vc.emit('throttled.enter')
            return should_run

        async def __aexit__(self, et, e, tb):
            vc.emit('throttled.exit', et)
            swallowed = et is not None and issubclass(et, Exception) and bool(should_run)
            await suspend('throttled: 2nd sleep')
            return swallowed

    class Toggles:
        async def drop_toggle(self, toggle):
            vc.emit('drop', toggle); await suspend('drop_toggle')

        async def wait_for(self, state):
            vc.emit('wait', state); await suspend('operator_indexed.wait_for')
    operator_indexed = Toggles() if vc.nondet(2, 'operator_indexed given?') == 1 else None
    resource_indexed = Opaque('own-toggle') if vc.nondet(2, 'resource_indexed given?') == 1 else None

    async def index_resource(**kw):
        vc.emit('index', kw); await suspend('index_resource')
    causes_out = {}

    async def process_resource_causes(**kw):
        p = kw.get('patch')
        vc.emit('causes', kw, dict(p) if p is not None else None, list(p.fns) if p is not None else None)
        await suspend('process_resource_causes')
        if vc.nondet(2, 'process_resource_causes raises?') == 1:
            raise _HandlingError('any exception out of the causes')
        causes_out['delays'] = vc.seq('delays', 'real')
        return causes_out['delays'], vc.bool('matched')
    apply_out = {}

    async def apply(**kw):
        vc.emit('apply', kw)
        await suspend('application.apply')
        if vc.nondet(2, 'apply raises?') == 1:
            raise _HandlingError('any exception out of apply (API errors)')
        apply_out['rv'] = vc.opt('resource_version', vc.str)
        apply_out['remaining'] = patches.Patch(fns=[Opaque('unapplied-fn')]) if vc.nondet(2, 'patch remains?') == 1 else None
        return vc.bool('applied'), apply_out['rv'], apply_out['remaining']
    vc.used('processing.process_resource_causes', 'H2/H3/H4'); vc.used('application.apply', 'A1')
    vc.used('throttlers.throttled', 'T2'); vc.used('indexing.index_resource', 'I2'); vc.used('inventory.ResourceMemories.recall', 'V1')
    clock = Clock()
    running_loop = StubLoop(clock)
    ctxvar = lambda name: Opaque(name, set=lambda v: vc.emit(name + '.set', v))
    ld = vc.load('kopf._core.reactor.processing', 'process_resource_event', stubs={
        'loggers.LocalObjectLogger': lambda **kw: NullLogger(), 'loggers.TerseObjectLogger': lambda **kw: NullLogger(),
        'loggers.ObjectLogger': lambda **kw: NullLogger(),
        'throttlers.throttled': Throttled,
        'posting.event_queue_loop_var': ctxvar('event_queue_loop_var'), 'posting.event_queue_var': ctxvar('event_queue_var'),
        'asyncio.get_running_loop': lambda: running_loop,
        'indexing.index_resource': index_resource,
        'process_resource_causes': process_resource_causes,
        'application.apply': apply,
    })
    lifecycle, indexers, registry, resource, event_queue = (Opaque(n) for n in ('lifecycle', 'indexers', 'registry', 'resource', 'event_queue'))
    operator_paused = Opaque('operator_paused')
    consistency_time = vc.fin('consistency_time', [None, 12.5])      # only handed through, never inspected here
    raised = None
    result = None
    try:
        result = vc.drive(ld.fn(
            lifecycle=lifecycle, indexers=indexers, registry=registry, settings=settings, memories=Memories(), memobase=memobase,
            resource=resource, raw_event=raw_event, event_queue=event_queue, stream_pressure=pressure,
            operator_paused=operator_paused, resource_indexed=resource_indexed, operator_indexed=operator_indexed,
            consistency_time=consistency_time, **throttling_kw),
            on_suspend=lambda site: (clock.advance(0), pressure.havoc(only_set=True)) and None)
    except _HandlingError as e:
        raised = e
    tr = list(vc.trace)
    names = [ev[0] for ev in tr]
    pos = lambda n: [i for i, x in enumerate(names) if x == n]
    steps = ('recall', 'forget', 'index', 'drop', 'wait', 'causes', 'apply')
    seq_of_steps = [n for n in names if n in steps]
    # -- order: the steps that occur, occur once and in this order
    vc.ensure('order', seq_of_steps == [n for n in steps if n in seq_of_steps])
    vc.ensure('order', names.count('recall') == 1)
    vc.ensure('order', Iff(len(pos('forget')) == 1, deleted))
    runs = True if no_throttling else should_run
    reached_causes = 'causes' in names
    causes_returned = 'delays' in causes_out
    # -- the start-up gate of C17
    vc.ensure('index_gate', Iff(len(pos('index')) == 1, runs))
    vc.ensure('index_gate', Implies(runs, len(pos('drop')) == (1 if operator_indexed is not None and resource_indexed is not None else 0)))
    vc.ensure('index_gate', Implies(runs, len(pos('wait')) == (1 if operator_indexed is not None else 0)))
    vc.ensure('index_gate', all(tr[i][1] is resource_indexed for i in pos('drop')) and all(tr[i][1] is True for i in pos('wait')))
    vc.ensure('index_gate', Iff(reached_causes, runs))
    # -- apply
    vc.ensure('apply_unless_deleted', Iff('apply' in names, And(runs, Not(deleted), causes_returned)))
    # -- inside the throttled block
    inner = [i for i, n in enumerate(names) if n in ('index', 'drop', 'wait', 'causes', 'apply')]
    if throttling_arg == 0:
        vc.ensure('throttled_at_call_site', names.count('throttled') == 1 and names.count('throttled.enter') == 1)
    if not no_throttling and 'throttled' in names:
        ent, ext = pos('throttled.enter'), pos('throttled.exit')
        vc.ensure('inside_throttled', len(ent) == 1 and len(ext) == 1 and all(ent[0] < i < ext[0] for i in inner))
        kw = tr[pos('throttled')[0]][1]
        vc.ensure('passes_through', kw.get('throttler') is throttler and kw.get('delays') is error_delays and kw.get('wakeup') is pressure)
    elif not no_throttling:
        vc.ensure('inside_throttled', False)                    # throttling was asked for (or not declined) but not used
    vc.ensure('inside_throttled', Implies(Not(runs), len(inner) == 0))
    # -- K8s-event posting context of this object's task, before anything that runs handlers
    handler_steps = pos('index') + pos('causes')
    if handler_steps:
        for var, want in (('event_queue_var', event_queue), ('event_queue_loop_var', running_loop)):
            sets = pos(var + '.set')
            vc.ensure('posting_context', len(sets) >= 1 and sets[0] < min(handler_steps)
                      and all(tr[i][1] is want for i in sets))
    vc.ensure('inside_throttled', Implies(Not(runs), result is None and raised is None))
    # -- the remaining patch is threaded through the cycles
    body = None
    for i in pos('causes'):
        _, kw, content, fns = tr[i]
        body = kw.get('body')
        vc.ensure('patch_threaded', content == prev_content and fns is not None and len(fns) == len(prev_fns)
                  and all(a is b for a, b in zip(fns, prev_fns)))
        vc.ensure('passes_through', kw.get('raw_event') is raw_event and kw.get('memory') is memory and kw.get('registry') is registry
                  and kw.get('settings') is settings and kw.get('resource') is resource and kw.get('indexers') is indexers
                  and kw.get('lifecycle') is lifecycle and kw.get('stream_pressure') is pressure
                  and kw.get('operator_paused') is operator_paused and kw.get('consistency_time') is consistency_time)
        vc.ensure('passes_through', (body is live) if live is not None else (body is not None and dict(body) == raw_body))
    for i in pos('apply'):
        kw = tr[i][1]
        ckw = tr[pos('causes')[0]][1]
        vc.ensure('patch_threaded', kw.get('patch') is ckw.get('patch') and kw.get('delays') is causes_out.get('delays'))
        vc.ensure('passes_through', kw.get('body') is body and kw.get('resource') is resource and kw.get('settings') is settings
                  and kw.get('stream_pressure') is pressure)
    for i in pos('index'):
        kw = tr[i][1]
        vc.ensure('passes_through', kw.get('raw_event') is raw_event and kw.get('memory') is indexing_memory and kw.get('memo') is memo
                  and kw.get('registry') is registry and kw.get('indexers') is indexers and kw.get('resource') is resource)
    if live is not None:
        rep = pos('live_body.replace')
        vc.ensure('passes_through', len(rep) == 1 and tr[rep[0]][1] is raw_body and all(rep[0] < i for i in inner))
    applied_ok = 'rv' in apply_out
    if applied_ok:
        vc.ensure('patch_threaded', memory.remaining_patch is apply_out['remaining'])
        vc.ensure('patch_threaded', raised is None and (result is apply_out['rv']))
    else:
        vc.ensure('patch_threaded', memory.remaining_patch is prev)
        vc.ensure('patch_threaded', result is None)
    vc.canary('canary.remaining_never_changes', memory.remaining_patch is prev)
    # -- what recall is told
    _, rb, nbl, mb = tr[pos('recall')[0]]
    vc.ensure('recall_flag', Iff(nbl, Eq(etype, None)) and rb is raw_body and mb is memobase)
    vc.ensure('recall_flag', all(tr[i][1] is raw_body for i in pos('forget')))
    vc.canary('canary.always_applies', 'apply' in names)
    vc.canary('canary.never_forgets', 'forget' not in names)
    return ('raise' if raised is not None else 'return', seq_of_steps, applied_ok, None if result is None else 'rv')


# ----------------------------------------------------------------------------------------------- K3
def _fin_parts(t):
    """(metadata term, metadata is an object, it has a finalizers list, the list's items or the empty sequence)."""
    import z3
    from pyvc.values import J, JSeq
    md = z3.Select(J.fields(t), z3.StringVal('metadata'))
    fin = z3.Select(J.fields(md), z3.StringVal('finalizers'))
    md_obj = J.is_JObj(md)
    has_list = z3.And(md_obj, J.is_JList(fin))
    items = z3.If(has_list, J.items(fin), z3.Empty(JSeq))
    return md, md_obj, has_list, items


def _with_items(t, items):
    """The body `t` (which has a finalizers list) with that list's items replaced."""
    import z3
    from pyvc.values import J
    md = z3.Select(J.fields(t), z3.StringVal('metadata'))
    return J.JObj(z3.Store(J.fields(t), z3.StringVal('metadata'),
                           J.JObj(z3.Store(J.fields(md), z3.StringVal('finalizers'), J.JList(items)))))


def _without_first(items, f):
    import z3
    i = z3.IndexOf(items, z3.Unit(f), 0)
    n = z3.Length(items)
    return i, z3.If(i >= 0, z3.Concat(z3.SubSeq(items, 0, i), z3.SubSeq(items, i + 1, n - i - 1)), items)


def _spec_cleanup(t):
    """allow_deletion's documented tidy-up as a term: drop `finalizers` iff present and empty, then `metadata` iff present and empty."""
    import z3
    from pyvc.values import J
    md, md_obj, has_list, items = _fin_parts(t)
    empty_obj = z3.K(z3.StringSort(), J.JAbsent)
    md_fields = z3.If(z3.And(has_list, z3.Length(items) == 0), z3.Store(J.fields(md), z3.StringVal('finalizers'), J.JAbsent), J.fields(md))
    return z3.If(md_obj,
                 z3.If(md_fields == empty_obj,
                       J.JObj(z3.Store(J.fields(t), z3.StringVal('metadata'), J.JAbsent)),
                       J.JObj(z3.Store(J.fields(t), z3.StringVal('metadata'), J.JObj(md_fields)))),
                 t)


def _py_fins(b):
    md = b.get('metadata') if isinstance(b, dict) else None
    fins = md.get('finalizers') if isinstance(md, dict) else None
    return fins if isinstance(fins, list) else None


def _py_cleanup(b):
    import copy
    b = copy.deepcopy(b)
    if isinstance(b.get('metadata'), dict):
        if 'finalizers' in b['metadata'] and not b['metadata']['finalizers']:
            del b['metadata']['finalizers']
        if not b['metadata']:
            del b['metadata']
    return b


def _py_with_fins(b, fins):
    import copy
    b = copy.deepcopy(b)
    b['metadata']['finalizers'] = list(fins)
    return b


def _py_without_first(fins, f):
    fins = list(fins)
    if f in fins:
        fins.remove(f)
    return fins


def _load_allow(vc, body, finalizer, contract):
    """
    allow_deletion with a loop contract for its `while`.  `contract`:
      'unique'  -- precondition: the finalizer occurs at most once (Kubernetes keeps metadata.finalizers duplicate-free).
                   Invariant: the body is the initial one, or the initial one with that single occurrence removed.
      'general' -- no precondition.  Invariant: only the finalizers list differs from the initial body, and the
                   list is Del(initial list): reached from it by deleting occurrences of the finalizer only.  Del is
                   a ghost relation given by its two rules (reflexive; closed under "delete the first occurrence"),
                   of which exactly the instances needed are assumed; the step itself is proved from the code.
    Returns (loaded function, info) with info['head'] = the list items at the loop head of the explored path.
    """
    import z3
    from pyvc.values import J, JSeq, SBool, to_json_term
    from pyvc.engine import E
    info = {}
    if vc.concrete:
        import copy
        b0 = copy.deepcopy(body)
        F0 = _py_fins(b0)

        def invariant(loc):
            cur = _py_fins(body)
            if F0 is None:
                return body == b0
            if cur is None or _py_with_fins(body, F0) != b0:
                return False
            if contract == 'unique':
                return cur == F0 or cur == _py_without_first(F0, finalizer)
            return True         # the ghost relation Del has no concrete counterpart (its model value is arbitrary)

        def havoc(loc):
            if contract == 'unique':
                if vc.nondet(2, 'loop head: nothing removed yet / removed') == 1 and F0 is not None and finalizer in F0:
                    body['metadata']['finalizers'] = _py_without_first(F0, finalizer)
            else:
                if F0 is not None:
                    body['metadata']['finalizers'] = _plain_json(list(E().draw('finalizers@head', JSeq)))
            info['head'] = _py_fins(body)
            return {}
        ld = vc.load('kopf._cogs.structs.finalizers', 'allow_deletion',
                     loops={1: LoopSpec('while finalizer in body.get', invariant=invariant, havoc=havoc)})
        return ld, info
    t0 = body.term
    f = to_json_term(finalizer)
    md0, md_obj0, has_list0, F0 = _fin_parts(t0)
    i0, F1 = _without_first(F0, f)
    hl = bool(SBool(has_list0))          # case split: is there a finalizers list at all? (keeps the terms simple)
    _seq_hints(vc, F0, f)
    Del = z3.Function('Del', JSeq, JSeq, J, z3.BoolSort())
    if contract == 'general':
        vc.assume(SBool(Del(F0, F0, f)), 'ghost relation Del: reflexive (instance)')
    phase = ['entry']

    def invariant(loc):
        t = body.term
        if not hl:
            return SBool(t == t0)
        if contract == 'unique':
            return SBool(z3.Or(t == t0, z3.And(i0 >= 0, t == _with_items(t0, F1))))
        _, _, _, F = _fin_parts(t)
        if phase[0] == 'iteration':                         # at the back edge: the rule instance for this iteration
            Fh = info['head']
            ih, Fh1 = _without_first(Fh, f)
            vc.assume(SBool(z3.Implies(z3.And(Del(F0, Fh, f), ih >= 0, F == Fh1), Del(F0, F, f))),
                      'ghost relation Del: closed under deleting the first occurrence (instance)')
        return SBool(z3.And(t == _with_items(t0, F), Del(F0, F, f)))

    def havoc(loc):
        if contract == 'unique':
            info['head'] = F0
            if vc.nondet(2, 'loop head: nothing removed yet / removed') == 1:
                vc.assume(SBool(z3.And(has_list0, i0 >= 0)), 'there was an occurrence to remove')
                body.root.term = _with_items(t0, F1)
                info['head'] = F1
        elif hl:
            Fh = E().draw('finalizers@head', JSeq)
            body.root.term = _with_items(t0, Fh)
            info['head'] = Fh
            _seq_hints(vc, Fh, f)
        else:
            info['head'] = F0
        return {}

    def inv(loc):
        r = invariant(loc)
        phase[0] = {'entry': 'head', 'head': 'iteration', 'iteration': 'done'}[phase[0]]
        return r
    ld = vc.load('kopf._cogs.structs.finalizers', 'allow_deletion',
                 loops={1: LoopSpec('while finalizer in body.get', invariant=inv, havoc=havoc)})
    return ld, info


def _seq_hints(vc, F, f):
    """Instances of the sequence-theory lemmas proved in K3L (valid for every sequence F and element f);
    z3 alone does not find the first-occurrence fact inside a large context."""
    import z3
    from pyvc.values import SBool
    u = z3.Unit(f)
    i = z3.IndexOf(F, u, 0)
    pre, post = z3.SubSeq(F, 0, i), z3.SubSeq(F, i + 1, z3.Length(F) - i - 1)
    vc.assume(SBool((i >= 0) == z3.Contains(F, u)), 'K3L.indexof_iff_contains (instance)')
    vc.assume(SBool(z3.Implies(i >= 0, z3.Not(z3.Contains(pre, u)))), 'K3L.first_occurrence (instance)')
    vc.assume(SBool(z3.Implies(z3.Contains(z3.Concat(pre, post), u), z3.Or(z3.Contains(pre, u), z3.Contains(post, u)))),
              'K3L.unit_split (instance)')
    vc.used('sequence lemmas (indexof/contains/first occurrence)', 'K3L')


def _plain_json(x):
    """Concrete JSON from a model: as c05_causes._strip_absent, and <absent> *list elements* (not JSON, but the
    datatype admits them) become a sentinel that compares by value and never equals a string."""
    from pyvc.values import Absent
    if isinstance(x, dict):
        return {k: _plain_json(v) for k, v in x.items() if not isinstance(v, Absent) and k != '<every-other-key>'}
    if isinstance(x, list):
        return [('<absent>',) if isinstance(v, Absent) else _plain_json(v) for v in x]
    return x


@harness('K3', targets=['kopf._cogs.structs.finalizers.block_deletion', 'kopf._cogs.structs.finalizers.allow_deletion'],
         props=['C06', 'C08', 'C03', 'C09', 'C15'],
         clauses=['block.appended_once_iff_absent', 'block.nothing_else_changes', 'block.idempotent',
                  'allow.removed_entirely', 'allow.others_keep_order_and_multiplicity', 'allow.empties_removed_only_when_empty',
                  'allow.nothing_else_changes', 'allow.idempotent'],
         canaries=['canary.block_always_appends', 'canary.allow_keeps_metadata'],
         assumes=['watched bodies: JSON object; metadata, if present, an object; metadata.finalizers, if present, a list (wf_body)',
                  'list.remove(x) deletes the first element equal to x; JSON kinds are disjoint (no 1 == True)',
                  'ghost relation Del(F0, F): F is reached from F0 by deleting occurrences of the finalizer only '
                  '(defined by its two rules; used for lists with duplicates, contract "general")'])
def K3(vc):
    """
    finalizers.block_deletion / allow_deletion on an arbitrary JSON body (as the JSON-patch machinery runs them).
    block: metadata.finalizers' == finalizers ++ [f] if f is not in it, unchanged otherwise (so every other
    element keeps its position and multiplicity, f is appended exactly once iff absent); `metadata`/`finalizers`
    are created when missing; nothing else in the body changes; block(block(b)) == block(b).
    allow (loop contract): afterwards f does not occur; with at most one occurrence (Kubernetes' uniqueness;
    contract 'unique') the list is exactly the old one minus that element; for arbitrary lists (contract
    'general') the list is Del(old list) -- obtained by deleting occurrences of f only -- which with "f does
    not occur" characterises the order- and multiplicity-preserving removal; then `finalizers` is dropped
    iff it is present and empty, `metadata` iff it is present and empty; nothing else changes;
    allow(allow(b)) == allow(b).
    """
    from contracts.c05_causes import wf_body
    body = vc.json('body')
    finalizer = vc.str('finalizer')
    which = ('block', 'allow-unique', 'allow-general')[vc.nondet(3, 'function / contract')]
    if vc.concrete:
        return _K3_concrete(vc, _plain_json(body), finalizer, which)
    import z3
    from pyvc.values import J, SBool, to_json_term
    wf_body(vc, body)
    f = to_json_term(finalizer)
    t0 = body.term
    md0, md_obj0, has_list0, F0 = _fin_parts(t0)
    present0 = z3.Contains(F0, z3.Unit(f))
    empty_obj = z3.K(z3.StringSort(), J.JAbsent)
    if which == 'block':
        ld = vc.load('kopf._cogs.structs.finalizers', 'block_deletion')
        ld.fn(body, finalizer)
        t1 = body.term
        _, _, has_list1, F1 = _fin_parts(t1)
        vc.ensure('block.appended_once_iff_absent', SBool(z3.And(has_list1, F1 == z3.If(present0, F0, z3.Concat(F0, z3.Unit(f))))))
        md_fields0 = z3.If(md_obj0, J.fields(md0), empty_obj)
        expected = z3.If(present0, t0, J.JObj(z3.Store(J.fields(t0), z3.StringVal('metadata'), J.JObj(
            z3.Store(md_fields0, z3.StringVal('finalizers'), J.JList(z3.Concat(F0, z3.Unit(f))))))))
        vc.ensure('block.nothing_else_changes', SBool(t1 == expected))
        ld.fn(body, finalizer)
        vc.ensure('block.idempotent', SBool(body.term == t1))
        vc.canary('canary.block_always_appends', SBool(t1 != t0))
        return ('block', z3.And(present0), F1)
    contract = 'unique' if which == 'allow-unique' else 'general'
    hl = bool(SBool(has_list0))
    i0, F0_minus = _without_first(F0, f)
    if contract == 'unique':
        vc.assume(SBool(z3.Not(z3.Contains(z3.SubSeq(F0, i0 + 1, z3.Length(F0) - i0 - 1), z3.Unit(f)))),
                  'the finalizer occurs at most once in metadata.finalizers (Kubernetes keeps the list duplicate-free)')
    ld, info = _load_allow(vc, body, finalizer, contract)
    ld.fn(body, finalizer)                       # paths through an iteration end at the back edge (invariant checked there)
    t1 = body.term
    md1, md_obj1, has_list1, F1 = _fin_parts(t1)
    Fx = info['head']                            # the list when the loop was left: no occurrence (the guard was false)
    vc.ensure('allow.removed_entirely', SBool(z3.Not(z3.Contains(F1, z3.Unit(f)))))
    if contract == 'unique':
        vc.ensure('allow.others_keep_order_and_multiplicity', SBool(F1 == F0_minus))
        final_list = F0_minus
    else:
        Del = z3.Function('Del', F0.sort(), F0.sort(), J, z3.BoolSort())
        vc.ensure('allow.others_keep_order_and_multiplicity', SBool(z3.And(Del(F0, F1, f), F1 == Fx)))
        final_list = Fx
    fin1 = z3.Select(J.fields(md1), z3.StringVal('finalizers'))
    vc.ensure('allow.empties_removed_only_when_empty',
              SBool(z3.And(z3.Implies(md_obj1, J.fields(md1) != empty_obj),                 # no empty metadata is left
                           z3.Implies(has_list1, z3.Length(F1) > 0),                        # no empty finalizers is left
                           z3.Implies(z3.And(has_list0, z3.Length(final_list) > 0), has_list1),   # non-empty list kept
                           z3.Implies(z3.And(md_obj0, z3.Not(md_obj1)),                      # metadata dropped only if nothing else was in it
                                      z3.Store(J.fields(md0), z3.StringVal('finalizers'), J.JAbsent) == empty_obj))))
    expected = _spec_cleanup(_with_items(t0, final_list) if hl else t0)
    vc.ensure('allow.nothing_else_changes', SBool(t1 == expected))
    vc.canary('canary.allow_keeps_metadata', SBool(z3.Implies(md_obj0, md_obj1)))
    # idempotence: the result has no occurrence, so the 'unique' contract's precondition holds for the second call
    ld2, _ = _load_allow(vc, body, finalizer, 'unique')
    ld2.fn(body, finalizer)
    vc.ensure('allow.idempotent', SBool(body.term == t1))
    return (which, z3.And(has_list1), F1)


def _K3_concrete(vc, body, finalizer, which):
    """The same clauses as executable predicates for the CPython re-run of every explored path."""
    import copy
    b0 = copy.deepcopy(body)
    F0 = _py_fins(b0)
    if which == 'block':
        ld = vc.load('kopf._cogs.structs.finalizers', 'block_deletion')
        ld.fn(body, finalizer)
        present0 = F0 is not None and finalizer in F0
        F1 = _py_fins(body)
        vc.ensure('block.appended_once_iff_absent', F1 == ((F0 or []) if present0 else (F0 or []) + [finalizer]))
        expected = copy.deepcopy(b0)
        if not present0:
            expected.setdefault('metadata', {})['finalizers'] = (F0 or []) + [finalizer]
        vc.ensure('block.nothing_else_changes', body == expected)
        b1 = copy.deepcopy(body)
        ld.fn(body, finalizer)
        vc.ensure('block.idempotent', body == b1)
        return ('block', present0, F1 or [])
    contract = 'unique' if which == 'allow-unique' else 'general'
    ld, info = _load_allow(vc, body, finalizer, contract)
    ld.fn(body, finalizer)
    F1 = _py_fins(body)
    Fx = info['head']
    vc.ensure('allow.removed_entirely', finalizer not in (F1 or []))
    if contract == 'unique':
        vc.ensure('allow.others_keep_order_and_multiplicity', (F1 or []) == _py_without_first(F0 or [], finalizer))
    else:
        vc.ensure('allow.others_keep_order_and_multiplicity', (F1 or []) == (Fx or []))
    vc.ensure('allow.empties_removed_only_when_empty', body.get('metadata', True) != {} and F1 != [])
    expected = _py_cleanup(_py_with_fins(b0, Fx) if F0 is not None else b0)
    vc.ensure('allow.nothing_else_changes', body == expected)
    b1 = copy.deepcopy(body)
    ld2, _ = _load_allow(vc, body, finalizer, 'unique')
    ld2.fn(body, finalizer)
    vc.ensure('allow.idempotent', body == b1)
    return (which, F1 is not None, F1 or [])


@harness('K3L', targets=['kopf._cogs.structs.finalizers.allow_deletion'], props=['C06', 'C08', 'C03', 'C09'],
         clauses=['indexof_iff_contains', 'first_occurrence', 'unit_split'], canaries=['canary.nothing_after_first'],
         timeout_ms=1500, native_check=False,
         assumes=['lemmas of the theory of sequences over an uninterpreted element sort (hence valid for JSON elements); '
                  'no code is run: K3 assumes instances of them as hints'])
def K3L(vc):
    """
    Sequence-theory lemmas used as hints by K3 (for every sequence s, x, y and element f, u = [f], i = indexof(s, u, 0)):
    i >= 0 <=> contains(s, u);   i >= 0 => not contains(s[0:i], u)  (the part before the first occurrence has none);
    contains(x ++ y, u) => contains(x, u) or contains(y, u).   Discharged by z3, or by cvc5 where z3 gives up.
    """
    import z3
    U = z3.DeclareSort('U')
    S = z3.SeqSort(U)
    s, x, y, f = z3.Const('sq', S), z3.Const('xq', S), z3.Const('yq', S), z3.Const('ff', U)
    u = z3.Unit(f)
    i = z3.IndexOf(s, u, 0)
    vc.ensure('indexof_iff_contains', SBool((i >= 0) == z3.Contains(s, u)))
    vc.ensure('first_occurrence', SBool(z3.Implies(i >= 0, z3.Not(z3.Contains(z3.SubSeq(s, 0, i), u)))))
    vc.ensure('unit_split', SBool(z3.Implies(z3.Contains(z3.Concat(x, y), u), z3.Or(z3.Contains(x, u), z3.Contains(y, u)))))
    vc.canary('canary.nothing_after_first', SBool(z3.Implies(i >= 0, z3.Not(z3.Contains(z3.SubSeq(s, i + 1, z3.Length(s) - i - 1), u)))))
    return ('lemmas',)


# ----------------------------------------------------------------------------------------------- K3b
from pyvc.bounded import bounded


@bounded('K3b', targets=['kopf._cogs.structs.finalizers.block_deletion', 'kopf._cogs.structs.finalizers.allow_deletion'],
         props=['C06', 'C08', 'C03', 'C15'], clauses=['block_is_append_if_absent', 'allow_is_filter_then_tidy', 'foreign_untouched', 'idempotent'],
         universe='metadata.finalizers: every list of length <= 4 over {own finalizer, "a", "b"} (all positions, duplicates of each), '
                  'or absent; metadata: absent / {} / with other keys; with and without other top-level keys')
def K3b(b):
    """
    Bounded stand-in for the part of K3 that is deductive only relative to the ghost relation Del: on lists WITH
    duplicates of the own finalizer the real allow_deletion equals "filter out the finalizer, then drop an empty
    finalizers list and an empty metadata"; block_deletion equals "append iff absent"; both are idempotent and
    never add, drop or reorder foreign finalizers.  Why bounded: z3's sequence theory has no filter; the unbounded
    statement needs an induction over the list that is outside the engine.
    """
    import copy
    import itertools
    from kopf._cogs.structs import finalizers
    own = 'kopf.example/own'
    names = [own, 'a', 'b']
    lists = [None] + [list(t) for n in range(5) for t in itertools.product(names, repeat=n)]
    for fins in lists:
        for md_extra in ({}, {'name': 'x', 'deletionTimestamp': None}):
            for top in ({}, {'spec': {'finalizers': [own]}}):
                for with_md in ((True,) if fins is not None or md_extra else (True, False)):
                    body = copy.deepcopy(top)
                    if with_md:
                        body['metadata'] = copy.deepcopy(md_extra)
                        if fins is not None:
                            body['metadata']['finalizers'] = list(fins)
                    old = fins or []
                    key = (tuple(old) if fins is not None else None, bool(md_extra), bool(top), with_md)
                    b.case(key=key, nontrivial=True, sample=body if own in old and old.count(own) > 1 else None)
                    # block
                    got = copy.deepcopy(body)
                    finalizers.block_deletion(got, own)
                    want = copy.deepcopy(body)
                    if own not in old:
                        want.setdefault('metadata', {})['finalizers'] = old + [own]
                    b.check('block_is_append_if_absent', got == want, lambda: dict(body=body, got=got, want=want))
                    again = copy.deepcopy(got)
                    finalizers.block_deletion(again, own)
                    b.check('idempotent', again == got, lambda: dict(fn='block', body=body, once=got, twice=again))
                    b.check('foreign_untouched', [x for x in got['metadata']['finalizers'] if x != own] == [x for x in old if x != own],
                            lambda: dict(fn='block', body=body, got=got))
                    # allow
                    got = copy.deepcopy(body)
                    finalizers.allow_deletion(got, own)
                    want = copy.deepcopy(body)
                    if fins is not None:
                        want['metadata']['finalizers'] = [x for x in old if x != own]
                    want = _py_cleanup(want)
                    b.check('allow_is_filter_then_tidy', got == want, lambda: dict(body=body, got=got, want=want))
                    again = copy.deepcopy(got)
                    finalizers.allow_deletion(again, own)
                    b.check('idempotent', again == got, lambda: dict(fn='allow', body=body, once=got, twice=again))
                    b.check('foreign_untouched', (_py_fins(got) or []) == [x for x in old if x != own],
                            lambda: dict(fn='allow', body=body, got=got))
