"""Contracts for the k8s-event posting engine and the health reporter (served properties: C12 "a failure to post a
Kubernetes event never breaks the handling", C20 "the poster and the health reporter are root tasks: ready only when
serving, cancellable at every await, cleaned up on exit"; documented rules: docs/events.rst, docs/configuration.rst
"Logging events", docs/probing.rst):
PO1 (posting.enqueue), PO2 (kopf.event / info / warn / exception),
PO3 (posting.poster), PO4 (K8sPoster.filter), PO5 (K8sPoster.emit), PO6 (probing.health_reporter: start/stop ordering),
PO7 (probing.health_reporter.get_health: the caching probe handler), PO8 (loggers.ObjectLogger.process,
LocalObjectLogger.log, TerseObjectLogger.isEnabledFor)."""
import asyncio
import logging

from pyvc import *
from pyvc.stubs import Opaque, NullLogger, Clock, STd, SDt
from kopf._core.actions import lifecycles
from kopf._core.engines import posting
from kopf._core.intents import causes

POSTING = 'kopf._core.engines.posting'
PROBING = 'kopf._core.engines.probing'
LOGGERS = 'kopf._core.actions.loggers'
BOTH = ['C12', 'C20']


class _Other(Exception):
    """an arbitrary exception unrelated to the framework's classes"""


def _names(tr):
    return [ev[0] for ev in tr]


def _truth(x):
    """the truth value of what a function returned, as a formula (no fork)"""
    return x.truth() if isinstance(x, SV) else bool(x)


def _in_loop(vc, k):
    return any(ev and ev[0] == 'loop-head' and ev[1] == k for ev in vc.trace)


def _since_head(vc, k):
    tr = vc.trace
    i = max(j for j, ev in enumerate(tr) if ev and ev[0] == 'loop-head' and ev[1] == k)
    return tr[i + 1:]


def havoc_rest(vc, loc, keep):
    """Loop-contract helper: every local bound at the loop head that is not known to be loop-invariant (`keep`) gets
    an unknown value, so state carried from one iteration to the next is not taken from the first iteration."""
    return {name: Opaque(f'havocked:{name}', truth=vc.bool(f'havocked:{name}.truth'))
            for name in sorted(loc) if name not in keep and not name.startswith('__')}


class CtxVar:
    """contextvars.ContextVar by contract: get() gives the value set in this context, LookupError if none was set."""
    _UNSET = object()

    def __init__(self, name, value=_UNSET):
        self.name, self.value = name, value

    def get(self, *default):
        if self.value is CtxVar._UNSET:
            if default:
                return default[0]
            raise LookupError(self.name)
        return self.value


# =============================================================================================== PO1
class GhostQueue:
    """asyncio.Queue (unbounded) by contract: put_nowait appends at once and never blocks; it is NOT thread-safe
    (only the thread of the queue's loop may touch it); put()/join() are coroutines (they wait)."""
    def __init__(self, vc):
        self.vc, self.items = vc, []

    def put_nowait(self, item):
        self.items.append(item)
        self.vc.emit('queue.put_nowait', item)

    def put(self, item):
        self.vc.emit('waiting-call', 'queue.put')
        return Opaque('coroutine queue.put')

    def join(self):
        self.vc.emit('waiting-call', 'queue.join')
        return Opaque('coroutine queue.join')


class GhostLoop:
    """asyncio loop by contract: call_soon_threadsafe(cb, *args) is the one thread-safe way to have cb(*args) run in
    the loop's own thread; it returns at once."""
    def __init__(self, vc, name):
        self.vc, self.name, self.scheduled = vc, name, []

    def call_soon_threadsafe(self, cb, *args):
        self.scheduled.append((cb, args))
        self.vc.emit('call_soon_threadsafe', self, cb, args)
        return Opaque('handle')

    def call_soon(self, cb, *args):         # not thread-safe: must not be what a foreign thread uses
        self.vc.emit('call_soon', self, cb, args)
        return Opaque('handle')

    def run_until_complete(self, *a):
        self.vc.emit('waiting-call', 'loop.run_until_complete')

    def __repr__(self):
        return f'<loop {self.name}>'


@harness('PO1', targets=f'{POSTING}.enqueue', props=BOTH,
         clauses=['one_event_with_the_given_fields', 'same_loop_puts_directly', 'foreign_thread_goes_through_the_queues_loop',
                  'never_waits', 'no_queue_in_context_is_a_lookup_error'],
         canaries=['canary.always_direct', 'canary.never_raises'],
         trusted=['asyncio.Queue.put_nowait / loop.call_soon_threadsafe / asyncio.get_running_loop (RuntimeError when the thread '
                  'runs no loop) / contextvars.ContextVar.get (LookupError when unset) by their documented contracts'])
def PO1(vc):
    """
    posting.enqueue(ref, type, reason, message) -- the one door to the k8s-event queue (kopf.event() & Co, K8sPoster.emit):
      * exactly one K8sEvent with THE given ref / type / reason / message reaches the queue of this context
        (event_queue_var), nothing else does;
      * called from the event loop the queue belongs to (event_queue_loop_var: async handlers, the framework itself): the
        event is in the queue when enqueue returns (put_nowait), nothing is scheduled;
      * called from a thread that runs no loop (sync handlers in executors) or another loop: the queue is not touched from
        that thread (asyncio queues are not thread-safe); one callback is handed to call_soon_threadsafe of the QUEUE's
        loop -- not of the loop running here -- and that callback, when the loop runs it, puts the event;
      * in no case does enqueue wait (no queue.put()/join(), no run_coroutine_threadsafe, no run_until_complete):
        posting must not block or break the handler that reports (C12; #1212);
      * without a queue or a loop in the context (kopf.event() outside of a handler) a LookupError tells so and nothing
        is queued or scheduled anywhere.
    """
    qloop, other = GhostLoop(vc, 'of-the-queue'), GhostLoop(vc, 'another')
    queue = GhostQueue(vc)
    have = vc.nondet(4, 'context: queue+loop set / neither / only the loop / only the queue')
    loop_var = CtxVar('event_queue_loop_var', qloop) if have in (0, 2) else CtxVar('event_queue_loop_var')
    queue_var = CtxVar('event_queue_var', queue) if have in (0, 3) else CtxVar('event_queue_var')
    where = vc.nondet(3, 'called from: the queue\'s loop / a thread without a loop / another loop')
    ref = Opaque('ref')
    type_, reason, message = vc.str('type'), vc.str('reason'), vc.str('message')

    def get_running_loop():
        if where == 1:
            raise RuntimeError('no running event loop')
        return qloop if where == 0 else other

    def run_coroutine_threadsafe(coro, loop):
        vc.emit('waiting-call', 'run_coroutine_threadsafe')
        return Opaque('future')
    ld = vc.load(POSTING, 'enqueue', stubs={
        'event_queue_loop_var': loop_var, 'event_queue_var': queue_var, 'asyncio.get_running_loop': get_running_loop,
        'asyncio.run_coroutine_threadsafe': run_coroutine_threadsafe})
    raised = None
    try:
        ld.fn(ref=ref, type=type_, reason=reason, message=message)
    except Exception as e:
        raised = e
    names = _names(vc.trace)
    vc.canary('canary.never_raises', raised is None)
    vc.ensure('never_waits', 'waiting-call' not in names)
    if have != 0:
        vc.ensure('no_queue_in_context_is_a_lookup_error', isinstance(raised, LookupError) and not queue.items
                  and not qloop.scheduled and not other.scheduled and 'call_soon' not in names)
        return ('no-context', have)
    vc.ensure('no_queue_in_context_is_a_lookup_error', raised is None)
    direct = list(queue.items)
    vc.canary('canary.always_direct', len(direct) == 1)
    if where == 0:
        vc.ensure('same_loop_puts_directly', len(direct) == 1 and not qloop.scheduled and not other.scheduled and 'call_soon' not in names)
    else:
        vc.ensure('foreign_thread_goes_through_the_queues_loop', not direct and 'call_soon' not in names)
        vc.ensure('foreign_thread_goes_through_the_queues_loop', len(qloop.scheduled) == 1 and not other.scheduled)
        for cb, args in qloop.scheduled:        # the loop of the queue runs what was handed to it
            cb(*args)
    vc.ensure('never_waits', 'waiting-call' not in _names(vc.trace))
    vc.ensure('one_event_with_the_given_fields', len(queue.items) == 1)
    for ev in queue.items:
        vc.ensure('one_event_with_the_given_fields', isinstance(ev, posting.K8sEvent) and ev.ref is ref)
        vc.ensure('one_event_with_the_given_fields', And(Eq(ev.type, type_), Eq(ev.reason, reason), Eq(ev.message, message)))
    return ('queued', where, len(queue.items))


# =============================================================================================== PO2
_A = {'apiVersion': 'kopf.dev/v1', 'kind': 'KopfExample', 'metadata': {'name': 'a', 'namespace': 'ns', 'uid': 'uid-a'}}
_B = {'apiVersion': 'v1', 'kind': 'Pod', 'metadata': {'name': 'b', 'namespace': 'ns', 'uid': 'uid-b'}}
_C = {'kind': 'Node', 'metadata': {'name': 'c'}}


class _SilentError(Exception):
    """an exception whose text is empty"""
    def __str__(self):
        return ''


@harness('PO2', targets=[f'{POSTING}.event', f'{POSTING}.info', f'{POSTING}.warn', f'{POSTING}.exception'], props=BOTH,
         clauses=['disabled_posts_nothing', 'level_gates_the_shortcuts', 'posted_when_enabled_and_level_allows',
                  'one_event_per_object_in_order', 'type_reason_message', 'exception_text_appended',
                  'exception_reason_defaults_to_its_class', 'exception_defaults_to_the_one_being_handled'],
         canaries=['canary.always_posts', 'canary.never_posts'],
         trusted=['dicts.walk by contract X8d (runs natively on concrete nestings of bodies)',
                  'bodies.build_object_reference by contract KC11 (contracts/w3_causes.py)', 'posting.enqueue by contract PO1',
                  'settings_var holds the operator\'s settings (running.spawn_tasks: U1.context_set_before_tasks)'])
def PO2(vc):
    """
    kopf.event(objs, type=, reason=, message='') and the shortcuts kopf.info / kopf.warn / kopf.exception
    (docs/events.rst; docs/configuration.rst "Logging events": "settings.posting.level ... The event-posting can be
    disabled completely ... These two settings also affect kopf.event and related functions: kopf.info, kopf.warn,
    kopf.exception -- even if they are called explicitly in the code"):
      * disabled_posts_nothing: with settings.posting.enabled false none of the four enqueues anything
        [not demanded of kopf.warn(), which ignores the switch: outside the 20 properties, see DESIGN.md section 7];
      * level_gates_the_shortcuts: info posts only if posting.level <= INFO, warn only if <= WARNING, exception only if
        <= ERROR; posted_when_enabled_and_level_allows: and they do post then (event(): whenever enabled -- its type
        is free text, there is no level to compare);
      * one_event_per_object_in_order: one enqueue per object of objs (one body, or any nesting of lists/tuples of
        bodies, flattened: dicts.walk), in order, each with the reference built from that very body;
      * type_reason_message: type is the given one for event(), 'Normal' / 'Warning' / 'Error' for the shortcuts; reason
        and message are the given ones (message defaults to '');
      * exception(): the text of the exception is appended to the message ("Some exception: Exception text." in
        docs/events.rst), or is the message when none is given (and the message alone when there is no exception); the
        reason defaults to the exception's class name; exc= defaults to the exception being handled.
    """
    which = ['event', 'info', 'warn', 'exception'][vc.nondet(4, 'event / info / warn / exception')]
    enabled, level = vc.bool('settings.posting.enabled'), vc.int('settings.posting.level')
    settings = Opaque('settings', posting=Opaque('settings.posting', enabled=enabled, level=level))
    shapes = [(_A, [_A]), ([], []), ([_A], [_A]), ([_B, _A], [_B, _A]), ((_A, [_C, (_B,)]), [_A, _C, _B])]
    objs, flat = shapes[vc.nondet(len(shapes), 'objs: one body / [] / [a] / [b, a] / nested')]
    refs, calls = {}, []

    def build_object_reference(body):
        refs[id(body)] = Opaque(f'ref-of-{body["metadata"]["name"]}')
        return refs[id(body)]

    def enqueue(**kw):
        calls.append(kw)
    vc.used('dicts.walk', 'X8d'); vc.used('bodies.build_object_reference', 'KC11'); vc.used('enqueue', 'PO1')
    ld = vc.load(POSTING, which, stubs={'settings_var': CtxVar('settings_var', settings), 'enqueue': enqueue,
                                        'bodies.build_object_reference': build_object_reference})
    reason = vc.str('reason')
    message = vc.str('message') if vc.nondet(2, 'message: omitted / given') == 1 else None
    kw = dict(reason=reason, **({} if message is None else {'message': message}))
    eff_message = '' if message is None else message
    exc = cur = None
    if which == 'event':
        type_ = vc.str('type')
        ld.fn(objs, type=type_, **kw)
        threshold, want_type = None, type_
    elif which == 'info':
        ld.fn(objs, **kw)
        threshold, want_type = logging.INFO, 'Normal'
    elif which == 'warn':
        ld.fn(objs, **kw)
        threshold, want_type = logging.WARNING, 'Warning'
    else:
        threshold, want_type = logging.ERROR, 'Error'
        texts = [RuntimeError('Exception text.'), _SilentError(), None]
        exc = texts[vc.nondet(3, 'exc=: with a text / with an empty text / not given')]
        cur = [None, ValueError('the one being handled')][vc.nondet(2, 'called outside / inside an except block')] if exc is None else None
        if vc.nondet(2, 'reason: given / omitted') == 1:
            del kw['reason']
            reason = ''
        if exc is not None:
            kw['exc'] = exc
        if cur is not None:
            try:
                raise cur
            except ValueError:
                ld.fn(objs, **kw)
        else:
            ld.fn(objs, **kw)
    posted = bool(calls)
    allowed = True if threshold is None else (level <= threshold)
    vc.canary('canary.always_posts', posted)
    vc.canary('canary.never_posts', not posted)
    if flat:
        # kopf.warn() does not look at posting.enabled (docs/configuration.rst says it should): a documentation
        # inconsistency OUTSIDE the 20 properties (neither C12 nor C20 constrains this switch), so it is not demanded
        # here and not recorded as a finding (DESIGN.md section 7, side observations)
        if which != 'warn':
            vc.ensure('disabled_posts_nothing', Implies(Not(enabled), not posted))
        vc.ensure('level_gates_the_shortcuts', Implies(posted, allowed))
        vc.ensure('posted_when_enabled_and_level_allows', Implies(And(enabled, allowed), posted))
    else:
        vc.ensure('disabled_posts_nothing', not posted)
    if not posted:
        return (which, 'nothing')
    vc.ensure('one_event_per_object_in_order', len(calls) == len(flat)
              and all(c.get('ref') is not None and c.get('ref') is refs.get(id(b)) for c, b in zip(calls, flat)))
    the_exc = exc if exc is not None else cur
    for c in calls:
        vc.ensure('type_reason_message', Eq(c['type'], want_type))
        if which != 'exception':
            vc.ensure('type_reason_message', And(Eq(c['reason'], reason), Eq(c['message'], eff_message)))
            continue
        has_reason = _truth(reason)
        vc.ensure('type_reason_message', Implies(has_reason, Eq(c['reason'], reason)))
        if the_exc is not None:
            vc.ensure('exception_reason_defaults_to_its_class', Implies(Not(has_reason), Eq(c['reason'], type(the_exc).__name__)))
            text = str(the_exc)
            vc.ensure('exception_text_appended', If(_truth(eff_message), Eq(c['message'], eff_message + ' ' + text), Eq(c['message'], text)))
        else:
            vc.ensure('exception_text_appended', Eq(c['message'], eff_message))
        if cur is not None:
            vc.ensure('exception_defaults_to_the_one_being_handled', Implies(Not(has_reason), Eq(c['reason'], 'ValueError')))
            vc.ensure('exception_defaults_to_the_one_being_handled',
                      If(_truth(eff_message), Eq(c['message'], eff_message + ' the one being handled'), Eq(c['message'], 'the one being handled')))
    return (which, 'posted', len(calls))


# =============================================================================================== PO3
@harness('PO3', targets=f'{POSTING}.poster', props=BOTH,
         clauses=['waits_for_the_events_resource_first', 'each_dequeued_event_posted_once_as_it_is', 'cancellation_propagates',
                  'never_returns'],
         canaries=['canary.posting_never_fails', 'canary.never_cancelled'],
         trusted=['references.Backbone.wait_for(selector): returns the resource once it is known, suspends before',
                  'asyncio.Queue.get(): suspends until an item is there, removes and returns it (FIFO)',
                  'events.post_event by contract NC4 (contracts/w3_clients.py): returns None; API / connection errors of the request '
                  'are logged and swallowed there; anything else (cancellation included) propagates unchanged'],
         replayable=False)
def PO3(vc):
    """
    posting.poster(event_queue, backbone, settings) -- a root task (U1.operator_tasks_present) that runs forever:
      * nothing is taken from the queue and nothing is posted before the cluster's core/v1 events resource is known
        (backbone.wait_for(EVENTS) has returned);
      * loop contract on `while True` (one arbitrary iteration): one item is taken from the queue (waiting while it is
        empty -- no polling), and exactly one post_event follows, carrying that item's ref / type / reason / message
        unchanged, THE events resource and the operator's settings; the errors of the API request are contained in
        post_event (NC4: logged, never raised -- events are auxiliary, C12), so the loop goes on to the next item;
      * the loop has no normal exit (NoReturn); a cancellation arriving at any await (operator exit, C20: root tasks are
        cancelled and must end within the grace period) is what ends the task, unswallowed; the events still queued at
        that moment are dropped with the process (nothing is posted after the cancellation).
    What an exception of post_event outside NC4's contained classes does to the poster is left open (failing fast, as the
    code does, and containing it are both consistent with C20 / C12).
    """
    settings, resource = Opaque('settings'), Opaque('the-events-resource')
    thrown = []

    async def wait_for(selector):
        vc.emit('wait_for', selector)
        await suspend('backbone.wait_for')
        vc.emit('wait_for.returned')
        return resource

    async def get():
        vc.emit('get')
        await suspend('queue.get')
        ev = posting.K8sEvent(ref=Opaque('ref'), type=vc.str('ev.type'), reason=vc.str('ev.reason'), message=vc.str('ev.message'))
        vc.emit('got', ev)
        return ev

    async def post_event(**kw):
        vc.emit('post_event', kw)
        await suspend('post_event')
        failed = vc.nondet(2, 'post_event: returns (posted, skipped or failure contained) / an unexpected error') == 1
        vc.canary('canary.posting_never_fails', not failed)
        vc.emit('post_event.ended', failed)
        if failed:
            thrown.append(_Other('unexpected'))
            raise thrown[-1]

    def on_suspend(site):
        if vc.nondet(2, f'cancelled at {site}?') == 1:
            thrown.append(asyncio.CancelledError())
            vc.emit('cancelled', site)
            return thrown[-1]
    backbone = Opaque('backbone', wait_for=wait_for)
    queue = Opaque('event_queue', get=get)

    def inv(loc):
        if not _in_loop(vc, 1):
            names = _names(vc.trace)
            vc.ensure('waits_for_the_events_resource_first', names == ['wait_for', 'wait_for.returned'])
            sel = vc.trace[0][1]
            vc.ensure('waits_for_the_events_resource_first', sel is posting.references.EVENTS)
            return True
        evs = _since_head(vc, 1)
        vc.ensure('each_dequeued_event_posted_once_as_it_is', _names(evs) == ['get', 'got', 'post_event', 'post_event.ended'])
        got, kw = evs[1][1], evs[2][1]
        vc.ensure('each_dequeued_event_posted_once_as_it_is', kw.get('ref') is got.ref and kw.get('resource') is resource
                  and kw.get('settings') is settings)
        vc.ensure('each_dequeued_event_posted_once_as_it_is',
                  And(Eq(kw.get('type'), got.type), Eq(kw.get('reason'), got.reason), Eq(kw.get('message'), got.message)))
        return True
    vc.used('events.post_event', 'NC4'); vc.used('Backbone.wait_for, asyncio.Queue.get', 'trusted')
    ld = vc.load(POSTING, 'poster', stubs={'events.post_event': post_event, 'logger': NullLogger()},
                 loops={1: LoopSpec('while True', invariant=inv,
                                    havoc=lambda loc: havoc_rest(vc, loc, ('event_queue', 'backbone', 'settings', 'resource')))})
    escaped, returned = None, False
    try:
        vc.drive(ld.fn(event_queue=queue, backbone=backbone, settings=settings), on_suspend=on_suspend)
        returned = True
    except (asyncio.CancelledError, _Other) as e:
        escaped = e
    names = _names(vc.trace)
    vc.ensure('never_returns', not returned)
    vc.canary('canary.never_cancelled', 'cancelled' not in names)
    if 'cancelled' in names:
        i = names.index('cancelled')
        vc.ensure('cancellation_propagates', isinstance(escaped, asyncio.CancelledError) and escaped is thrown[-1])
        vc.ensure('cancellation_propagates', not any(n in ('get', 'post_event') for n in names[i + 1:]))
    if 'wait_for.returned' not in names:
        vc.ensure('waits_for_the_events_resource_first', 'get' not in names and 'post_event' not in names)
    return ('ended', type(escaped).__name__, names[-3:])

# =============================================================================================== PO4
class _Record:
    """a logging.LogRecord as far as K8sPoster looks at it: plain attributes, some of them absent"""
    def __repr__(self):
        return '<log-record>'


_PO4_CLAUSES = ['needs_settings_and_object_reference', 'disabled_never_posts', 'loggers_are_opt_in', 'level_threshold',
                'skip_flag_respected', 'attached_filters_respected', 'posted_otherwise']


@harness('PO4', targets=f'{POSTING}.K8sPoster.filter', props=BOTH, clauses=_PO4_CLAUSES,
         canaries=['canary.never_posts', 'canary.always_posts'],
         trusted=['logging.Handler.filter(record): truthy iff every filter attached to the handler lets the record pass'])
def PO4(vc):
    """
    K8sPoster.filter(record) -- which log records of the object loggers become k8s-events (docs/configuration.rst
    "Logging events"; loggers.LocalObjectLogger "does not post the messages as k8s-events").  A record is let through
    IFF all of: it carries the operator's settings and an object reference (i.e. it was made by an ObjectLogger: PO8);
    settings.posting.enabled; settings.posting.loggers ("By default, log messages made by the handlers on their logger
    are not posted as k8s-events" -- opt-in); record.levelno >= settings.posting.level; it is not marked k8s_skip (the
    resource-watching and indexing loggers); and the filters attached to the handler accept it.  Each "only if" is a
    clause of its own; `posted_otherwise` is the "if".
    """
    rec = _Record()
    levelno = rec.levelno = vc.int('record.levelno')
    sk = vc.nondet(3, 'record.settings: absent / None / the settings')
    enabled, on_loggers, level = vc.bool('posting.enabled'), vc.bool('posting.loggers'), vc.int('posting.level')
    if sk == 1:
        rec.settings = None
    elif sk == 2:
        rec.settings = Opaque('settings', posting=Opaque('settings.posting', enabled=enabled, loggers=on_loggers, level=level))
    has_ref = vc.nondet(2, 'record.k8s_ref: absent / present') == 1
    if has_ref:
        rec.k8s_ref = {'kind': 'KopfExample', 'name': 'x'}
    kk = vc.nondet(2, 'record.k8s_skip: absent / present')
    skip = vc.bool('record.k8s_skip') if kk == 1 else False
    if kk == 1:
        rec.k8s_skip = skip
    base_ok = vc.bool('Handler.filter(record)')
    seen = []

    def base_filter(record):
        seen.append(record)
        return base_ok
    ld = vc.load(POSTING, 'K8sPoster.filter', stubs={'super': lambda: Opaque('logging.Handler', filter=base_filter)})
    this = Opaque('the-handler')
    result = _truth(ld.fn(this, rec))
    vc.canary('canary.never_posts', Not(result))
    vc.canary('canary.always_posts', result)
    vc.ensure('needs_settings_and_object_reference', Implies(result, sk == 2 and has_ref))
    vc.ensure('disabled_never_posts', Implies(result, enabled))
    vc.ensure('loggers_are_opt_in', Implies(result, on_loggers))
    vc.ensure('level_threshold', Implies(result, levelno >= level))
    vc.ensure('skip_flag_respected', Implies(result, Not(skip)))
    vc.ensure('attached_filters_respected', Implies(result, base_ok))
    vc.ensure('attached_filters_respected', all(r is rec for r in seen))
    vc.ensure('posted_otherwise', Implies(And(sk == 2 and has_ref, enabled, on_loggers, levelno >= level, Not(skip), base_ok), result))
    return ('filter', sk, has_ref, kk)


# =============================================================================================== PO5
@harness('PO5', targets=f'{POSTING}.K8sPoster.emit', props=BOTH,
         clauses=['one_event_for_the_records_object', 'type_by_level', 'reason_is_logging', 'message_is_the_formatted_record',
                  'never_breaks_the_logging_call'],
         canaries=['canary.always_enqueued', 'canary.always_normal'],
         trusted=['posting.enqueue by contract PO1 (LookupError when the logging thread/task has no queue in its context)',
                  'logging.Handler.format / handleError (report to stderr, never raise unless logging.raiseExceptions policy says so)'])
def PO5(vc):
    """
    K8sPoster.emit(record) -- a log record of an object logger becomes one queued k8s-event:
      * for the object the record refers to (record.k8s_ref, set by ObjectLogger), exactly one enqueue;
      * its type follows the record's level the way kopf.info / kopf.warn / kopf.exception name theirs (docs/events.rst):
        DEBUG and below 'Debug', up to INFO 'Normal', up to WARNING 'Warning', up to ERROR 'Error', up to CRITICAL 'Fatal'
        (custom levels above that: their capitalised level name);
      * the reason is 'Logging' (docs/events.rst: the framework's own messages), the message is the record as formatted
        by this handler;
      * no exception of the formatting or of the queueing (LookupError: no queue in the context of the thread/task that
        logs; anything else) escapes into the code that merely wrote a log line (C12: events are auxiliary, they never
        break the handling): it goes to handleError(record), as in every logging.Handler, and nothing is queued.
    """
    rec = _Record()
    levelno = rec.levelno = vc.int('record.levelno')
    ref = Opaque('k8s_ref')
    if vc.nondet(2, 'record.k8s_ref: present (guaranteed by filter) / absent') == 0:
        rec.k8s_ref = ref
    fails = vc.nondet(4, 'all fine / format() fails / enqueue: LookupError (no queue) / enqueue: another error')
    formatted = vc.str('formatted')
    calls, handled = [], []

    class Handler:
        def format(self, record):
            vc.emit('format', record)
            if fails == 1:
                raise _Other('bad format string')
            return formatted

        def handleError(self, record):
            handled.append(record)

    def enqueue(**kw):
        if fails == 2:
            raise LookupError('event_queue_var')
        if fails == 3:
            raise _Other('enqueue failed')
        calls.append(kw)

    class LevelName:
        def __init__(self, lv): self.lv = lv
        def capitalize(self): return ('capitalised-name-of', self.lv)
    vc.used('enqueue', 'PO1')
    ld = vc.load(POSTING, 'K8sPoster.emit', stubs={'enqueue': enqueue, 'logging.getLevelName': LevelName})
    this = Handler()
    raised = None
    try:
        ld.fn(this, rec)
    except Exception as e:
        raised = e
    vc.ensure('never_breaks_the_logging_call', raised is None)
    broken = fails != 0 or not hasattr(rec, 'k8s_ref')
    vc.canary('canary.always_enqueued', len(calls) == 1)
    if broken:
        vc.ensure('never_breaks_the_logging_call', not calls and len(handled) == 1 and handled[0] is rec)
        return ('contained', fails)
    vc.ensure('never_breaks_the_logging_call', not handled)
    vc.ensure('one_event_for_the_records_object', len(calls) == 1 and calls[0].get('ref') is ref)
    kw = calls[0]
    t = kw.get('type')
    if isinstance(t, tuple):
        vc.ensure('type_by_level', And(levelno > logging.CRITICAL, t[1] is levelno))
    else:
        vc.ensure('type_by_level', Eq(t, If(levelno <= logging.DEBUG, 'Debug', If(levelno <= logging.INFO, 'Normal',
                                   If(levelno <= logging.WARNING, 'Warning', If(levelno <= logging.ERROR, 'Error', 'Fatal'))))))
        vc.ensure('type_by_level', levelno <= logging.CRITICAL)
    vc.canary('canary.always_normal', t == 'Normal')
    vc.ensure('reason_is_logging', Eq(kw.get('reason'), 'Logging'))
    vc.ensure('message_is_the_formatted_record', Eq(kw.get('message'), formatted)
              and [ev for ev in vc.trace if ev[0] == 'format'] == [('format', rec)])
    return ('queued', t if isinstance(t, str) else 'custom')

# =============================================================================================== PO6 / PO7
class _Response:
    """aiohttp.web.json_response(data) by contract: the response body is the JSON of `data` as it is at the call"""
    def __init__(self, data):
        self.data, self.body = data, dict(data)


class _ProbeFailed(Exception):
    """activities.ActivityError stand-in: a probe handler failed"""


class ReporterEnv:
    """health_reporter's collaborators by contract (aiohttp.web is third-party and trusted as stated):
      Application().add_routes([get(path, handler)]): GET requests to `path` are answered by awaiting handler(request);
      AppRunner(app).setup() prepares, TCPSite(runner, host, port).start() binds and listens (either may fail with OSError:
      address in use), AppRunner.cleanup() stops listening and closes the connections; all three are awaits (cancellable);
      asyncio.Lock: `async with` takes it at once when free, waits while another task holds it, frees it on every exit;
      a fresh asyncio.Event().wait() never returns, it can only be cancelled; asyncio.shield(aw) awaits aw;
      datetime.now(utc) is the wall clock (monotone here), advancing only across awaits."""

    def __init__(self, vc, *, serve=None, startup_faults=False):
        self.vc, self.serve, self.startup_faults = vc, serve, startup_faults
        self.clock = Clock('t')
        self.periods, self.routes, self.handler, self.runs, self.thrown = [], [], None, [], []
        self.registry, self.settings, self.indices, self.memo = Opaque('registry'), Opaque('settings'), Opaque('indices'), Opaque('memo')
        self.next_outcome = lambda n: ('ok', {})
        env = self

        class DT:
            class timezone:
                utc = 'UTC'

            @staticmethod
            def timedelta(**kw):
                td = STd(kw.pop('seconds', 0), **kw)
                env.periods.append(td)
                return td

            class datetime:
                @staticmethod
                def now(tz=None):
                    return SDt(env.clock.now)
        self.DT = DT

        class App:
            def __init__(self):
                vc.emit('app.created', self)

            def add_routes(self, routes):
                routes = list(routes)
                env.routes.extend(routes)
                vc.emit('add_routes', self, routes)

        def web_get(path, handler, **kw):
            return ('GET', path, handler)

        class Runner:
            def __init__(self, app, **kw):
                self.app, self.kw = app, kw
                vc.emit('runner.created', self, app)

            async def setup(self):
                vc.emit('runner.setup', self)
                await env.startup_step('runner.setup')
                vc.emit('runner.setup.returned')

            async def cleanup(self):
                vc.emit('cleanup', self)
                await suspend('runner.cleanup')
                vc.emit('cleanup.returned')

        class Site:
            def __init__(self, runner, host=None, port=None, **kw):
                self.runner, self.host, self.port = runner, host, port
                vc.emit('site.created', self)

            async def start(self):
                vc.emit('site.start', self)
                await env.startup_step('site.start')
                vc.emit('site.start.returned')

        class Lock:
            def __init__(self):
                self.locked = False

            async def __aenter__(self):
                while self.locked:
                    vc.emit('lock.wait')
                    await Suspend('lock.wait')
                self.locked = True

            async def __aexit__(self, *exc):
                self.locked = False
                vc.emit('lock.released')

        class Forever:
            async def wait(self):
                vc.emit('sleeping')
                if env.serve is not None:
                    for route in env.routes:
                        env.handler = route[2]
                    await env.serve(env)
                await suspend('forever')
                raise AssertionError('a fresh event that nobody sets cannot be awaited to completion')

        async def shield(aw):
            vc.emit('shield.enter')
            try:
                return await aw
            finally:
                vc.emit('shield.exit')

        async def run_activity(**kw):
            n = len(env.runs)
            run = dict(kw=kw, t0=env.clock.now, result=None, error=None, t1=None)
            env.runs.append(run)
            vc.emit('run_activity', n)
            await suspend('run_activity')
            env.clock.advance()
            if env.during_run is not None:
                hook, env.during_run = env.during_run, None
                hook()
            kind, results = env.next_outcome(n)
            run['t1'] = env.clock.now
            vc.emit('run_activity.ended', n)
            if kind == 'fail':
                run['error'] = _ProbeFailed(f'run {n}')
                raise run['error']
            run['result'] = results
            return results
        self.during_run = None
        self.stubs = {
            'datetime': DT, 'aiohttp.web.Application': App, 'aiohttp.web.get': web_get, 'aiohttp.web.AppRunner': Runner,
            'aiohttp.web.TCPSite': Site, 'aiohttp.web.json_response': _Response, 'asyncio.Lock': Lock, 'asyncio.Event': Forever,
            'asyncio.shield': shield, 'activities.run_activity': run_activity, 'logger': NullLogger()}

    async def startup_step(self, site):
        await suspend(site)
        if self.startup_faults and self.vc.nondet(2, f'{site}: ok / OSError (address in use)') == 1:
            self.thrown.append(OSError(site))
            raise self.thrown[-1]

    def on_suspend(self, site):
        if site == 'forever':
            self.thrown.append(asyncio.CancelledError())      # the only way out of the sleep
            self.vc.emit('cancelled', site)
            return self.thrown[-1]
        if site in ('runner.setup', 'site.start', 'runner.cleanup') and self.startup_faults \
                and self.vc.nondet(2, f'cancelled at {site}?') == 1:
            self.thrown.append(asyncio.CancelledError())
            self.vc.emit('cancelled', site)
            return self.thrown[-1]

    def run(self, endpoint, ready_flag):
        vc = self.vc
        ld = vc.load(PROBING, 'health_reporter', stubs=self.stubs)
        escaped, returned = None, False
        try:
            vc.drive(ld.fn(endpoint, memo=self.memo, indices=self.indices, registry=self.registry, settings=self.settings,
                           ready_flag=ready_flag), on_suspend=self.on_suspend)
            returned = True
        except BaseException as e:
            if isinstance(e, (PathEnd, Unsupported, AssertionError)):
                raise
            escaped = e
        return returned, escaped


@harness('PO6', targets=f'{PROBING}.health_reporter', props=['C20'],
         clauses=['only_http_endpoints', 'serves_the_given_endpoint', 'ready_only_when_listening', 'runs_until_cancelled',
                  'stops_reporting_on_every_exit', 'startup_failure_propagates', 'os_signals_left_to_the_operator'],
         canaries=['canary.always_ready', 'canary.always_listening', 'canary.cleanup_always_completes'],
         trusted=['aiohttp.web Application / AppRunner / TCPSite / get, asyncio.Event / shield, urllib.parse.urlsplit (runs natively): '
                  'as stated in ReporterEnv'])
def PO6(vc):
    """
    probing.health_reporter(endpoint, ..., ready_flag=None) -- a root task of the operator when --liveness is given (U1):
      * only_http_endpoints: "Currently, only HTTP is supported" (docs/probing.rst): any other scheme is refused with an
        error before anything is created, started or flagged;
      * serves_the_given_endpoint: one GET route on the endpoint's path; the listener binds the endpoint's host and port
        (the module's LOCALHOST / HTTP_PORT defaults when the URL leaves them out); the runner that is set up is the one
        the site listens with, over the application holding that route;
      * ready_only_when_listening: the ready flag (if given) is raised only after setup() and start() have both returned
        -- the endpoint accepts connections -- and it IS raised by then (before the task goes to sleep);
      * runs_until_cancelled: no normal return; once listening it sleeps until cancelled and the cancellation propagates;
      * stops_reporting_on_every_exit: once the site has been started, whatever ends the task, runner.cleanup() is awaited
        exactly once, inside asyncio.shield (a second cancellation hits the shield, not the cleanup), and nothing follows;
      * os_signals_left_to_the_operator: the web runner is not asked to handle OS signals (AppRunner(handle_signals=True) would
        replace the operator's own SIGINT/SIGTERM handlers -- U1.signals_hooked_in_main_thread_only -- by aiohttp's, which
        raise GracefulExit inside the loop instead of setting the stop flag: no orderly shutdown, C20);
      * startup_failure_propagates: an OSError of setup()/start() (port taken) or a cancellation there ends the task
        with that exception -- fail-fast for a root task (C20) -- and the flag is never raised.
    """
    from kopf._core.engines import probing
    cases = [('http://0.0.0.0:8080/healthz', '0.0.0.0', 8080, '/healthz'), ('http://probe.local/healthz', 'probe.local', probing.HTTP_PORT, '/healthz'),
             ('http://:9090/', probing.LOCALHOST, 9090, '/'), ('https://0.0.0.0:8443/healthz', None, None, None),
             ('tcp://0.0.0.0:8080', None, None, None), ('0.0.0.0:8080/healthz', None, None, None)]
    endpoint, host, port, path = cases[vc.nondet(len(cases), 'endpoint')]
    flag = None
    if vc.nondet(2, 'ready_flag: given / None') == 0:
        flag = Opaque('ready_flag')
        flag.set = lambda: vc.emit('ready.set')
    env = ReporterEnv(vc, startup_faults=True)
    returned, escaped = env.run(endpoint, flag)
    tr, names = vc.trace, _names(vc.trace)
    vc.ensure('runs_until_cancelled', not returned and escaped is not None)
    if host is None:
        vc.ensure('only_http_endpoints', isinstance(escaped, Exception) and not names)
        return ('refused', endpoint)
    vc.ensure('only_http_endpoints', not (isinstance(escaped, Exception) and not names))
    listening = 'site.start.returned' in names
    vc.canary('canary.always_listening', listening)
    vc.canary('canary.always_ready', 'ready.set' in names)
    # -- what is served, where
    added = [ev for ev in tr if ev[0] == 'add_routes']
    vc.ensure('serves_the_given_endpoint', len(added) == 1 and len(env.routes) == 1 and env.routes[0][:2] == ('GET', path)
              and callable(env.routes[0][2]))
    for ev in tr:
        if ev[0] == 'runner.created':
            vc.ensure('os_signals_left_to_the_operator', not ev[1].kw.get('handle_signals', False))
    sites = [ev[1] for ev in tr if ev[0] == 'site.created']
    setups = [ev[1] for ev in tr if ev[0] == 'runner.setup']
    if 'site.start' in names:
        started = [ev[1] for ev in tr if ev[0] == 'site.start']
        vc.ensure('serves_the_given_endpoint', len(started) == 1 and started[0] in sites and started[0].host == host and started[0].port == port)
        vc.ensure('serves_the_given_endpoint', len(setups) == 1 and started[0].runner is setups[0] and setups[0].app is added[0][1]
                  and 'runner.setup.returned' in names and names.index('runner.setup.returned') < names.index('site.start')
                  and names.index('add_routes') < names.index('runner.setup'))
    # -- readiness
    if 'ready.set' in names:
        vc.ensure('ready_only_when_listening', flag is not None and listening and names.index('site.start.returned') < names.index('ready.set'))
    if 'sleeping' in names:
        vc.ensure('ready_only_when_listening', listening and (flag is None or names.count('ready.set') == 1
                                                                and names.index('ready.set') < names.index('sleeping')))
        vc.ensure('runs_until_cancelled', isinstance(escaped, asyncio.CancelledError))
    # -- the exit
    if not listening:
        vc.ensure('startup_failure_propagates', escaped is env.thrown[0] and 'ready.set' not in names and 'sleeping' not in names)
        return ('startup-failed', type(escaped).__name__)
    vc.ensure('runs_until_cancelled', 'sleeping' in names and escaped is env.thrown[-1])
    cleanups = [i for i, n in enumerate(names) if n == 'cleanup']
    vc.ensure('stops_reporting_on_every_exit', len(cleanups) == 1)
    vc.canary('canary.cleanup_always_completes', 'cleanup.returned' in names)
    if cleanups:
        i = cleanups[0]
        vc.ensure('stops_reporting_on_every_exit', tr[i][1] is setups[0] and names.index('cancelled') < i
                  and names[:i].count('shield.enter') == 1 and names[:i].count('shield.exit') == 0 and 'shield.exit' in names[i:])
        vc.ensure('stops_reporting_on_every_exit', all(n in ('cleanup.returned', 'shield.exit', 'cancelled') for n in names[i + 1:]))
    return ('served', type(escaped).__name__, names[-2:])


def _step(env, co):
    """Run a request task (a coroutine of the probe handler) until it is blocked on the lock ('blocked', None) or has
    ended ('done', response) / ('raised', exception); its other suspensions just let time pass."""
    while True:
        try:
            y = co.send(None)
        except StopIteration as e:
            return 'done', e.value
        except _ProbeFailed as e:
            return 'raised', e
        if not isinstance(y, Suspend):
            raise Unsupported(f'the probe handler awaited a real awaitable: {y!r}')
        if y.site == 'lock.wait':
            return 'blocked', None


def _same_body(resp, results):
    return isinstance(resp, _Response) and set(resp.body) == set(results) and all(resp.body[k] is results[k] for k in results)


@harness('PO7', targets=f'{PROBING}.health_reporter.get_health', props=['C20'],
         clauses=['caching_period_positive', 'first_request_runs_the_probes', 'probe_activity_with_the_operators_context',
                  'cached_within_the_period', 'refreshed_after_the_period', 'response_is_the_latest_results',
                  'failed_run_is_not_cached', 'parallel_requests_share_one_run', 'lock_released_on_every_exit'],
         canaries=['canary.always_cached', 'canary.never_cached', 'canary.probes_never_fail'],
         trusted=['activities.run_activity by contract U2a (results by handler id, or ActivityError when a probe handler failed)',
                  'aiohttp.web / asyncio.Lock / datetime as stated in ReporterEnv',
                  'the handler is reached the way PO6 registers it: awaited once per GET request, concurrently for parallel requests'])
def PO7(vc):
    """
    The liveness handler get_health that health_reporter registers (docs/probing.rst: "The probe handlers will be executed
    on requests to the liveness URL, and the results will be cached for a reasonable time to prevent overloading from
    mass-requesting the status.  The handler results will be reported as the content of the liveness response"), driven
    through the real health_reporter while it sleeps.  P := the one caching period the reporter declares
    (caching_period_positive: exactly one, > 0).
    Scenario `sequential`: request 1 (no data yet), then request 2 any time later:
      * first_request_runs_the_probes: request 1 runs the PROBE activity exactly once -- with all_at_once and the operator's
        registry / settings / indices / memo (probe_activity_with_the_operators_context);
      * cached_within_the_period: request 2 arriving less than P after the refreshing run was started runs nothing and answers
        with the same results; refreshed_after_the_period: arriving more than P after that run completed, it runs the activity
        exactly once more (in between -- whether the age counts from the start or the end of a run -- either is fine);
      * response_is_the_latest_results: every response is exactly the results of the latest completed run (keys of an older
        run are gone; an empty result gives an empty response);
      * failed_run_is_not_cached: a run that raised (a probe handler failed) propagates to the request and is not taken for a
        refresh: the next request runs the probes again, whenever it comes.
    Scenario `parallel`: request B arrives while request A is inside the activity:
      * parallel_requests_share_one_run: B starts no second run while A's is in progress (it waits), and if it gets its turn
        less than P after A's run was started it runs nothing and answers with A's results;
      * lock_released_on_every_exit: B does get its turn when A's run ends -- also when it ends with an error (then B runs
        the probes itself).
    """
    parallel = vc.nondet(2, 'scenario: sequential / parallel') == 1
    out = {}
    r1 = [{'now': Opaque('now#1'), 'gone': Opaque('gone#1')}, {}][vc.nondet(2, 'results of run 1: two entries / empty')]
    r2 = [{'now': Opaque('now#2')}, {}][vc.nondet(2, 'results of run 2: one entry / empty')]
    kinds = ['ok', 'fail'][vc.nondet(2, 'run 1: returns / a probe handler failed')], 'ok'

    def next_outcome(n):
        return (kinds[n], (r1, r2)[n]) if n < 2 else ('ok', {'unexpected': Opaque('third run')})

    async def request(env, tag):
        t = env.clock.now
        try:
            resp = await env.handler(Opaque(f'request-{tag}'))
            out[tag] = ('done', resp, t)
        except _ProbeFailed as e:
            out[tag] = ('raised', e, t)

    async def serve(env):
        if not parallel:
            await request(env, 'A')
            out['A.runs'] = len(env.runs)
            await suspend('between requests')
            env.clock.advance()
            n = len(env.runs)
            await request(env, 'B')
            out['B.runs'] = len(env.runs) - n
            return
        # request B arrives while A is inside the activity: it runs until it has to wait (or ends, if nothing makes it wait)
        def arrival():
            co = env.handler(Opaque('request-B'))
            out['B.co'], out['B.first'] = co, _step(env, co)
            out['B.runs.during'] = len(env.runs) - 1
        env.during_run = arrival
        await request(env, 'A')
        out['A.runs'] = len(env.runs)
        await suspend('A answered')
        env.clock.advance()
        out['B.turn'] = env.clock.now
        out['B.second'] = _step(env, out['B.co']) if out['B.first'][0] == 'blocked' else out['B.first']
    env = ReporterEnv(vc, serve=serve)
    env.next_outcome = next_outcome
    vc.used('activities.run_activity', 'U2a')
    returned, escaped = env.run('http://0.0.0.0:8080/healthz', None)
    vc.ensure('caching_period_positive', len(env.periods) == 1 and isinstance(escaped, asyncio.CancelledError) and 'A' in out)
    P = env.periods[0].s
    vc.ensure('caching_period_positive', P > 0)
    runs = env.runs
    vc.canary('canary.probes_never_fail', kinds[0] == 'ok')
    # -- request A: no data yet
    first_runs = out['A.runs'] - (out['B.runs.during'] if parallel else 0)
    vc.ensure('first_request_runs_the_probes', len(runs) >= 1 and first_runs == 1 and runs[0]['t1'] is not None)
    for run in runs:
        kw = run['kw']
        vc.ensure('probe_activity_with_the_operators_context', kw.get('activity') is causes.Activity.PROBE
                  and kw.get('lifecycle') is lifecycles.all_at_once and kw.get('registry') is env.registry
                  and kw.get('settings') is env.settings and kw.get('indices') is env.indices and kw.get('memo') is env.memo)
    a_kind, a_val, _ = out['A']
    if kinds[0] == 'ok':
        vc.ensure('response_is_the_latest_results', a_kind == 'done' and _same_body(a_val, r1))
    else:
        vc.ensure('failed_run_is_not_cached', a_kind == 'raised' and a_val is runs[0]['error'])
    started_at, refreshed_at = runs[0]['t0'], runs[0]['t1']
    if not parallel:
        b_kind, b_val, t_b = out['B']
        n_b = out['B.runs']
        if kinds[0] == 'fail':
            vc.ensure('failed_run_is_not_cached', n_b == 1 and b_kind == 'done' and _same_body(b_val, r2))
            return ('sequential', 'failed-then', n_b)
        vc.canary('canary.always_cached', n_b == 0)
        vc.canary('canary.never_cached', n_b == 1)
        vc.ensure('cached_within_the_period', Implies(t_b - started_at < P, n_b == 0))
        vc.ensure('refreshed_after_the_period', Implies(t_b - refreshed_at > P, n_b == 1))
        vc.ensure('refreshed_after_the_period', n_b <= 1)
        vc.ensure('response_is_the_latest_results', b_kind == 'done' and _same_body(b_val, r2 if n_b else r1))
        return ('sequential', n_b, sorted(b_val.body) if b_kind == 'done' else None)
    # -- parallel
    vc.ensure('parallel_requests_share_one_run', out['B.runs.during'] == 0 and out['B.first'][0] == 'blocked')
    b_kind, b_val = out['B.second']
    vc.ensure('lock_released_on_every_exit', b_kind != 'blocked')
    n_b = len(runs) - 1
    if kinds[0] == 'fail':
        vc.ensure('failed_run_is_not_cached', n_b == 1 and b_kind == 'done' and _same_body(b_val, r2))
        return ('parallel', 'failed-then', n_b)
    vc.ensure('parallel_requests_share_one_run', Implies(out['B.turn'] - started_at < P, n_b == 0))
    vc.ensure('refreshed_after_the_period', Implies(out['B.turn'] - refreshed_at > P, n_b == 1))
    vc.ensure('response_is_the_latest_results', b_kind == 'done' and _same_body(b_val, r2 if n_b else r1))
    return ('parallel', n_b, sorted(b_val.body) if b_kind == 'done' else None)


# =============================================================================================== PO8
@harness('PO8', targets=[f'{LOGGERS}.ObjectLogger.__init__', f'{LOGGERS}.ObjectLogger.process', f'{LOGGERS}.LocalObjectLogger.log',
                         f'{LOGGERS}.TerseObjectLogger.isEnabledFor'], props=BOTH,
         clauses=['init.record_carries_settings_and_object', 'process.adapter_extras_reach_the_record', 'process.message_extras_win',
                  'process.nothing_else_changes', 'local.marked_to_skip_posting', 'local.delegates_unchanged',
                  'terse.warnings_and_errors_as_usual', 'terse.one_step_quieter_below_warning'],
         canaries=['canary.process_extra_always_empty', 'canary.local_never_skips', 'canary.terse_same_as_usual'],
         trusted=['logging.LoggerAdapter: log(level, msg, *args, **kw) is, when isEnabledFor(level), logger.log(level, *process(msg, kw)); the '
                  'items of `extra` become attributes of the record; isEnabledFor(level) of the underlying logger is level >= its '
                  'effective level'])
def PO8(vc):
    """
    The object loggers as far as K8sPoster (PO4/PO5) depends on them:
      init     ObjectLogger(body=, settings=) wraps THE 'kopf.objects' logger (the one K8sPoster is attached to) with the extras
               settings = the operator's settings, k8s_skip = False and k8s_ref = {apiVersion, kind, name, uid, namespace} taken
               from the body (None where the body has none; a body without metadata is fine);
      process  every record gets the adapter's extras AND the extras of the individual logging call, the call's winning on a
               conflict ("we merge them, so that both message's & adapter's extras are available"); the message and the other
               keyword arguments pass unchanged; neither the adapter's nor the caller's dict is modified;
      local    LocalObjectLogger.log(...) "does not post the messages as k8s-events": whatever extras the caller gave, the call
               goes on with k8s_skip = True in them (the caller's other extras kept, its dict untouched) and otherwise the same
               arguments -- so that after `process` the record says k8s_skip = True (what PO4.skip_flag_respected looks at)
               and still carries the settings and the object reference;
      terse    TerseObjectLogger.isEnabledFor(level): warnings and above are enabled exactly as for the underlying logger; anything
               below WARNING only if the underlying logger is one step (10) more verbose than the level ("In the normal mode,
               only logs warnings & errors (but not infos). In the verbose mode, ... infos (but not debugs)").
    """
    from kopf._core.actions import loggers
    scenario = ['init', 'process', 'local', 'terse'][vc.nondet(4, 'init / process / local / terse')]
    S, R = Opaque('settings'), Opaque('k8s_ref')
    adapter_extra = dict(settings=S, k8s_skip=False, k8s_ref=R)
    if scenario == 'init':
        made = []
        body = [dict(_A), dict(_C), {'kind': 'Namespace'}][vc.nondet(3, 'body: full / cluster-scoped without apiVersion / no metadata')]
        ld = vc.load(LOGGERS, 'ObjectLogger.__init__', stubs={'super': lambda: Opaque('LoggerAdapter', __init__=lambda *a, **kw: made.append((a, kw)))})
        ld.fn(Opaque('self'), body=body, settings=S)
        vc.ensure('init.record_carries_settings_and_object', len(made) == 1 and not made[0][1] and len(made[0][0]) == 2
                  and made[0][0][0] is loggers.logger and loggers.logger.name == 'kopf.objects')
        extra = made[0][0][1]
        meta = body.get('metadata', {})
        vc.ensure('init.record_carries_settings_and_object', set(extra) == {'settings', 'k8s_skip', 'k8s_ref'} and extra['settings'] is S
                  and extra['k8s_skip'] is False)
        vc.ensure('init.record_carries_settings_and_object', extra['k8s_ref'] == dict(
            apiVersion=body.get('apiVersion'), kind=body.get('kind'), name=meta.get('name'), uid=meta.get('uid'), namespace=meta.get('namespace')))
        return ('init', sorted(k for k, v in extra['k8s_ref'].items() if v is not None))
    custom = Opaque('custom-value')
    call_extras = [('absent', None), ('None', None), ('empty', {}), ('custom', {'custom': custom}), ('skip', {'k8s_skip': True, 'custom': custom}),
                   ('unskip', {'k8s_skip': False})]
    if scenario == 'process':
        own = [None, {}, dict(adapter_extra)][vc.nondet(3, 'adapter extra: None / {} / settings+skip+ref')]
        tag, given = call_extras[vc.nondet(5, 'call extra: absent / None / {} / custom / skip+custom')]
        own_before, given_before = (None if own is None else dict(own)), (None if given is None else dict(given))
        exc_info = Opaque('exc_info')
        kwargs = {'exc_info': exc_info, **({} if tag == 'absent' else {'extra': given})}
        msg = vc.str('msg')
        ld = vc.load(LOGGERS, 'ObjectLogger.process')
        out_msg, out_kw = ld.fn(Opaque('adapter', extra=own), msg, kwargs)
        merged = out_kw.get('extra')
        vc.canary('canary.process_extra_always_empty', not merged)
        vc.ensure('process.nothing_else_changes', And(Eq(out_msg, msg), set(out_kw) == {'exc_info', 'extra'} and out_kw['exc_info'] is exc_info
                                                       and isinstance(merged, dict)))
        vc.ensure('process.nothing_else_changes', own == own_before and given == given_before and merged is not own)
        vc.ensure('process.nothing_else_changes', set(merged) == set(own or {}) | set(given or {}))
        for k, v in (given or {}).items():
            vc.ensure('process.message_extras_win', k in merged and merged[k] is v)
        for k, v in (own or {}).items():
            if k not in (given or {}):
                vc.ensure('process.adapter_extras_reach_the_record', k in merged and merged[k] is v)
        if not own:
            vc.ensure('process.adapter_extras_reach_the_record', set(merged) == set(given or {}))
        return ('process', tag, sorted(merged))
    if scenario == 'local':
        tag, given = call_extras[[0, 2, 3, 4, 5][vc.nondet(5, 'call extra: absent / {} / custom / skip+custom / unskip')]]
        given_before = None if given is None else dict(given)
        ld_p = vc.load(LOGGERS, 'ObjectLogger.process')
        this = Opaque('local-logger', extra=dict(adapter_extra))
        seen = []

        def adapter_log(level, msg, *args, **kw):          # logging.LoggerAdapter.log by contract
            seen.append((level, msg, args, dict(kw)))
            return seen.append(('processed',) + tuple(ld_p.fn(this, msg, kw)))
        ld = vc.load(LOGGERS, 'LocalObjectLogger.log', stubs={'super': lambda: Opaque('ObjectLogger', log=adapter_log)})
        level, msg, arg, stack = vc.int('level'), vc.str('msg'), Opaque('arg'), Opaque('stack_info')
        ld.fn(this, level, msg, arg, stack_info=stack, **({} if tag == 'absent' else {'extra': given}))
        vc.ensure('local.delegates_unchanged', len(seen) == 2 and seen[0][0] is level and seen[0][1] is msg and seen[0][2] == (arg,)
                  and set(seen[0][3]) == {'stack_info', 'extra'} and seen[0][3]['stack_info'] is stack)
        passed = seen[0][3]['extra']
        vc.canary('canary.local_never_skips', passed.get('k8s_skip') is not True)
        vc.ensure('local.marked_to_skip_posting', passed.get('k8s_skip') is True)
        vc.ensure('local.delegates_unchanged', given == given_before and passed is not given
                  and all(k in passed and passed[k] is v for k, v in (given or {}).items() if k != 'k8s_skip')
                  and set(passed) == set(given or {}) | {'k8s_skip'})
        final = seen[1][2]['extra']
        vc.ensure('local.marked_to_skip_posting', final.get('k8s_skip') is True and final.get('settings') is S and final.get('k8s_ref') is R)
        vc.ensure('local.marked_to_skip_posting', this.extra == adapter_extra)      # the adapter itself stays unmarked ...
        return ('local', tag, sorted(final))
    level, effective = vc.int('level'), vc.int('effective level of the underlying logger')
    asked = []

    def usual(lv):
        asked.append(lv)
        return lv >= effective
    ld = vc.load(LOGGERS, 'TerseObjectLogger.isEnabledFor', stubs={'super': lambda: Opaque('LocalObjectLogger', isEnabledFor=usual)})
    result = _truth(ld.fn(Opaque('terse-logger'), level))
    vc.canary('canary.terse_same_as_usual', Iff(result, level >= effective))
    vc.ensure('terse.warnings_and_errors_as_usual', Implies(level >= logging.WARNING, Iff(result, level >= effective)))
    vc.ensure('terse.one_step_quieter_below_warning', Implies(level < logging.WARNING, Iff(result, level - 10 >= effective)))
    # the two modes of the docstring, literally
    vc.ensure('terse.one_step_quieter_below_warning', Implies(And(Eq(effective, logging.INFO), Eq(level, logging.INFO)), Not(result)))
    vc.ensure('terse.one_step_quieter_below_warning', Implies(And(Eq(effective, logging.DEBUG), Eq(level, logging.INFO)), result))
    vc.ensure('terse.one_step_quieter_below_warning', Implies(And(Eq(effective, logging.DEBUG), Eq(level, logging.DEBUG)), Not(result)))
    return ('terse', len(asked))
